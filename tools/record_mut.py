#!/usr/bin/env python3
"""usage: tools/record_mut.py <seed-name> <log> <checks,comma> <detected_by text>
Writes `confirmed_by_me` into seeded/<seed-name>/meta.json from a tools/mut_eval.sh log (suite, demo results)."""
import json, re, sys
name, log, checks, text = sys.argv[1:5]
import os
f = os.path.join(os.path.dirname(os.path.abspath(__file__)), "..", "seeded", name, "meta.json")
d = json.load(open(f))
lg = open(log).read()
failed = [l for l in lg.split("\n") if l.startswith("FAILED")]
assert len(failed) == 3 and all("dateutil" in l for l in failed), failed
d0 = re.search(r"== demo on unchanged /repo\nrc=(\d+) ?(.*)", lg)
d1 = re.search(r"== demo with change\nrc=(\d+) ?(.*)", lg)
assert d0.group(1) == "0" and d1.group(1) != "0", (d0.group(0), d1.group(0))
d["confirmed_by_me"] = {
    "suite_with_change": "short test summary lists exactly 3 FAILED tests, the dateutil identification tests that fail on the unchanged "
                         "tree (Asia/Manila x2, America/Coyhaique); run in the scratch worktree by tools/mut_eval.sh",
    "demo_unchanged": "rc=0 " + d0.group(2)[:60], "demo_with_change": "rc=%s %s" % (d1.group(1), d1.group(2)[:80]),
    "ran": "tools/mut_eval.sh" + ("; re-run of the check after strengthening with the patch applied to /repo and undone" if "MISSED" in text else ""),
    "detected_by": text, "checks": checks.split(",")}
json.dump(d, open(f, "w"), indent=1, ensure_ascii=False)
print(name, "recorded")
