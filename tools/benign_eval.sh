#!/bin/bash
# usage: tools/benign_eval.sh [bnNN ...]   -- behaviour-preserving refactorings of $R (seeded/benign/bnNN.diff): every check must
R=${VERIF_REPO:-/repo}
# stay quiet (exit 0, no VIOLATION line) with each of them applied.  One patch at a time: apply, run all quick checks, undo.
cd "$(dirname "$0")/.."
LIST=${@:-$(ls seeded/benign/bn*.diff | xargs -n1 basename | sed 's/.diff//')}
git -C $R diff --quiet || { echo "$R is dirty"; exit 2; }
rm -rf build/evidence.keep; cp -r evidence build/evidence.keep
for B in $LIST; do
  git -C $R apply $PWD/seeded/benign/$B.diff || { echo "$B: patch does not apply"; continue; }
  mkdir -p build/benign/$B; rm -f build/benign/$B/rc.txt
  PROPS=$(python3 -c "import json;print(' '.join(c['property_id'] for c in json.load(open('MANIFEST.json'))['checks']))")
  printf '%s\n' $PROPS | xargs -P 6 -I{} bash -c "VERIF_SEED=1 ./check {} --tier quick > build/benign/$B/{}.log 2>&1; echo \"{} rc=\$?\" >> build/benign/$B/rc.txt"
  git -C $R checkout -- .
  BAD=$(grep -v "rc=0" build/benign/$B/rc.txt | tr '\n' ' ')
  echo "$B: $(grep -c 'rc=0' build/benign/$B/rc.txt)/20 quiet ${BAD:+ALARM: $BAD}"
done
cp build/evidence.keep/*.json evidence/
