#!/bin/bash
# usage: tools/coverage_audit.sh [seed]   -- statement/branch coverage of /repo/src/icalendar reached by the quick tier of every
# claimed check (a correspondence check cannot notice a change in a line it never runs).  Writes build/coverage/report.txt.
# Scratch data lives in build/coverage and is removed first.  Needs the `coverage` package of /venv (present offline).
cd "$(dirname "$0")/.."
SEED=${1:-0}
OUT=build/coverage; rm -rf $OUT; mkdir -p $OUT
cat > $OUT/rc <<RC
[run]
branch = True
source = /repo/src/icalendar
omit = */tests/*
parallel = True
RC
PROPS=$(python3 -c "import json;print(' '.join(c['property_id'] for c in json.load(open('MANIFEST.json'))['checks']))")
export PYTHONPATH=/repo/src PYTHONHASHSEED=0 ICALENDAR_VERIF=1 PIP_NO_INDEX=1 VERIF_SEED=$SEED
printf '%s\n' $PROPS | xargs -P 6 -I{} bash -c "COVERAGE_FILE=$PWD/$OUT/.coverage.{} /venv/bin/python -m coverage run --rcfile=$OUT/rc ./check {} --tier quick > $OUT/{}.log 2>&1; echo {} rc=\$?"
COVERAGE_FILE=$PWD/$OUT/.coverage /venv/bin/python -m coverage combine --rcfile=$OUT/rc $OUT/ > /dev/null
COVERAGE_FILE=$PWD/$OUT/.coverage /venv/bin/python -m coverage report --rcfile=$OUT/rc -m > $OUT/report.txt
tail -25 $OUT/report.txt
