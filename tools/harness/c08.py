"""C08 -- parameters round-trip with correct quoting, list arity, caseless names."""
import itertools

from . import common

FINGERPRINTS = ["parser.dquote", "parser.q_split", "parser.q_join", "parser.param_value", "parser.validate_token",
                "parser.validate_param_value", "parser.Parameters.to_ical", "parser.Parameters.from_ical",
                "parser.Contentline.parts", "parser.Contentline.from_parts", "parser.escape_string",
                "parser.unescape_string", "parser.unescape_list_or_string"]
ASSUMPTIONS = [
    "parameter names are RFC tokens over ASCII [A-Za-z0-9-_.] in any letter case",
    "values are free of double quotes and of the control characters the library rejects (C0 except HTAB, DEL)",
    "interpretation: a one-element list and the bare string are the same wire value and are identified",
]
TRUSTED = ["the RFC 5545 3.2 param tokenizer used as independent oracle is hand-written in this module"]

VAL_ALPHA = [",", ";", ":", "=", "'", "^", " ", "\\", "%", "2", "C", "3", "A", "a", "n", "’", "\t", "é", "\U0001F600"]
NAME_CHARS = "abcXYZ019-_."
LINE_FORB = ["\\,", "\\;", "\\:", "\\\\", "%2C", "%3A", "%3B", "%5C"]


def line_safe_value(v):
    return not any(f in v for f in LINE_FORB) and not v.endswith("\\")


def canon(d):
    """expected read-back: upper-case names, one-element list == bare string"""
    out = []
    for k, v in d:
        if isinstance(v, list) and len(v) == 1:
            v = v[0]
        out.append([k.upper(), v])
    return out


def obs_params(p):
    return [[k, (list(v) if isinstance(v, (list, tuple)) else str(v))] for k, v in p.items()]


def rfc_tokenize(text):
    """RFC 5545 3.1/3.2:  param *(";" param);  param = name "=" value *("," value);
    value = paramtext / DQUOTE *QSAFE DQUOTE.  Returns [[NAME, [values]]] or None."""
    out = []
    i, n = 0, len(text)
    if n == 0:
        return out
    while True:
        j = i
        while j < n and (text[j].isalnum() and ord(text[j]) < 128 or text[j] in "-_."):
            j += 1
        if j == i or j >= n or text[j] != "=":
            return None
        name = text[i:j].upper()
        i = j + 1
        vals = []
        while True:
            if i < n and text[i] == '"':
                j = text.find('"', i + 1)
                if j < 0:
                    return None
                vals.append(text[i + 1:j])
                i = j + 1
            else:
                j = i
                while j < n and text[j] not in '",;:':
                    j += 1
                vals.append(text[i:j])
                i = j
            if i < n and text[i] == ",":
                i += 1
                continue
            break
        out.append([name, vals])
        if i == n:
            return out
        if text[i] != ";":
            return None
        i += 1


def gen_maps(ctx):
    rng = common.rng_for(ctx.seed, "c08")
    out = []
    maxlen = 3
    # exhaustive single-parameter values up to maxlen symbols
    for n in range(0, maxlen + 1):
        for t in itertools.product(VAL_ALPHA, repeat=n):
            if n == 3 and not ctx.big and rng.random() > 0.35:
                continue
            out.append(("exh-single", [["X-P", "".join(t)]]))
    def rname():
        return "".join(rng.choice(NAME_CHARS) for _ in range(rng.randrange(1, 6)))
    def rval():
        return "".join(rng.choice(VAL_ALPHA) for _ in range(rng.choice((0, 1, 2, 3, 5, 9))))
    for _ in range(30000 if ctx.big else 2500 * (1 + 3 * ctx.level)):
        d = []
        names = set()
        for _ in range(rng.randrange(1, 5)):
            nm = rname()
            if nm.upper() in names:
                continue
            names.add(nm.upper())
            if rng.random() < 0.4:
                d.append([nm, [rval() for _ in range(rng.randrange(1, 5))]])
            else:
                d.append([nm, rval()])
        out.append(("random-map", d))
    RFC_NAMES = ["ALTREP", "CN", "CUTYPE", "DELEGATED-FROM", "DELEGATED-TO", "DIR", "ENCODING", "FMTTYPE", "FBTYPE", "LANGUAGE",
                 "MEMBER", "PARTSTAT", "RANGE", "RELATED", "RELTYPE", "ROLE", "RSVP", "SENT-BY", "TZID", "VALUE"]
    plain = ["a@example.com", "team-a", "mailto:b@example.com", "x", "EN", "TRUE", "http://e.x/y", "b c"]
    for nm in RFC_NAMES:                      # every RFC 5545 parameter name, single and multi-valued, quoted or not
        out.append(("rfc-name", [[nm, rng.choice(plain)]]))
        out.append(("rfc-name", [[nm, [rng.choice(plain) for _ in range(rng.randrange(2, 4))]]]))
        out.append(("rfc-name", [[nm.lower(), ["team-a", "team-b"]], ["X-OTHER", "1"]]))
    corpus = [[["CN", "a\\"]], [["A", "x\\"], ["Q", "r"]], [["X", ["a", "b"]]], [["X", ["a"]]], [["x-y", "a,b"]],
              [["X", "%2C"]], [["X", ""]], [["X", ["", ""]]], [["b", "1"], ["A", "2"]]]
    return [("corpus", d) for d in corpus] + out


def run(ctx, res):
    import icalendar
    from icalendar.parser import Parameters, Contentline, dquote, q_split, q_join
    from icalendar.prop import vText
    M = ctx.model
    known = ctx.known
    cases = gen_maps(ctx)
    res.rule = ("parameter maps: exhaustive single values up to 3 symbols over an 18-symbol alphabet (3-symbol ones "
                "sampled 35% in quick), random maps of 1-4 names in mixed case with values/lists of 1-4; three paths "
                "(alone, in a content line, on a property of a component); non-trivial = some value contains a "
                "delimiter , ; : = backslash percent or a quote-forcing character; distinct by content")
    reqs = []
    rows = []
    for kind, d in cases:
        res.dist(kind)
        flat = [x for _, v in d for x in (v if isinstance(v, list) else [v])]
        res.count(d, nontrivial=any(c in x for x in flat for c in ",;:=\\% '’"))
        want = canon(d)
        P = Parameters()
        for k, v in d:
            P[k] = v
        row = {}
        text = P.to_ical().decode("utf-8")
        row["text"] = text
        text_unsorted = P.to_ical(sorted=False).decode("utf-8")
        row["text_unsorted"] = text_unsorted
        # (a) alone
        try:
            row["alone"] = obs_params(Parameters.from_ical(text))
        except ValueError:
            row["alone"] = ["err", "ValueError"]
        # (b) in a content line
        try:
            line = Contentline.from_parts("X-NAME", P, vText("v"))
            row["line_text"] = str(line)
            nm, ps, val = line.parts()
            row["line"] = [nm, obs_params(ps), val]
        except ValueError:
            row["line"] = ["err", "ValueError"]
        except AssertionError:
            row["line"] = ["err", "AssertionError"]
        # (c) on a property of a component
        try:
            ev = icalendar.Event()
            ev.add("x-name", "v", parameters={k: v for k, v in d})
            back = icalendar.Event.from_ical(ev.to_ical())
            if "X-NAME" in back:
                row["comp"] = ["X-NAME", obs_params(back["X-NAME"].params), str(back["X-NAME"])]
            else:
                row["comp"] = ["dropped", [str(e) for e in back.errors][:1] and "errors"]
        except ValueError:
            row["comp"] = ["err", "ValueError"]
        except AssertionError:
            row["comp"] = ["err", "AssertionError"]
        rows.append(row)

        # ---- the property on the implementation
        sorted_want = sorted(want, key=lambda kv: kv[0])
        if row["alone"] != sorted_want:
            res.fail("C08 alone: Parameters.from_ical(Parameters(d).to_ical()) differs from d", d,
                     observed=row["alone"], expected=sorted_want)
        toks = rfc_tokenize(text)
        exp_tok = [[k, v if isinstance(v, list) else [v]] for k, v in sorted_want]
        if toks != exp_tok:
            res.fail("C08 quoting: an RFC 5545 tokenizer splits the emitted parameters differently", d,
                     observed=toks, expected=exp_tok)
        safe = all(line_safe_value(x) for x in flat)
        for path, got, exp in (("line", row["line"], ["X-NAME", sorted_want, "v"]),
                               ("comp", row["comp"], ["X-NAME", sorted_want, "v"])):
            if got == exp:
                continue
            row["_bad_" + path] = (safe, exp)
        reqs += [("params_to_ical", [1, d_wire(d)]), ("params_to_ical", [0, d_wire(d)]),
                 ("params_from_ical", text), ("parts", row.get("line_text", "X:")),
                 ("c05_guards", ["X-NAME", d_wire(d), 1, "v"])]
    outs = M.batch(reqs) if M else None
    n_in_guard = 0
    for i, ((kind, d), row) in enumerate(zip(cases, rows)):
        m_parts = None
        if outs is not None:
            m_text, m_text_u, m_alone, m_parts, m_guards = outs[5 * i:5 * i + 5]
            if m_guards != ["unsupported"] and all(m_guards[:4]):
                # inside the guards of theorem C08_params_line_rt: a deviation can never be the known finding
                n_in_guard += 1
                for path in ("line", "comp"):
                    if "_bad_" + path in row:
                        row["_bad_" + path] = (True, row["_bad_" + path][1])
            res.corr("Parameters.to_ical(sorted)", d, row["text"], m_text)
            res.corr("Parameters.to_ical(unsorted)", d, row["text_unsorted"], m_text_u)
            res.corr("Parameters.from_ical", row["text"], row["alone"], m_alone)
            if "line_text" in row:
                res.corr("Contentline.parts (params in a line)", row["line_text"], row["line"], m_parts)
        for path in ("line", "comp"):
            if "_bad_" + path not in row:
                continue
            safe, exp = row["_bad_" + path]
            got = row[path]
            model_agrees = (outs is None) or (m_parts == row["line"])
            if not safe and "C08-F1" in known and model_agrees:
                res.known("C08-F1", {"path": path, "params": d, "got": got}, known["C08-F1"]["summary"])
            else:
                res.fail(f"C08 {path}: parameters read back differ" + ("" if safe else " (outside guard, not as the model predicts)"),
                         d, observed=got, expected=exp)
    res.extra["line_cases_inside_theorem_guards"] = n_in_guard
    # leaf correspondence: dquote / q_split / q_join on raw strings
    if M:
        rng = common.rng_for(ctx.seed, "c08-leaf")
        alpha = ['"', ",", ";", "=", ":", "a", " ", "'", "\\"]
        strs = ["".join(t) for n in range(0, 5) for t in itertools.product(alpha[:6], repeat=n)]
        strs += ["".join(rng.choice(alpha) for _ in range(rng.randrange(0, 14))) for _ in range(3000)]
        reqs = []
        for s in strs:
            reqs += [("dquote", s), ("q_split", [s, ord(","), -1]), ("q_split", [s, ord(";"), -1]),
                     ("q_split", [s, ord("="), 1]), ("params_from_ical", s)]
        outs = M.batch(reqs)
        for i, s in enumerate(strs):
            res.evaluations += 1
            o = outs[5 * i:5 * i + 5]
            res.corr("dquote", s, dquote(s), o[0])
            res.corr("q_split ,", s, q_split(s, ","), o[1])
            res.corr("q_split ;", s, q_split(s, ";"), o[2])
            res.corr("q_split = maxsplit 1", s, q_split(s, "=", maxsplit=1), o[3])
            try:
                got = obs_params(Parameters.from_ical(s))
            except ValueError:
                got = ["err", "ValueError"]
            res.corr("Parameters.from_ical (raw text)", s, got, o[4])
    # ---- the parameters of parsed properties are objects of their own: changing one leaves every other one alone
    import icalendar
    txt = ("BEGIN:VCALENDAR\r\nVERSION:2.0\r\nBEGIN:VEVENT\r\nUID:u1\r\nSUMMARY:s\r\nLOCATION:l\r\nATTENDEE:mailto:a@x\r\n"
           "COMMENT;LANGUAGE=en:c\r\nEND:VEVENT\r\nBEGIN:VTODO\r\nUID:u2\r\nSUMMARY:t\r\nEND:VTODO\r\nEND:VCALENDAR\r\n")
    for edit in ("setitem", "update", "name-setter", "clear-other"):
        cal = icalendar.Calendar.from_ical(txt)
        ev, td = cal.subcomponents
        before = {(c.name, k): obs_params(c[k].params) for c in (cal, ev, td) for k in c.keys()}
        if edit == "setitem":
            ev["SUMMARY"].params["LANGUAGE"] = "de"
            touched = [("VEVENT", "SUMMARY")]
        elif edit == "update":
            ev["LOCATION"].params.update({"ALTREP": "http://x", "X-P": ["a", "b"]})
            touched = [("VEVENT", "LOCATION")]
        elif edit == "name-setter":
            ev["ATTENDEE"].name = "Anna"
            touched = [("VEVENT", "ATTENDEE")]
        else:
            ev["COMMENT"].params.clear()
            touched = [("VEVENT", "COMMENT")]
        after = {(c.name, k): obs_params(c[k].params) for c in (cal, ev, td) for k in c.keys()}
        other = Contentline("X-FRESH:v").parts()[1]
        res.evaluations += 1
        changed = sorted(k for k in before if before[k] != after[k] and k not in touched)
        if changed or len(other):
            res.fail("C08: editing the parameters of one parsed property changed the parameters of other properties (or of a "
                     "freshly parsed line)", edit, observed=[changed, obs_params(other)])
    # ---- a parsed parameter map belongs to the caller: editing its value lists in place does not change what the same
    #      text parses to later (directly or as part of a content line)
    for ptxt in ["MEMBER=a,b", 'MEMBER="mailto:a@x","mailto:b@x";ROLE=r', "X-L=1,2,3;X-S=one", 'DELEGATED-TO="a,b",c;CN=x',
                 "X-L=a,a", "X-E=,x"]:
        for route in ("from_ical", "parts"):
            def parse():
                return Parameters.from_ical(ptxt) if route == "from_ical" else Contentline("ATTENDEE;" + ptxt + ":mailto:z@x").parts()[1]
            try:
                first = parse()
            except ValueError:
                continue
            want = obs_params(first)
            for v in list(first.values()):
                if isinstance(v, list):
                    v.append("zz")
                    v.reverse()
            first["X-ADDED"] = "1"
            res.evaluations += 1
            for route2 in ("from_ical", "parts"):
                route = route2
                got = obs_params(parse())
                if got != want:
                    res.fail("C08: parsing the same parameter text again gives other parameters after the caller edited the "
                             "first result in place", [ptxt, route2], observed=got, expected=want)
    # ---- parameter values that are typed property values (rendered with their own to_ical, then quoted as needed)
    from icalendar.prop import vInt, vBoolean, vCalAddress, vUri, vText
    typed = [({"X-N": vInt(5)}, "X-N=5", {"X-N": "5"}), ({"RSVP": vBoolean(True)}, "RSVP=TRUE", {"RSVP": "TRUE"}),
             ({"SENT-BY": vCalAddress("mailto:a@x")}, 'SENT-BY="mailto:a@x"', {"SENT-BY": "mailto:a@x"}),
             ({"ALTREP": vUri("http://x/y;z")}, 'ALTREP="http://x/y;z"', {"ALTREP": "http://x/y;z"}),
             ({"CN": vText("a, b")}, 'CN="a, b"', {"CN": "a, b"}), ({"X-N": vInt(-7), "X-M": [vText("p"), "q r"]}, 'X-M=p,"q r";X-N=-7', {"X-M": ["p", "q r"], "X-N": "-7"})]
    for given, text, back in typed:
        res.evaluations += 1
        try:
            got = Parameters(given).to_ical().decode()
            rb = dict(Parameters.from_ical(got))
        except Exception as e:  # noqa: BLE001
            got, rb = "raised " + type(e).__name__, None
        if got != text or rb != back:
            res.fail("C08: a parameter whose value is a typed property value is not rendered by that value's to_ical, or is not "
                     "read back", repr(given), observed=[got, rb], expected=[text, back])
    res.sample({"params": cases[12][1], "text": rows[12]["text"], "read back": rows[12]["alone"]})
    res.sample({"params": cases[-1][1], "text": rows[-1]["text"], "line": rows[-1].get("line_text"), "parts": rows[-1]["line"]})


def d_wire(d):
    return [[k.upper(), v] for k, v in d]


def replay(ctx, data):
    from icalendar.parser import Parameters
    d = data["input"]
    P = Parameters()
    for k, v in d:
        P[k] = v
    t = P.to_ical().decode()
    print("to_ical :", t)
    try:
        print("from_ical:", obs_params(Parameters.from_ical(t)))
    except ValueError as e:
        print("from_ical: ValueError", e)
    print("expected :", sorted(canon(d)))
