"""C05 -- content-line join/split are inverse; values cannot inject structure."""
import itertools

from . import common
from .c08 import canon, obs_params, line_safe_value, d_wire

FINGERPRINTS = ["parser.Contentline.parts", "parser.Contentline.from_parts", "parser.Contentline.__new__",
                "parser.escape_string", "parser.unescape_string", "parser.dquote", "parser.q_split",
                "parser.Parameters.to_ical", "parser.Parameters.from_ical", "parser.param_value",
                "parser.validate_token", "parser.validate_param_value", "parser.Contentlines.from_ical",
                "parser.Contentlines.to_ical", "parser.escape_char", "parser.unescape_char"]
ASSUMPTIONS = [
    "default interpreter mode: the LF refusal in Contentline.__new__ is an assert and vanishes under python -O",
    "join/split clause: parameter values free of double quotes and rejected control characters (RFC domain); the "
    "no-injection clause has no restriction on values at all",
]
TRUSTED = []

DELIMS = ["\\", ";", ":", ",", '"', "%", "3", "A", "B", "=", "\r", "\n", "BEGIN:VEVENT", "END:VEVENT", "\r\nX-INJ:1"]
VALUE_FORB = ["\\,", "\\;", "\\:", "\\\\", "%2C", "%3A", "%3B", "%5C"]
TEXT_FORB = ["\\n", "\\\\", "\\,", "\\;", "%2C", "%3A", "%3B", "%5C"]


def shape(comp):
    """(name, sorted [(prop name, sorted param names)...], [child shapes])"""
    props = []
    for name in comp.keys():
        vals = comp[name]
        if not isinstance(vals, list):
            vals = [vals]
        for v in vals:
            ps = sorted(k.upper() for k in getattr(v, "params", {}).keys())
            props.append([name.upper(), ps])
    return [comp.name, sorted(props), [shape(c) for c in comp.subcomponents]]


def remove_prop(sh, path, pname):
    """shape with one occurrence of property pname removed from the component at path"""
    import copy
    sh = copy.deepcopy(sh)
    node = sh
    for i in path:
        node = node[2][i]
    for j, (n, _) in enumerate(node[1]):
        if n == pname:
            del node[1][j]
            break
    return sh


def run(ctx, res):
    import icalendar
    from icalendar.parser import Parameters, Contentline
    from icalendar.prop import vText, vUri, vCalAddress, vInt, vInline
    M = ctx.model
    known = ctx.known
    rng = common.rng_for(ctx.seed, "c05")
    res.rule = ("(A) join/split: names x parameter maps x values of text/URI/cal-address/int/inline types with "
                "delimiter-heavy content; (B) injection: every string of <=2 (sampled 3; all 3 in thorough) symbols over "
                "a 15-symbol delimiter alphabet (incl. CR, LF, BEGIN:/END: text, CRLF+property) spliced into 7 slots "
                "(text, URI, cal-address, x-property, category item, parameter value, parameter list item) of an "
                "event inside a calendar; non-trivial = the spliced string contains a structural delimiter; distinct by (slot, string)")

    # ------------------------------------------------------------------ (A) join / split
    kinds = {"text": vText, "uri": vUri, "caladdress": vCalAddress, "inline": vInline}
    val_alpha = ["\\", ";", ":", ",", '"', "%", "2", "C", "3", "A", "n", "N", "a", " ", "\r", "=", "é"]
    names = ["SUMMARY", "x-foo", "ATTENDEE", "A.b-c_9", "URL"]
    casesA = []
    for n in range(0, 3):
        for t in itertools.product(val_alpha, repeat=n):
            for kind in kinds:
                casesA.append((rng.choice(names), [], kind, "".join(t)))
    pvals = ["x", "a b", "a,b", "a;b", "a:b", "a\\", "a\\,b", "%3A", "é’", "", "a=b", "'q'", "a\"b", "\"", "\"a\"", "\"a\";B=\"c\""]
    for _ in range(20000 if ctx.big else 2500 * (1 + 3 * ctx.level)):
        d = []
        seen = set()
        for _ in range(rng.randrange(0, 4)):
            k = rng.choice(["CN", "x-p", "ROLE", "MEMBER", "Q", "a.b"])
            if k.upper() in seen:
                continue
            seen.add(k.upper())
            d.append([k, rng.choice(pvals) if rng.random() < 0.7 else [rng.choice(pvals) for _ in range(rng.randrange(1, 4))]])
        kind = rng.choice(list(kinds))
        v = "".join(rng.choice(val_alpha) for _ in range(rng.choice((0, 1, 3, 6, 12))))
        casesA.append((rng.choice(names), d, kind, v))
    # long lines whose folds fall inside runs of blanks (a continuation line made of blanks only must survive)
    for n in (60, 66, 70, 74, 80, 150):
        casesA.append(("SUMMARY", [], "text", "W" * n + "   "))
        casesA.append(("SUMMARY", [["CN", "x" * (n - 20) + "     y"]], "text", " " * n))
        casesA.append(("X-FOO", [], "text", "a" + " \t " * (n // 3) + "b"))
    casesA = [("URL", [], "uri", "\ufeffhttp://x"), ("SUMMARY", [["CN", "\ufeffn"]], "text", "\ufeff"),
              ("URL", [["A", "x\\"]], "uri", "p;Q=r:z"), ("SUMMARY", [["A", "\\"], ["B", "x"]], "text", "v")] + casesA
    reqs, rows = [], []
    for name, d, kind, v in casesA:
        res.dist("A:" + kind)
        flat = [x for _, pv in d for x in (pv if isinstance(pv, list) else [pv])]
        res.count(("A", name, d, kind, v), nontrivial=any(c in v + "".join(flat) for c in "\\;:,\"%"))
        P = Parameters()
        for k, pv in d:
            P[k] = pv
        val = kinds[kind](v)
        vtext = val.to_ical().decode("utf-8")
        row = {"vtext": vtext}
        try:
            line = Contentline.from_parts(name, P, val)
            row["line"] = str(line)
            # the line through its physical layout (folded, CRLF) and back
            from icalendar.parser import Contentlines
            if "\n" not in str(line) and "\r" not in str(line):
                back = [str(x) for x in Contentlines.from_ical(Contentlines([line]).to_ical()) if x]
                if back != ([str(line)] if str(line) else []):
                    res.fail("C05: a joined line written out (folded) and read back is another line", {"name": name, "params": d, "value": v},
                             observed=back, expected=[str(line)])
            try:
                nm, ps, vt = line.parts()
                row["parts"] = [nm, obs_params(ps), vt]
            except ValueError:
                row["parts"] = ["err", "ValueError"]
        except AssertionError:
            row["line"] = ["err", "AssertionError"]
            row["parts"] = None
        rows.append(row)
        reqs.append(("from_parts", [name, d_wire(d), 1, vtext]))
        reqs.append(("parts", row["line"] if isinstance(row["line"], str) else "X:"))
        reqs.append(("c05_guards", [name, d_wire(d), 1, vtext]))
    outs = M.batch(reqs) if M else None
    n_in_guard = 0
    for i, ((name, d, kind, v), row) in enumerate(zip(casesA, rows)):
        m_line = m_parts = None
        if outs is not None:
            m_line, m_parts, m_guards = outs[3 * i], outs[3 * i + 1], outs[3 * i + 2]
            # inside the guards of theorem C05_join_split the implementation must return exactly
            # (name, canonical parameters, value text): this is the theorem's claim, checked on the real code
            if m_guards != ["unsupported"] and all(m_guards) and row["parts"] is not None:
                n_in_guard += 1
                want_exact = [name, sorted([[k.upper(), (pv[0] if isinstance(pv, list) and len(pv) == 1 else
                                                         ("" if pv == [] else pv))] for k, pv in d_q(d)],
                                           key=lambda kv: kv[0]), row["vtext"]]
                if row["parts"] != want_exact:
                    res.fail("C05 join/split inside the theorem's guards: parts(from_parts(...)) differs from "
                             "(name, canonical params, value text)", [name, d, kind, v], observed=row["parts"],
                             expected=want_exact)
            res.corr("Contentline.from_parts", [name, d, row["vtext"]], row["line"], m_line)
            if row["parts"] is not None:
                res.corr("Contentline.parts", row["line"], row["parts"], m_parts)
        if row["parts"] is None:
            continue  # refused (LF): allowed outcome
        flat = [x for _, pv in d for x in (pv if isinstance(pv, list) else [pv])]
        if any('"' in x or any(ord(c) < 32 and c != "\t" or ord(c) == 127 for c in x) for x in flat):
            continue  # outside the RFC domain of the join/split clause (covered by part B)
        want_ps = sorted(canon(d), key=lambda kv: kv[0])
        forb = TEXT_FORB if kind == "text" else VALUE_FORB
        safe_v = not any(f in v for f in forb)
        safe_p = all(line_safe_value(x) for x in flat)
        ok = row["parts"][:2] == [name, want_ps] if row["parts"][0] != "err" else False
        if ok:
            vt = row["parts"][2]
            if kind == "text":
                from icalendar.parser import unescape_char
                ok = unescape_char(vt) == v.replace("\\N", "\n").replace("\r\n", "\n")
            else:
                ok = vt == v
        if ok:
            continue
        model_agrees = outs is None or m_parts == row["parts"] or m_parts == ["unsupported"]
        if (not safe_p) and "C05-F1" in known and model_agrees:
            res.known("C05-F1", {"line": row["line"], "parts": row["parts"]}, known["C05-F1"]["summary"])
        elif (not safe_v) and "C05-F2" in known and model_agrees:
            res.known("C05-F2", {"line": row["line"], "parts": row["parts"]}, known["C05-F2"]["summary"])
        else:
            res.fail("C05 join/split: parts(from_parts(name, params, value)) does not return name, params and value",
                     [name, d, kind, v], observed=row["parts"], expected=[name, want_ps, "<text decoding to value>"])

    res.extra["join_split_cases_inside_theorem_guards"] = n_in_guard
    # ------------------------------------------------------------------ (B) injection
    strings = [""]
    for n in (1, 2, 3):
        for t in itertools.product(DELIMS, repeat=n):
            if n == 3 and not ctx.big and rng.random() > (0.08 * (1 + 3 * ctx.level)):
                continue
            strings.append("".join(t))
    strings += ["x\\", "\\", 'a"b', "a\\\\", "\\;B=x", '";X=1', '":X:1', "a\\:b"]
    # payload grammar: sequences of structural fragments, optionally wrapped in quotes / ending in a backslash
    frags = ['"', ";X-INJ=1", ":injected", ",", "\\", "a", "=", ";", ":", "\r", "'", " ", "%3B", "%3A", '";X-INJ="1',
             "\r\nX-INJ:1", "BEGIN:VEVENT", "END:VEVENT", "\n", "\x0bX-INJ:1", "\x0cEND:VEVENT", "\u2028X-INJ:1", "\x85X-INJ:1",
             "\x1cX-INJ:1", "\x1e", "\u2029"]
    strings += [b + inj for b in ("\x0b", "\x0c", "\x1c", "\x1d", "\x1e", "\x85", "\u2028", "\u2029")
                for inj in ("X-INJ:1", "END:VEVENT", " folded")]
    for _ in range(6000 if ctx.big else 700 * (1 + 3 * ctx.level)):
        body = "".join(rng.choice(frags) for _ in range(rng.randrange(1, 6)))
        w = rng.random()
        if w < 0.3:
            body = '"' + body + '"'
        elif w < 0.4:
            body = body + "\\"
        elif w < 0.5:
            body = '"' + body
        strings.append(body)
    slots = ["summary", "url", "attendee", "xprop", "category", "param", "paramlist"]
    lines_to_model = []
    pending = []
    for s in strings:
        for slot in slots:
            res.dist("B:" + slot)
            res.count(("B", slot, s), nontrivial=any(c in s for c in "\\;:,\"\r\n"))
            cal = icalendar.Calendar()
            ev = icalendar.Event()
            ev.add("uid", "u1")
            pname = None
            try:
                if slot == "summary":
                    ev.add("summary", s); pname = "SUMMARY"
                elif slot == "url":
                    ev.add("url", vUri(s), parameters={"A": "x"}); pname = "URL"
                elif slot == "attendee":
                    ev.add("attendee", vCalAddress(s), parameters={"CN": "n", "ROLE": "r"}); pname = "ATTENDEE"
                elif slot == "xprop":
                    ev.add("x-foo", s, parameters={"X-A": "1"}); pname = "X-FOO"
                elif slot == "category":
                    ev.add("categories", ["a", s, "b"]); pname = "CATEGORIES"
                elif slot == "param":
                    ev.add("attendee", vCalAddress("mailto:a@b"), parameters={"CN": s, "ROLE": "r"}); pname = "ATTENDEE"
                elif slot == "paramlist":
                    ev.add("attendee", vCalAddress("mailto:a@b"), parameters={"MEMBER": ["m1", s, "m2"], "ROLE": "r"}); pname = "ATTENDEE"
            except Exception:  # noqa: BLE001
                continue
            ev.add("dtstamp", __import__("datetime").datetime(2020, 1, 1, 0, 0, 0))
            cal.add_component(ev)
            ev2 = icalendar.Event()
            ev2.add("uid", "u2")
            cal.add_component(ev2)
            intended = shape(cal)
            try:
                data = cal.to_ical()
            except AssertionError:
                res.dist("B:refused")
                continue
            except Exception as e:  # noqa: BLE001
                res.dist("B:refused-" + type(e).__name__)
                continue
            try:
                back = icalendar.Calendar.from_ical(data)
            except ValueError:
                res.dist("B:rejected-whole")
                continue
            except Exception as e:  # noqa: BLE001
                res.fail("C05 injection: parse of the library's own output raised " + type(e).__name__, [slot, s])
                continue
            got = shape(back)
            # the reader of several calendars reads the same text as the same tree
            try:
                several = icalendar.Calendar.from_ical(data, multiple=True)
                got_m = [shape(x) for x in several]
            except Exception as e:  # noqa: BLE001
                got_m = type(e).__name__
            if got_m != [got]:
                res.fail("C05 injection: from_ical(text, multiple=True) reads the library's own output as another tree than "
                         "from_ical(text)", [slot, s], observed=got_m, expected=[got])
                continue
            if got == intended:
                continue
            if got == remove_prop(intended, [0], pname) and back.subcomponents and back.subcomponents[0].errors:
                res.dist("B:property-rejected")
                continue
            # structural deviation: known only if it is the trailing-backslash parameter class and the line-level
            # model predicts exactly what the implementation's parts() returns for the offending line
            val = ev[pname]
            val = val[0] if isinstance(val, list) else val
            line = str(ev.content_line(pname, val))
            emitted = [x for pv in val.params.values() for x in (pv if isinstance(pv, (list, tuple)) else [pv])]
            in_class = any(str(x).endswith("\\") for x in emitted)
            pending.append((slot, s, line, in_class, got, intended))
            lines_to_model.append(("parts", line))
    mouts = M.batch(lines_to_model) if (M and lines_to_model) else [None] * len(lines_to_model)
    for (slot, s, line, in_class, got, intended), m in zip(pending, mouts):
        try:
            nm, ps, vt = Contentline(line).parts()
            impl = [nm, obs_params(ps), vt]
        except ValueError:
            impl = ["err", "ValueError"]
        model_agrees = (m is None) or (m == impl) or (m == ["unsupported"])
        if in_class and "C05-F1" in known and model_agrees:
            res.known("C05-F1", {"slot": slot, "s": s, "line": line, "parts": impl}, known["C05-F1"]["summary"])
        else:
            res.fail("C05 injection: tree read back has different components/properties/parameters than intended",
                     [slot, s], observed=got, expected=intended)
    # ---- what parts() returns belongs to the caller: editing it in place does not change what the same line splits into later
    for ptxt in ["MEMBER=a,b", 'MEMBER="mailto:a@x","mailto:b@x";ROLE=r', "X-L=1,2,3;X-S=one", 'DELEGATED-TO="a,b",c;CN=x']:
        line = "ATTENDEE;" + ptxt + ":mailto:z@x"
        first = Contentline(line).parts()
        want = [first[0], obs_params(first[1]), str(first[2])]
        for v in list(first[1].values()):
            if isinstance(v, list):
                v.append("zz")
                v.reverse()
        first[1]["X-ADDED"] = "1"
        res.evaluations += 1
        again = Contentline(line).parts()
        got = [again[0], obs_params(again[1]), str(again[2])]
        ev = icalendar.Event.from_ical("BEGIN:VEVENT\r\n" + line + "\r\nEND:VEVENT\r\n")
        got_c = obs_params(ev["ATTENDEE"].params)
        if got != want or got_c != want[1]:
            res.fail("C05 join/split: the same content line splits into other parts after the caller edited an earlier result "
                     "in place", line, observed=[got, got_c], expected=want)
    res.sample({"A": casesA[0], "line": rows[0]["line"], "parts": rows[0]["parts"]})
    res.sample({"B-slot": "url", "string": "END:VEVENT", "note": "spliced into 7 slots; structure of parse(to_ical) compared with the intended one"})


def d_q(d):
    """DQUOTE -> apostrophe, as dquote() does (canon_params of the model)"""
    return [[k, ([x.replace('"', "'") for x in pv] if isinstance(pv, list) else pv.replace('"', "'"))] for k, pv in d]


def replay(ctx, data):
    print(data)
    inp = data.get("input")
    if isinstance(inp, list) and len(inp) == 2 and inp[0] in ("summary", "url", "attendee", "xprop", "category", "param", "paramlist"):
        import icalendar
        from icalendar import vCalAddress
        slot, s = inp
        ev = icalendar.Event()
        ev.add("uid", "u1")
        if slot == "summary":
            ev.add("summary", s)
        elif slot == "url":
            ev.add("url", s)
        elif slot == "attendee":
            ev.add("attendee", s)
        elif slot == "xprop":
            ev.add("x-foo", s, parameters={"X-A": "1"})
        elif slot == "category":
            ev.add("categories", ["a", s, "b"])
        elif slot == "param":
            ev.add("attendee", vCalAddress("mailto:a@b"), parameters={"CN": s, "ROLE": "r"})
        else:
            ev.add("attendee", vCalAddress("mailto:a@b"), parameters={"MEMBER": ["m1", s, "m2"], "ROLE": "r"})
        text = ev.to_ical()
        print("serialised:", text)
        print("from_ical(text)               :", shape(icalendar.Event.from_ical(text)))
        print("from_ical(text, multiple=True):", [shape(x) for x in icalendar.Event.from_ical(text, multiple=True)])
