"""Shared machinery of the correspondence harness: wire format, model driver client,
PRNG, shrinking, known findings, replay and evidence files."""
import base64
import hashlib
import json
import os
import random
import subprocess
import sys
import tempfile
import time

VERIF = os.path.dirname(os.path.dirname(os.path.dirname(os.path.abspath(__file__))))
BUILD = os.path.join(VERIF, "build")
DRIVER = os.path.join(BUILD, "driver")


# ---------------------------------------------------------------------------- wire format
def enc(v):
    """Python value -> wire text.  int/bool -> i..; str -> s<code points>; bytes -> s<octets>;
    list/tuple -> ( ... );  None -> ( snone-tag )"""
    if v is None:
        return "( s110,111,110,101 )"  # ("none")
    if isinstance(v, bool):
        return "i1" if v else "i0"
    if isinstance(v, int):
        if abs(v) >= 1 << 60:
            raise ValueError("int too large for the wire; send as string")
        return f"i{v}"
    if isinstance(v, str):
        return "s" + ",".join(str(ord(c)) for c in v)
    if isinstance(v, (bytes, bytearray)):
        return "s" + ",".join(str(c) for c in v)
    if isinstance(v, (list, tuple)):
        return "( " + " ".join(enc(x) for x in v) + " )" if v else "( )"
    raise TypeError(f"cannot encode {type(v)}")


def dec(text):
    toks = text.split()
    pos = 0

    def val():
        nonlocal pos
        t = toks[pos]
        pos += 1
        if t == "(":
            out = []
            while toks[pos] != ")":
                out.append(val())
            pos += 1
            return out
        if t[0] == "i":
            return int(t[1:])
        if t[0] == "s":
            if len(t) == 1:
                return ""
            return "".join(chr(int(x)) for x in t[1:].split(","))
        raise ValueError(f"bad token {t!r} in {text[:80]!r}")

    v = val()
    return v


class Model:
    """Client of the extracted OCaml driver (batch mode)."""

    def __init__(self, driver=DRIVER):
        self.driver = driver
        self.calls = 0

    def available(self):
        return os.path.exists(self.driver)

    def batch(self, reqs):
        """reqs: list of (fname, python value)  ->  list of python values"""
        if not reqs:
            return []
        os.makedirs(BUILD, exist_ok=True)
        with tempfile.NamedTemporaryFile("w", dir=BUILD, suffix=".req", delete=False) as f:
            for fname, v in reqs:
                f.write(fname + " " + enc(v) + "\n")
            path = f.name
        try:
            with open(path) as fin:
                p = subprocess.run(["bash", "-c", f"ulimit -s unlimited; exec {self.driver}"],
                                   stdin=fin, capture_output=True, text=True, timeout=3600)
        finally:
            os.unlink(path)
        if p.returncode != 0:
            raise RuntimeError(f"model driver failed: rc={p.returncode} {p.stderr[:500]}")
        lines = p.stdout.split("\n")
        if lines and lines[-1] == "":
            lines.pop()
        if len(lines) != len(reqs):
            raise RuntimeError(f"model driver answered {len(lines)} lines for {len(reqs)} requests")
        out = []
        for ln in lines:
            if ln.startswith("!driver-failure"):
                out.append(["err", "driver:" + ln])
            else:
                out.append(dec(ln))
        self.calls += len(reqs)
        return out

    def call(self, fname, v):
        return self.batch([(fname, v)])[0]


# ---------------------------------------------------------------------------- misc helpers
def rng_for(seed, label):
    h = hashlib.sha256(f"{seed}:{label}".encode()).digest()
    return random.Random(int.from_bytes(h[:8], "big"))


def exc_class(e):
    """Canonical exception class: the ValueError family collapses to 'ValueError'."""
    if isinstance(e, ValueError):
        return "ValueError"
    return type(e).__name__


def ddmin(x, fails, split=None, join=None):
    """Delta-debugging minimisation of a sequence (str or list) keeping [fails(x)] true."""
    if split is None:
        split = list
    if join is None:
        join = (lambda parts: "".join(parts)) if isinstance(x, str) else list
    items = split(x)
    n = 2
    budget = 2000
    while len(items) >= 2 and budget > 0:
        chunk = max(1, len(items) // n)
        reduced = False
        for i in range(0, len(items), chunk):
            cand = items[:i] + items[i + chunk:]
            budget -= 1
            try:
                ok = fails(join(cand))
            except Exception:
                ok = False
            if ok:
                items = cand
                n = max(n - 1, 2)
                reduced = True
                break
        if not reduced:
            if chunk == 1:
                break
            n = min(n * 2, len(items))
    return join(items)


def jsonable(v):
    if isinstance(v, (bytes, bytearray)):
        return {"bytes_b64": base64.b64encode(bytes(v)).decode()}
    if isinstance(v, (list, tuple)):
        return [jsonable(x) for x in v]
    if isinstance(v, dict):
        return {str(k): jsonable(x) for k, x in v.items()}
    if isinstance(v, (str, int, float, bool)) or v is None:
        return v
    return repr(v)


# ---------------------------------------------------------------------------- result record
class Result:
    """What one check run found; filled by the property module, finalised by ./check."""

    def __init__(self, prop, tier, seed):
        self.prop, self.tier, self.seed = prop, tier, seed
        self.evaluations = 0
        self.nontrivial = set()          # hashes of distinct non-trivial cases
        self.rule = ""
        self.samples = []
        self.distribution = {}
        self.unsupported = 0
        self.correspondence = {}         # target -> {"cases": n, "disagreements": [..]}
        self.failures = []               # property failures on the implementation (not known)
        self.known_hits = {}             # finding id -> [count, example, summary]
        self.notes = []
        self.extra = {}

    # -- counting
    def count(self, key, nontrivial=True):
        self.evaluations += 1
        if nontrivial:
            self.nontrivial.add(hashlib.blake2b(repr(key).encode(), digest_size=8).digest())

    def dist(self, k, n=1):
        self.distribution[k] = self.distribution.get(k, 0) + n

    def sample(self, s, limit=8):
        if len(self.samples) < limit:
            self.samples.append(jsonable(s))

    # -- correspondence
    def corr(self, target, inp, impl, model):
        c = self.correspondence.setdefault(target, {"cases": 0, "disagreements": [], "unsupported": 0})
        if isinstance(model, list) and model[:1] == ["unsupported"]:
            c["unsupported"] += 1
            self.unsupported += 1
            return True
        c["cases"] += 1
        if impl != model:
            if len(c["disagreements"]) < 20:
                c["disagreements"].append({"input": jsonable(inp), "impl": jsonable(impl), "model": jsonable(model)})
            c["n_disagreements"] = c.get("n_disagreements", 0) + 1
            return False
        return True

    # -- property failures on the implementation
    def fail(self, what, inp, observed=None, expected=None):
        if len(self.failures) < 50:
            self.failures.append({"what": what, "input": jsonable(inp), "observed": jsonable(observed),
                                  "expected": jsonable(expected)})
        self.extra["n_failures"] = self.extra.get("n_failures", 0) + 1

    def known(self, fid, example, summary):
        h = self.known_hits.setdefault(fid, [0, jsonable(example), summary])
        h[0] += 1


def load_known_findings(prop):
    paths = [os.path.join(VERIF, "known_findings.json")]
    d = os.path.join(VERIF, "known_findings.d")      # fragments awaiting a merge into the main file
    if os.path.isdir(d):
        paths += [os.path.join(d, f) for f in sorted(os.listdir(d)) if f.endswith(".json")]
    out = {}
    for path in paths:
        if not os.path.exists(path):
            continue
        with open(path) as f:
            data = json.load(f)
        for e in data.get("findings", []):
            if e["property"] == prop and e["status"] == "open":
                out[e["id"]] = e
    return out
