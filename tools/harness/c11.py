"""C11 -- zoned date-times keep wall time, zone id and offset; UTC properties keep the instant.

Correspondence: (i) the provider hypotheses of the theorems on the real libraries -- tzp.timezone(key z)
finds a zone with that key, tzp.localize keeps the wall clock -- and (ii) Model/TzId.v's written form
(wall, Z, TZID) against the implementation for single values, lists, periods and Component.add.
Direct oracle: Event.add -> to_ical -> from_ical for single values, RDATE lists, FREEBUSY periods,
canonicalised as (wall fields, zone key, utcoffset seconds); both providers; tzinfo objects from
zoneinfo, pytz and dateutil (dateutil: wall time only)."""
import datetime
import re

from . import common

FINGERPRINTS = ["timezone.tzid.tzids_from_tzinfo", "timezone.tzid.tzid_from_tzinfo", "timezone.tzid.tzid_from_dt",
                "prop.vDatetime.to_ical", "prop.vDatetime.from_ical", "prop.vDDDTypes.__init__",
                "prop.vDDDLists.__init__", "prop.vDDDLists.from_ical", "prop.vPeriod.__init__", "prop.vPeriod.to_ical",
                "prop.vPeriod.from_ical", "cal.Component.add", "cal.create_utc_property",
                "timezone.tzp.TZP.timezone", "timezone.tzp.TZP.localize", "timezone.tzp.TZP.localize_utc",
                "timezone.pytz.PYTZ.localize", "timezone.zoneinfo.ZONEINFO.localize"]
GEN = ["Gen_tz"]
ASSUMPTIONS = [
    "oracle hypotheses of C11_zoned_rt checked here, not proved: tzp.timezone(key) returns a zone whose id is key; "
    "tzp.localize(wall, zone) has wall clock = wall and that zone; the offset compared is the one the provider "
    "assigns to that wall time (pytz: localize(is_dst=False); zoneinfo: fold=0)",
    "the YYYYMMDDTHHMMSS text of the wall clock is the C03 codec; the harness parses it back to seconds",
]
TRUSTED = []

EPOCH = datetime.datetime(1970, 1, 1)
QUICK_ZONES = ["Europe/Berlin", "America/New_York", "Africa/Cairo", "Europe/Minsk", "Africa/Casablanca", "UTC",
               "Europe/Lisbon", "America/Indiana/Knox", "Asia/Kolkata", "Australia/Lord_Howe", "Pacific/Apia",
               "Asia/Kathmandu", "America/Sao_Paulo", "Asia/Tehran", "Europe/Dublin", "Africa/Windhoek",
               "America/St_Johns", "Asia/Tokyo", "Europe/Moscow", "Antarctica/Troll", "Pacific/Chatham",
               "America/Caracas", "Asia/Pyongyang", "Europe/London", "Etc/GMT+12", "Etc/GMT-14", "Etc/UTC",
               "America/Argentina/Buenos_Aires", "Asia/Gaza", "Africa/Monrovia", "Pacific/Kiritimati",
               "America/Anchorage", "Europe/Istanbul", "Asia/Dhaka", "Atlantic/Azores", "America/Havana",
               "Australia/Sydney", "Pacific/Auckland", "America/Santiago", "Asia/Seoul"]


SHARED_INSTANTS = [datetime.datetime(2021, 3, 2, 10, 15, 0, tzinfo=datetime.timezone.utc),
                   datetime.datetime(2021, 7, 1, 23, 30, 0, tzinfo=datetime.timezone.utc),
                   datetime.datetime(2024, 1, 10, 12, 0, 0, tzinfo=datetime.timezone.utc),
                   datetime.datetime(1999, 12, 31, 23, 59, 59, tzinfo=datetime.timezone.utc)]


def secs(dt):
    return int((dt.replace(tzinfo=None) - EPOCH).total_seconds())


def naive(s):
    return EPOCH + datetime.timedelta(seconds=s)


def canon(d):
    """(wall seconds, zone key, utcoffset seconds)"""
    from icalendar.timezone import tzid_from_dt
    if not isinstance(d, datetime.datetime):
        return ["not-a-datetime", repr(d)]
    if d.tzinfo is None:
        return [secs(d), None, None]
    return [secs(d), tzid_from_dt(d), int(d.utcoffset().total_seconds())]


def walls_for(zone, rng, n):
    """wall times 1900-2100: around transitions (gaps, folds, +-1 s) and random ones"""
    import pytz
    out = []
    try:
        tz = pytz.timezone(zone)
        tt = [t for t in getattr(tz, "_utc_transition_times", []) if t.year > 1900]
        infos = getattr(tz, "_transition_info", [])
        picks = rng.sample(range(len(tt)), min(len(tt), n // 5)) if tt else []
        for i in picks:
            u = secs(tt[i])
            a = int(infos[i - 1][0].total_seconds()) if i > 0 else int(infos[i][0].total_seconds())
            b = int(infos[i][0].total_seconds())
            out += [u + a - 1, u + a, u + b, (2 * u + a + b) // 2, u + max(a, b) + 1]
    except Exception:  # noqa: BLE001
        pass
    lo, hi = secs(datetime.datetime(1900, 1, 1)), secs(datetime.datetime(2100, 1, 1))
    while len(out) < n:
        out.append(rng.randrange(lo, hi))
    return out[:n]


def wire_tz(tzinfo):
    from icalendar.timezone import tzids_from_tzinfo
    return [list(tzids_from_tzinfo(tzinfo)), []]


def wire_dt(d):
    if d.tzinfo is None:
        return [secs(d)]
    nm = d.tzname()
    t = wire_tz(d.tzinfo)
    if not t[0] and nm:
        t[1] = [nm]
    return [secs(d), t, int(d.utcoffset().total_seconds())]


LINE = re.compile(r"^([A-Z-]+)((?:;[^:]*)?):(.*)$")


def parse_line(data, name):
    """the unfolded content line of property `name`: (TZID or None, value text)"""
    text = data.decode().replace("\r\n ", "")
    for ln in text.split("\r\n"):
        m = LINE.match(ln)
        if m and m.group(1) == name:
            tzid = None
            for p in m.group(2).split(";"):
                if p.startswith("TZID="):
                    tzid = p[5:]
            return tzid, m.group(3)
    return None, None


def wire_of_text(v, tzid):
    z = v.endswith("Z")
    w = secs(datetime.datetime.strptime(v[:15], "%Y%m%dT%H%M%S"))
    return [w, int(z), [tzid] if tzid else []]


def run(ctx, res):
    import zoneinfo
    import dateutil.tz
    import pytz
    import icalendar
    from icalendar.timezone import tzp
    rng = common.rng_for(ctx.seed, "c11")
    known = ctx.known
    M = ctx.model
    if ctx.big:
        zones = sorted(z for z in zoneinfo.available_timezones() if not z.startswith(("posix/", "right/")) and z != "localtime")
        nw = 120
    else:
        zones = QUICK_ZONES
        nw = 50 * (1 + ctx.level)
    res.rule = ("(zone id, wall time, provider, tzinfo source): quick 40 zones x 50 walls (1/5 at transitions: last second "
                "before, gap, fold, +1 s; rest uniform 1900-2100) x {zoneinfo, pytz} with tzinfo from the provider, plus "
                "tzinfo from the other library and from dateutil (wall time only); lists (same zone / mixed / with UTC) "
                "and FREEBUSY periods; DTSTAMP/CREATED/LAST-MODIFIED/ACKNOWLEDGED; non-trivial = wall time within a day "
                "of a transition or the zone is not UTC; distinct by (zone, wall, provider, source)")
    reqs, expect = [], []
    for provider in ("zoneinfo", "pytz"):
        tzp.use(provider)
        for zone in zones:
            z0 = tzp.timezone(zone)
            if z0 is None:
                res.dist("zone unknown to " + provider)
                continue
            # oracle hypothesis 1: lookup (key z) = z
            from icalendar.timezone import tzid_from_tzinfo
            res.corr(f"provider hypothesis lookup(key)=zone ({provider})", zone, tzid_from_tzinfo(z0),
                     "UTC" if zone in ("UTC", "Etc/UTC") and tzid_from_tzinfo(z0) == "UTC" else zone)
            walls = walls_for(zone, rng, nw)
            # the same instants in every zone (values that are equal as Python datetimes although their wall clocks and
            # zones differ must still be written each with its own wall clock)
            try:
                zi = zoneinfo.ZoneInfo(zone)
                shared = [secs(i.astimezone(zi).replace(tzinfo=None)) for i in SHARED_INSTANTS]
            except Exception:  # noqa: BLE001
                shared = []
            walls = shared + walls
            sources = [("provider", z0)]
            try:
                other = pytz.timezone(zone) if provider == "zoneinfo" else zoneinfo.ZoneInfo(zone)
                sources.append(("other-library", other))
            except Exception:  # noqa: BLE001  -- the two zone databases do not list exactly the same ids
                res.dist("zone id unknown to the other library")
            du = dateutil.tz.gettz(zone)
            for wi, w in enumerate(walls):
                wall = naive(w)
                loc = tzp.localize(wall, z0)
                # oracle hypothesis 2: localize keeps the wall clock and the zone
                res.corr(f"provider hypothesis localize keeps wall and zone ({provider})", [zone, w],
                         canon(loc)[:2], [w, tzid_from_tzinfo(z0)])
                want = canon(loc)
                for sname, tzo in sources if wi % 5 == 0 else sources[:1]:
                    d = tzo.localize(wall) if hasattr(tzo, "localize") else wall.replace(tzinfo=tzo)
                    res.dist(f"single {provider}/{sname}")
                    res.count((zone, w, provider, sname), nontrivial=zone not in ("UTC", "Etc/UTC"))
                    ev = icalendar.Event()
                    ev.add("DTSTART", d)
                    data = ev.to_ical()
                    tzid, val = parse_line(data, "DTSTART")
                    key = tzid_from_tzinfo(z0)
                    exp_w = [w, int(key == "UTC"), [] if key == "UTC" else [key]]
                    got_w = wire_of_text(val, tzid)
                    if got_w != exp_w:
                        res.fail("C11 written form: not (wall fields, Z iff UTC, TZID=key)", [zone, w, provider, sname],
                                 observed=got_w, expected=exp_w)
                    reqs.append(("tzid_to_ical", wire_dt(d)))
                    expect.append(("vDatetime.to_ical", [zone, w, provider, sname], got_w))
                    back = canon(icalendar.Event.from_ical(data)["DTSTART"].dt)
                    if back != want:
                        res.fail("C11 zoned_rt: parsed value is not (same wall, same zone, the provider's offset)",
                                 [zone, w, provider, sname], observed=back, expected=want)
                if du is not None and wi % 10 == 0:
                    d = wall.replace(tzinfo=du)
                    res.dist(f"single {provider}/dateutil")
                    res.count((zone, w, provider, "dateutil"), nontrivial=True)
                    ev = icalendar.Event()
                    ev.add("DTSTART", d)
                    back = canon(icalendar.Event.from_ical(ev.to_ical())["DTSTART"].dt)
                    if back[0] != w:
                        res.fail("C11 dateutil tzinfo: wall time not kept", [zone, w, provider], observed=back, expected=w)
                # UTC-forced properties
                if wi % 7 == 0:
                    d = loc
                    inst = w - int(d.utcoffset().total_seconds())
                    for name in ("DTSTAMP", "CREATED", "LAST-MODIFIED", "ACKNOWLEDGED"):
                        comp = icalendar.Alarm() if name == "ACKNOWLEDGED" else icalendar.Event()
                        comp.add(name, d)
                        tzid, val = parse_line(comp.to_ical(), name)
                        got_w = wire_of_text(val, tzid)
                        reqs.append(("tzid_add_to_ical", [name.lower(), wire_dt(d)]))
                        expect.append(("Component.add " + name, [zone, w, provider], got_w))
                        res.count((zone, w, provider, name), nontrivial=True)
                        if got_w != [inst, 1, []]:
                            fid = "C11-F3"
                            if name == "ACKNOWLEDGED" and fid in known and got_w == wire_of_text(naive(w).strftime("%Y%m%dT%H%M%S"), tzid_from_tzinfo(z0)) and tzid_from_tzinfo(z0) != "UTC":
                                res.known(fid, {"zone": zone, "wall": str(naive(w)), "written": val, "tzid": tzid}, known[fid]["summary"])
                            else:
                                res.fail(f"C11 utc_props: {name} not written as the same instant in UTC", [zone, w, provider],
                                         observed=got_w, expected=[inst, 1, []])
                    # the descriptor converts ACKNOWLEDGED
                    al = icalendar.Alarm()
                    al.ACKNOWLEDGED = d
                    tzid, val = parse_line(al.to_ical(), "ACKNOWLEDGED")
                    if wire_of_text(val, tzid) != [inst, 1, []]:
                        res.fail("C11 utc_props: Alarm.ACKNOWLEDGED descriptor does not write the instant in UTC",
                                 [zone, w, provider], observed=wire_of_text(val, tzid), expected=[inst, 1, []])
            # lists and periods
            zb = tzp.timezone("Europe/Berlin" if zone != "Europe/Berlin" else "Asia/Tokyo")
            utc = tzp.timezone("UTC")
            for li in range(4 if len(shared) >= 3 else 3):
                ws = sorted(rng.sample(walls, 3)) if li < 3 else sorted(shared[:3])
                same = [tzp.localize(naive(w), z0) for w in ws]
                mixed = [same[0], tzp.localize(naive(ws[1]), zb), same[2]]
                withutc = [same[0], tzp.localize(naive(ws[1]), utc)]
                for kind, lst in (("same-zone", same), ("mixed-zone", mixed), ("with-utc", withutc)):
                    res.dist("list " + kind)
                    res.count((zone, tuple(ws), provider, kind), nontrivial=True)
                    ev = icalendar.Event()
                    ev.add("RDATE", lst)
                    data = ev.to_ical()
                    tzid, val = parse_line(data, "RDATE")
                    got = [[tzid] if tzid else [], [wire_of_text(v, None) for v in val.split(",")]]
                    reqs.append(("tzid_list_to_ical", [wire_dt(d) for d in lst]))
                    expect.append(("vDDDLists written form", [zone, ws, provider, kind], got))
                    back = [canon(x.dt) for x in icalendar.Event.from_ical(data)["RDATE"].dts]
                    want = [canon(d) for d in lst]
                    if back != want:
                        keys = {c[1] for c in want}
                        if len(keys) > 1 and "C11-F1" in known:
                            res.known("C11-F1", {"list": want, "read back": back}, known["C11-F1"]["summary"])
                        else:
                            res.fail("C11 list_rt: list entries not read back as written", [zone, ws, provider, kind],
                                     observed=back, expected=want)
                s, e = same[0], same[2]
                for kind, per in (("zoned", (s, e)), ("utc", (tzp.localize_utc(s), tzp.localize_utc(e)))):
                    if per[0] > per[1]:
                        continue
                    res.dist("period " + kind)
                    res.count((zone, tuple(ws), provider, "period-" + kind), nontrivial=True)
                    fb = icalendar.FreeBusy()
                    fb.add("FREEBUSY", per)
                    data = fb.to_ical()
                    tzid, val = parse_line(data, "FREEBUSY")
                    a, b = val.split("/")
                    got = [[tzid] if tzid else [], wire_of_text(a, None), wire_of_text(b, None)]
                    reqs.append(("tzid_period_to_ical", [wire_dt(per[0]), wire_dt(per[1])]))
                    expect.append(("vPeriod written form", [zone, ws, provider, kind], got))
                    p = icalendar.FreeBusy.from_ical(data)["FREEBUSY"]
                    p = p[0] if isinstance(p, list) else p
                    back = [canon(p.dt[0]), canon(p.dt[1])]
                    want = [canon(per[0]), canon(per[1])]
                    if back != want:
                        res.fail("C11 period_rt: period not read back as written", [zone, ws, provider, kind],
                                 observed=back, expected=want)
                    if kind == "utc" and tzid is not None:
                        if tzid == "UTC" and "C11-F2" in known:
                            res.known("C11-F2", {"line": data.decode().split("\r\n")[1]}, known["C11-F2"]["summary"])
                        else:
                            res.fail("C11 utc_form (period): UTC period written with a TZID", [zone, ws, provider],
                                     observed=tzid, expected=None)
    tzp.use_default()
    if M:
        outs = M.batch(reqs)
        for (target, inp, got), m in zip(expect, outs):
            res.corr(target, inp, got, m)
    setter_histories(ctx, res)
    res.sample({"theorems": "see Props/C11.v", "example written form": expect[1][2] if len(expect) > 1 else None})


def setter_histories(ctx, res):
    """a zoned value replaced through a property setter by a UTC / floating / date value (and back): what is written is the
    last value's own form -- Z for UTC and no TZID, no TZID for floating, TZID = zone key for zoned (same oracle as C02's)"""
    from . import c02
    c02.setter_histories(ctx, res, common.rng_for(ctx.seed, "c11-setters"))


def replay(ctx, data):
    import icalendar
    from icalendar.timezone import tzp
    inp = data["input"]
    zone, w, provider = inp[0], inp[1], inp[2]
    tzp.use(provider)
    ws = w if isinstance(w, list) else [w]
    for x in ws:
        d = tzp.localize(naive(x), tzp.timezone(zone))
        ev = icalendar.Event()
        ev.add("DTSTART", d)
        print(ev.to_ical().decode())
        print("written:", canon(d), " read back:", canon(icalendar.Event.from_ical(ev.to_ical())["DTSTART"].dt))
