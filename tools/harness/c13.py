"""C13 -- a generated VTIMEZONE reproduces the source zone over its window.

The source zones (zoneinfo / pytz + tzdata) are ORACLES: their offset functions are tabulated by
sampling and handed to Model/TzGen.v (from_tzinfo: coarse-to-fine search with the skip list
translated from the source, grouping, DTSTART/RDATE split) as breakpoint tables.  Correspondence:
the model's sub-components = those of Timezone.from_tzid(zone, tzp, first, last).  Property oracle on
the implementation: well-formedness, and offset/abbreviation at sample instants of (a) the RFC 5545
onset-rule interpretation (Model.TzRules.rfc_offset, extracted) and (b) to_tz(tzp, lookup_tzid=False)
against the source zone.  Failures are classified by causes the faithful model exhibits."""
import datetime
import hashlib
import json
import os

from . import common

FINGERPRINTS = ["cal.Timezone.from_tzinfo", "cal.Timezone.from_tzid", "cal.Timezone.get_transitions",
                "cal.Timezone._extract_offsets", "timezone.pytz.PYTZ.create_timezone",
                "timezone.zoneinfo.ZONEINFO.create_timezone", "timezone.tzp.TZP.timezone"]
GEN = ["Gen_tz"]
ASSUMPTIONS = [
    "a source zone is a function of whole seconds, piecewise constant; its table is obtained by sampling the real "
    "tzinfo on a 1-day grid (6 h thorough) plus pytz's transition instants and bisecting every change to the second",
    "zoneinfo axis = naive wall time with fold=0 (datetime arithmetic and comparison of aware datetimes that share a "
    "tzinfo are wall-clock operations); pytz axis = instants (normalize())",
    "datetime.max (year 9999) is the horizon H: the search of a zone without further transitions walks there in "
    "64-day steps and ends with OverflowError -> break",
]
TRUSTED = ["the tabulation of zoneinfo/pytz zones (sampling + bisection) in tools/harness/c13.py"]

EPOCH = datetime.datetime(1970, 1, 1)
UTC = datetime.timezone.utc
HMAX = int((datetime.datetime.max.replace(microsecond=0) - EPOCH).total_seconds())

QUICK_ZONES = ["Europe/Berlin", "America/New_York", "Africa/Cairo", "Europe/Minsk", "Africa/Casablanca",
               "Africa/Tripoli", "Europe/Lisbon", "America/Indiana/Knox", "Asia/Kolkata", "UTC",
               "Australia/Lord_Howe", "Pacific/Apia", "Asia/Kathmandu", "America/Sao_Paulo", "Asia/Tehran",
               "Europe/Dublin", "Africa/Windhoek", "America/St_Johns", "Asia/Tokyo", "Europe/Moscow",
               "Antarctica/Troll", "Pacific/Chatham", "America/Caracas", "Asia/Pyongyang", "Europe/London",
               "Africa/Monrovia"]       # the one id whose offset inside 1970-2038 is not a whole number of minutes (-00:44:30)
SECONDS_ZONES = ["Africa/Monrovia"]


def secs(dt):
    return int((dt - EPOCH).total_seconds())


def naive(s):
    return EPOCH + datetime.timedelta(seconds=s)


# ---------------------------------------------------------------------------- tabulating a zone
def instant_fn(tz):
    def fn(x):
        d = naive(x).replace(tzinfo=UTC).astimezone(tz)
        return (int(d.utcoffset().total_seconds()), int(d.dst().total_seconds()), d.tzname())
    return fn


def wall_fn(tz):
    def fn(w):
        d = naive(w).replace(tzinfo=tz)
        return (int(d.utcoffset().total_seconds()), int(d.dst().total_seconds()), d.tzname())
    return fn


def tabulate(fn, lo, hi, step, cands):
    pts = sorted(set(range(lo, hi + 1, step)) | {c for c in cands if lo <= c <= hi} | {hi})
    vals = [fn(p) for p in pts]
    d0 = vals[0]
    tab = []

    def refine(p, vp, q, vq):
        # first x in (p, q] with fn(x) != vp; recurse when several changes hide in the interval
        a, b = p, q
        while b - a > 1:
            m = (a + b) // 2
            if fn(m) == vp:
                a = m
            else:
                b = m
        vb = fn(b)
        tab.append([b, vb[0], vb[1], vb[2]])
        if vb != vq:
            refine(b, vb, q, vq)

    for (p, vp), (q, vq) in zip(zip(pts, vals), zip(pts[1:], vals[1:])):
        if vp != vq:
            refine(p, vp, q, vq)
    return tab, list(d0)


def pytz_transition_instants(zone):
    import pytz
    try:
        tz = pytz.timezone(zone)
    except Exception:  # noqa: BLE001
        return []
    return [secs(t) for t in getattr(tz, "_utc_transition_times", []) if t.year > 1900]


# ---------------------------------------------------------------------------- implementation side
def comp_obs(comp):
    """sub-components of a generated VTIMEZONE as [std, from, to, name, dtstart, [rdates]]"""
    out = []
    for c in comp.subcomponents:
        rd = []
        if "RDATE" in c:
            r = c["RDATE"]
            for tree in (r if isinstance(r, list) else [r]):
                rd += [secs(x.dt) if isinstance(x.dt, datetime.datetime) else ["not a date-time", repr(x.dt)[:60]] for x in tree.dts]
        out.append([int(c.name == "STANDARD"), int(c.TZOFFSETFROM.total_seconds()), int(c.TZOFFSETTO.total_seconds()),
                    str(c.get("TZNAME")), secs(c.DTSTART), rd])
    return out


def wellformed(comp, first_wall, last_wall):
    if "TZID" not in comp:
        return "no TZID"
    subs = comp.subcomponents
    if first_wall < last_wall and not subs:
        return "no observance"
    for c in subs:
        if c.name not in ("STANDARD", "DAYLIGHT"):
            return "foreign sub-component " + str(c.name)
        for p in ("DTSTART", "TZOFFSETFROM", "TZOFFSETTO", "TZNAME"):
            if p not in c:
                return f"{c.name} without {p}"
    for o in comp_obs(comp):
        for w in [o[4]] + o[5]:
            if not isinstance(w, int):
                return "an onset (RDATE) that is not a date-time: " + str(w)
            if not (first_wall <= w <= last_wall):
                return f"onset {naive(w)} outside the window"
    return None


def cache_key(ctx, *parts):
    src = open(os.path.join(ctx.repo, "src", "icalendar", "cal.py"), "rb").read()
    src += open(os.path.join(ctx.repo, "src", "icalendar", "timezone", "tzp.py"), "rb").read()
    src += open(os.path.join(ctx.repo, "src", "icalendar", "timezone", "pytz.py"), "rb").read()
    src += open(os.path.join(ctx.repo, "src", "icalendar", "timezone", "zoneinfo.py"), "rb").read()
    src += open(os.path.join(ctx.repo, "src", "icalendar", "prop.py"), "rb").read()
    import pytz
    try:
        import tzdata
        tv = tzdata.IANA_VERSION
    except Exception:  # noqa: BLE001
        tv = "system"
    return hashlib.sha256(src + repr((pytz.__version__, tv) + parts).encode()).hexdigest()[:24]


def generate(ctx, zone, provider, first, last):
    """Timezone.from_tzid output (cached on disk, keyed by the source text and the tz data versions)"""
    from icalendar import Timezone
    from icalendar.timezone import tzp
    d = os.path.join(common.BUILD, "c13cache")
    os.makedirs(d, exist_ok=True)
    path = os.path.join(d, cache_key(ctx, zone, provider, str(first), str(last)) + ".ics")
    if os.path.exists(path):
        return Timezone.from_ical(open(path, "rb").read()), True
    tzp.use(provider)
    comp = Timezone.from_tzid(zone, tzp, first, last)
    with open(path, "wb") as f:
        f.write(comp.to_ical())
    return comp, False


def windows_for(ctx, zi):
    D = datetime.date
    ws = [(D(1995, 1, 1), D(2012, 1, 1))]
    if zi % 3 == 0 or ctx.big:
        ws.append((D(1970, 1, 1), D(2038, 1, 1)))
    if zi % 3 == 1 or ctx.big:
        ws.append((D(1985, 6, 15), D(1993, 2, 1)))
    if zi % 3 == 2 or ctx.big:
        ws.append((D(2009, 1, 1), D(2011, 1, 1)))
    # windows that end a few weeks after a usual transition date (closer than the search's largest stride)
    if zi % 3 == 0 or ctx.big:
        ws.append((D(2021, 1, 1), D(2021, 11, 15)))
    if zi % 3 == 1 or ctx.big:
        ws.append((D(2019, 1, 1), D(2021, 4, 20)))
    return ws


def windows_for_zone(ctx, zi, zone):
    ws = windows_for(ctx, zi)
    if zone in SECONDS_ZONES:
        ws.append((datetime.date(1970, 1, 1), datetime.date(1973, 1, 1)))
    return ws


def alias_ids(ctx, res):
    """a VTIMEZONE generated for an id carries that id, also when another spelling of the same zone (a Windows name, an id
    given to from_tzinfo by the caller) was generated just before in the same process; the observances are the zone's"""
    import datetime as _dt
    from icalendar import Timezone
    from icalendar.timezone import tzp
    a, b = _dt.date(2019, 1, 1), _dt.date(2022, 1, 1)
    def subs(t):
        return sorted(s.to_ical() for s in t.subcomponents)
    for provider in ("zoneinfo", "pytz"):
        tzp.use(provider)
        try:
            for ids in (("W. Europe Standard Time", "Europe/Berlin"), ("Eastern Standard Time", "America/New_York"),
                        ("Asia/Tokyo", "Tokyo Standard Time"), ("Europe/Paris", "Romance Standard Time", "Europe/Paris")):
                comps = []
                for i in ids:
                    res.evaluations += 1
                    t = Timezone.from_tzid(i, tzp, a, b)
                    comps.append(t)
                    if str(t.get("TZID")) != i:
                        res.fail("C13: the VTIMEZONE generated for an id does not carry that id (another spelling of the zone was "
                                 "generated before)", {"ids": list(ids), "provider": provider}, observed=str(t.get("TZID")), expected=i)
                if any(subs(t) != subs(comps[0]) for t in comps):
                    res.fail("C13: two spellings of one zone generate different observances", {"ids": list(ids), "provider": provider})
            z = tzp.timezone("Australia/Sydney")
            got = [str(Timezone.from_tzinfo(z, "custom-x", a, b).get("TZID")), str(Timezone.from_tzinfo(z, first_date=a, last_date=b).get("TZID")),
                   str(Timezone.from_tzinfo(z, "custom-y", a, b).get("TZID"))]
            res.evaluations += 1
            if got != ["custom-x", "Australia/Sydney", "custom-y"]:
                res.fail("C13: from_tzinfo(zone, tzid) does not carry the id it was given", {"provider": provider}, observed=got,
                         expected=["custom-x", "Australia/Sydney", "custom-y"])
        finally:
            tzp.use_default()


def run(ctx, res):
    alias_ids(ctx, res)
    _run_zones(ctx, res)


def _run_zones(ctx, res):
    import zoneinfo
    from icalendar.timezone import tzp
    rng = common.rng_for(ctx.seed, "c13")
    if ctx.big:
        zones = sorted(z for z in zoneinfo.available_timezones() if not z.startswith(("posix/", "right/")) and z != "localtime")
    else:
        zones = list(QUICK_ZONES)
        if ctx.level:
            extra = sorted(zoneinfo.available_timezones())
            zones += rng.sample(extra, 25)
    res.rule = ("(zone id, provider, window): quick = 25 named zones x {zoneinfo, pytz} x 2 windows out of "
                "{1995-2012, 1970-2038, 1985-06-15..1993-02-01, 2009-2011, 2021-01-01..2021-11-15, 2019-01-01..2021-04-20}; thorough = all zone ids x all 6 windows; "
                "instants = every transition of the source zone in the window -1 s/0/+1 s, interval midpoints, a "
                "grid (thorough: 6 h for windows <= 3 y, 1 d <= 10 y, else 5 d; quick: 10 d); non-trivial = the source zone has a transition inside the window")
    known = ctx.known
    M = ctx.model
    step = 21600 if ctx.big else 86400
    t_hi = secs(datetime.datetime(2041, 1, 1))
    tally = {}
    idem_jobs = []
    CH = 16
    for c0 in range(0, len(zones), CH):
        jobs = []
        for zi, zone in list(enumerate(zones))[c0:c0 + CH]:
            cands = pytz_transition_instants(zone)
            for provider in ("zoneinfo", "pytz"):
                tzp.use(provider)
                tz = tzp.timezone(zone)
                if tz is None:
                    res.dist("zone unknown to " + provider)
                    continue
                # the truth on the instant axis (both providers), and the search axis of the provider
                t_lo = secs(datetime.datetime(1969, 12, 1))
                itab, idflt = tabulate(instant_fn(tz), t_lo, t_hi, step, cands + [c + 1 for c in cands])
                if provider == "pytz":
                    atab, adflt = itab, idflt
                else:
                    wc = []
                    for b, o, _d, _n in itab:
                        wc += [b + o, b + o - 3600, b + o + 3600, b + o - 1800, b + o + 1800, b + o - 7200, b + o + 7200]
                    atab, adflt = tabulate(wall_fn(tz), t_lo, t_hi, step, wc)
                for first, last in windows_for_zone(ctx, zi, zone):
                    jobs.append(dict(zone=zone, provider=provider, first=first, last=last, tz=tz, itab=itab, idflt=idflt,
                                     atab=atab, adflt=adflt))
        tzp.use_default()
        # ------------------------------------------------------------------ generate + model
        reqs = []
        for j in jobs:
            first_wall = secs(datetime.datetime(j["first"].year, j["first"].month, j["first"].day))
            last_wall = secs(datetime.datetime(j["last"].year, j["last"].month, j["last"].day))
            j["first_wall"], j["last_wall"] = first_wall, last_wall
            if j["provider"] == "pytz":
                fa = secs(j["tz"].localize(naive(first_wall)).astimezone(UTC).replace(tzinfo=None))
                la = secs(j["tz"].localize(naive(last_wall)).astimezone(UTC).replace(tzinfo=None))
            else:
                fa, la = first_wall, last_wall
            j["first_axis"], j["last_axis"] = fa, la
            comp, cached = generate(ctx, j["zone"], j["provider"], j["first"], j["last"])
            j["comp"] = comp
            j["obs"] = comp_obs(comp)
            res.dist("generated (%s)" % ("cache" if cached else "fresh"))
            reqs.append(("tz_from_tzinfo", [j["atab"], j["adflt"], int(j["provider"] == "pytz"), HMAX, 4000, fa, la, last_wall]))
        outs = M.batch(reqs) if M else [None] * len(jobs)
        # ------------------------------------------------------------------ oracles
        reqs2 = []
        for j, m in zip(jobs, outs):
            inp = {"zone": j["zone"], "provider": j["provider"], "window": [str(j["first"]), str(j["last"])]}
            j["inp"] = inp
            j["agree"] = m is None or m == j["obs"]     # the generated component is the one the faithful model predicts
            if m is not None:
                res.corr("from_tzinfo (%s)" % j["provider"], inp, j["obs"], m)
            why = wellformed(j["comp"], j["first_wall"], j["last_wall"])
            if why:
                res.fail("C13 well-formedness: " + why, inp, observed=j["comp"].to_ical().decode()[:600])
            # instants of the window on the instant axis
            fi = first_instant(j)
            li = last_instant(j)
            j["fi"], j["li"] = fi, li
            inside = [r for r in j["itab"] if fi < r[0] < li]
            ts = set()
            for r in inside:
                ts |= {r[0] - 1, r[0], r[0] + 1}
            bps = [fi] + [r[0] for r in inside] + [li]
            for a, b in zip(bps, bps[1:]):
                ts.add((a + b) // 2)
            days = (j["last"] - j["first"]).days
            g = (21600 if days <= 1100 else 86400 if days <= 3700 else 432000) if ctx.big else 864000
            ts |= set(range(fi, li, g))
            ts = sorted(t for t in ts if fi <= t < li)
            j["ts"] = ts
            j["inside"] = inside
            res.count((j["zone"], j["provider"], str(j["first"]), str(j["last"])), nontrivial=bool(inside))
            vt = [[int(not o[0]), sorted(set([o[4]] + o[5])), o[1], o[2], [o[3]], "x"] for o in j["obs"]]
            j["vtz"] = vt
            reqs2.append(("tz_rfc_offset", [vt, ts]))
            reqs2.append(("tz_guard", vt))
        outs2 = M.batch(reqs2) if M else None
        for ji, j in enumerate(jobs):
            if outs2 is None:
                break
            rfc = outs2[2 * ji]
            guard = outs2[2 * ji + 1]
            classify(ctx, res, j, rfc, guard, known, tally)

        idem_jobs += [dict(j, ts=None, itab=None, atab=None) for j in jobs if (j["last"] - j["first"]).days <= 800]
    res.extra["failure_classes"] = {k: v for k, v in sorted(tally.items())}
    res.notes.append("failing (zone, provider, window, cause) classes: " + json.dumps(res.extra["failure_classes"]))
    idempotence(ctx, res, idem_jobs, known)


def true_at(j, t):
    d = j["idflt"]
    for r in j["itab"]:
        if r[0] <= t:
            d = r[1:]
        else:
            break
    return d


def first_instant(j):
    """the instant of the window's first wall-clock midnight"""
    tz = j["tz"]
    w = naive(j["first_wall"])
    if hasattr(tz, "localize"):
        return secs(tz.localize(w).astimezone(UTC).replace(tzinfo=None))
    return secs(w.replace(tzinfo=tz).astimezone(UTC).replace(tzinfo=None))


def last_instant(j):
    tz = j["tz"]
    w = naive(j["last_wall"])
    if hasattr(tz, "localize"):
        return secs(tz.localize(w).astimezone(UTC).replace(tzinfo=None))
    return secs(w.replace(tzinfo=tz).astimezone(UTC).replace(tzinfo=None))


def prev_val(j, idx_bp):
    """value of the source zone just before breakpoint row r"""
    return true_at(j, idx_bp - 1)


def classify(ctx, res, j, rfc, guard, known, tally):
    """compare the RFC interpretation of the generated component and to_tz() with the source zone"""
    from icalendar.timezone import tzp
    zone, provider = j["zone"], j["provider"]
    offchg = []      # (u, a, b) offset transitions of the source in the window
    namechg = []     # instants where only name/dst change
    for r in j["inside"]:
        before = prev_val(j, r[0])
        if before[0] != r[1]:
            offchg.append((r[0], before[0], r[1]))
        else:
            namechg.append(r[0])
    bps = [j["fi"]] + [u for u, _, _ in offchg] + [j["li"]]
    short = set()
    for k in range(1, len(bps) - 1):
        if bps[k + 1] - bps[k] < 64 * 86400 or bps[k] - bps[k - 1] < 64 * 86400:
            short.add(bps[k])
    # (b) the converted zone
    tzp.use(provider)
    conv = None
    conv_err = None
    try:
        conv = j["comp"].to_tz(tzp, lookup_tzid=False)
    except Exception as e:  # noqa: BLE001
        conv_err = common.exc_class(e)
    tzp.use_default()
    whole, order, names, has_std, first = guard
    for k, t in enumerate(j["ts"]):
        truth = true_at(j, t)
        want = [truth[0], truth[2]]
        for interp in ("rfc", "to_tz"):
            if interp == "rfc":
                g = rfc[k]
                got = ["none"] if g == ["none"] else [g[0], g[1][0] if g[1] else None]
            else:
                if conv is None:
                    got = ["err", conv_err]
                else:
                    try:
                        d = naive(t).replace(tzinfo=UTC).astimezone(conv)
                        got = [int(d.utcoffset().total_seconds()), d.tzname()]
                    except Exception as e:  # noqa: BLE001
                        got = ["err", common.exc_class(e)]
            if got == want:
                continue
            cause = None
            if got[0] == want[0] and got[:1] != ["err"]:
                if namechg or any(true_at(j, u - 1)[2] != true_at(j, u)[2] for u, _, _ in offchg):
                    cause = "C13-F3"       # abbreviation / dst flag changed at constant offset
            if cause is None and any(min(u, u + b - a) - 1 <= t <= max(u, u + b - a) + 1 for u, a, b in offchg):
                cause = "C13-F1"           # onset written in the wrong wall clock: shifted by the offset change
            if cause is None and any(abs(t - u) <= 64 * 86400 + 86400 for u in short):
                cause = "C13-F2"           # interval shorter than the largest skip
            if cause is None and got == ["none"] and t < j["fi"] + 86400:
                cause = "C13-F1"
            if cause is None and interp == "to_tz" and provider == "zoneinfo":
                mo = max([abs(o[1]) for o in j["obs"]] + [abs(o[2]) for o in j["obs"]] + [3600])
                on = [w - o[1] for o in j["obs"] for w in [o[4]] + o[5]]
                if any(abs(t - u) <= 2 * mo + 1 for u in on) or got[:1] == ["err"] or not order:
                    cause = "C13-F4"       # dateutil's interpretation (no model)
            if cause is None and interp == "to_tz" and provider == "pytz" and not (order and names and has_std):
                cause = "C13-F2"
            key = f"{cause}|{interp}|{provider}"
            tally[key] = tally.get(key, 0) + 1
            ex = {"zone": zone, "provider": provider, "window": j["inp"]["window"], "instant": str(naive(t)) + "Z",
                  "interpretation": interp, "got": got, "source zone": want}
            if cause and cause in known and j.get("agree", True):
                res.known(cause, ex, known[cause]["summary"])
            elif not j.get("agree", True):
                res.fail("C13: generated VTIMEZONE differs from the source zone, and the component is not the one the faithful "
                         "model of the generator predicts (so the recorded findings do not explain it)",
                         {**j["inp"], "instant": t, "interpretation": interp}, observed=got, expected=want)
            else:
                res.fail("C13: generated VTIMEZONE differs from the source zone (cause not among the recorded classes)",
                         {**j["inp"], "instant": t, "interpretation": interp}, observed=got, expected=want)


def idempotence(ctx, res, jobs, known):
    """from_tzinfo(converted zone) == component, on the short windows only (dateutil zones are slow)"""
    from icalendar import Timezone
    from icalendar.timezone import tzp
    n = 0
    for j in jobs:
        if (j["last"] - j["first"]).days > 800:
            continue
        if n >= (160 if ctx.big else 12):
            break
        n += 1
        tzp.use(j["provider"])
        try:
            conv = j["comp"].to_tz(tzp, lookup_tzid=False)
            again = Timezone.from_tzinfo(conv, j["zone"], j["first"], j["last"])
            same = comp_obs(again) == j["obs"]
            got = comp_obs(again)
        except Exception as e:  # noqa: BLE001
            same, got = False, ["err", common.exc_class(e)]
        res.evaluations += 1
        if same:
            continue
        if j["inside"] and "C13-F5" in known:
            res.known("C13-F5", {**j["inp"], "first": j["obs"][:3], "again": got[:3]}, known["C13-F5"]["summary"])
        else:
            res.fail("C13 idempotence: regenerating from the converted zone gives a different component", j["inp"],
                     observed=got, expected=j["obs"])
    tzp.use_default()


def replay(ctx, data):
    from icalendar import Timezone
    from icalendar.timezone import tzp
    inp = data["input"]
    first = datetime.date.fromisoformat(inp["window"][0])
    last = datetime.date.fromisoformat(inp["window"][1])
    tzp.use(inp["provider"])
    comp = Timezone.from_tzid(inp["zone"], tzp, first, last)
    print(comp.to_ical().decode())
    if "instant" in inp:
        t = inp["instant"]
        src = naive(t).replace(tzinfo=UTC).astimezone(tzp.timezone(inp["zone"]))
        print("source zone at", naive(t), "Z:", src.utcoffset(), src.tzname())
        conv = comp.to_tz(tzp, lookup_tzid=False)
        d = naive(t).replace(tzinfo=UTC).astimezone(conv)
        print("converted     :", d.utcoffset(), d.tzname())
        if ctx.model:
            vt = [[int(not o[0]), sorted(set([o[4]] + o[5])), o[1], o[2], [o[3]], "x"] for o in comp_obs(comp)]
            print("RFC rule      :", ctx.model.call("tz_rfc_offset", [vt, [t]]))
