"""C14 -- alarm times = anchor + TRIGGER + k * DURATION.
Correspondence of Model/Alarm.v (over Model/StartEnd.v) with alarms.Alarms / cal.Alarm on generated
events and todos x alarm lists, built through the API and parsed from text, under zoneinfo and
pytz; the direct property oracle on the implementation; known-finding classification."""
import itertools

from . import common
from . import sched_common as S

FINGERPRINTS = S.FINGERPRINTS_ALARM + S.FINGERPRINTS_C16
GEN = ["Gen_sched"]
ASSUMPTIONS = [
    "times are whole seconds between 2019-06 and 2022-06",
    "VALARMs are direct children of the VEVENT/VTODO; REPEAT, DURATION and ACKNOWLEDGED of an alarm are absent or one "
    "well-typed value (TRIGGER may also be repeated or a DATE: reported by InvalidCalendar)",
    "the zone oracle handed to the model is probed from zoneinfo / pytz",
]
TRUSTED = ["Python datetime arithmetic and pytz normalize() as modelled in Model/StartEnd.v (tadd, normalize)"]

STARTS = [None, ("d", 2020, 3, 28), ("n", 2020, 3, 28, 12, 0, 0), ("u", 2020, 3, 28, 12, 0, 0),
          ("z", "Europe/Berlin", 2020, 3, 28, 12, 0, 0), ("z", "America/New_York", 2020, 10, 31, 23, 30, 0),
          ("z", "Australia/Lord_Howe", 2020, 4, 4, 12, 0, 0), ("z", "Europe/Berlin", 2020, 10, 24, 2, 30, 0)]
REL_TRIGGERS = [-900, 3600, -86400, 2 * 86400, 0, -36 * 3600, 7200, 86400, -1]
ABS_TRIGGERS = [("u", 2020, 3, 29, 0, 30, 0), ("n", 2020, 3, 28, 9, 0, 0), ("z", "Europe/Berlin", 2020, 3, 28, 23, 0, 0)]
RELATED = [None, None, "START", "END", "start", "end", "End", "x"]
REPEATS = [None, None, 0, 1, 2, 5, -1]
DURATIONS = [None, 0, 300, 86400, 43200, 3600, -900]      # a signed DURATION is accepted by the parser: repetitions then run backwards


def end_variants(start):
    """(end description, duration seconds) pairs fitting the start (plus RFC-forbidden ones)"""
    out = [(None, None), (None, 86400), (None, 3600), (None, 36 * 3600), (None, 2 * 86400), (None, 0), (None, 1)]   # incl. zero length
    if start is None:
        out += [(("d", 2020, 3, 30), None), (("n", 2020, 3, 29, 12, 0, 0), None)]
    elif start[0] == "d":
        out += [(("d", 2020, 3, 30), None), (("n", 2020, 3, 29, 12, 0, 0), None), (("d", 2020, 3, 30), 86400)]
    elif start[0] == "z":
        out += [(("z", start[1], 2020, 11, 1, 12, 0, 0), None), (("u", 2020, 11, 1, 12, 0, 0), None),
                (("d", 2020, 11, 2), None)]
    else:
        out += [((start[0], 2020, 3, 29, 13, 0, 0), None), (("d", 2020, 3, 30), None)]
    return out


def gen_alarm(rng):
    kind = rng.choice(["rel", "rel", "rel", "rel", "abs", "abs", "none", "many", "date"])
    a = {"trigger": None, "related": None, "repeat": rng.choice(REPEATS), "duration": rng.choice(DURATIONS)}
    if kind == "rel":
        a["trigger"] = ("td", rng.choice(REL_TRIGGERS))
        a["related"] = rng.choice(RELATED)
    elif kind == "abs":
        a["trigger"] = rng.choice(ABS_TRIGGERS)
        a["related"] = rng.choice([None, None, "END"])
    elif kind == "many":
        a["trigger"] = "many"
    elif kind == "date":
        a["trigger"] = ("d", 2020, 3, 27)
    if rng.random() < 0.15:      # the repeating pairs the property is about, more often
        a["repeat"], a["duration"] = rng.choice([(2, 300), (3, 86400), (1, 43200), (2, 0)])
    return a


def gen_cases(ctx):
    rng = common.rng_for(ctx.seed, "c14")
    corpus = [
        # finding witnesses first
        (0, ("n", 2020, 3, 28, 10, 0, 0), ("n", 2020, 3, 28, 12, 0, 0), None,
         [{"trigger": ("td", -3600), "related": "start", "repeat": None, "duration": None}]),
        (0, ("n", 2020, 3, 28, 10, 0, 0), None, None,
         [{"trigger": ("td", -3600), "related": None, "repeat": 2, "duration": 0}]),
        (0, None, None, None,
         [{"trigger": ("u", 2020, 3, 28, 10, 0, 0), "related": None, "repeat": None, "duration": None}]),
        (1, None, ("n", 2020, 3, 28, 12, 0, 0), None,
         [{"trigger": ("td", -300), "related": "END", "repeat": None, "duration": None}]),
        # RFC 5545 3.6.6 examples: absolute with repeats, relative with repeats
        (0, ("u", 2020, 3, 28, 12, 0, 0), None, 3600,
         [{"trigger": ("u", 2020, 3, 28, 8, 30, 0), "related": None, "repeat": 4, "duration": 900},
          {"trigger": ("td", -1800), "related": None, "repeat": 2, "duration": 900}]),
        (0, ("z", "Europe/Berlin", 2020, 3, 28, 12, 0, 0), None, 86400,
         [{"trigger": ("td", 0), "related": "END", "repeat": 1, "duration": 86400},
          {"trigger": ("td", 86400), "related": None, "repeat": None, "duration": None}]),
    ]
    out = [("corpus", c) for c in corpus]
    # systematic: every start x end variant x one alarm of every trigger/related kind
    one_alarm = []
    for tr in REL_TRIGGERS[:5]:
        for rel in (None, "START", "END", "start"):
            one_alarm.append({"trigger": ("td", tr), "related": rel, "repeat": 2, "duration": 43200})
    for tr in ABS_TRIGGERS:
        one_alarm.append({"trigger": tr, "related": None, "repeat": 1, "duration": 3600})
    one_alarm.append({"trigger": None, "related": None, "repeat": 3, "duration": 60})
    for kind in (0, 1):
        for st in STARTS:
            for en, du in end_variants(st):
                for a in (one_alarm if (ctx.big or kind == 0) else one_alarm[::3]):
                    out.append(("systematic", (kind, st, en, du, [a])))
    n = 30000 if ctx.big else 2500 * (1 + 2 * ctx.level)
    for _ in range(n):
        st = rng.choice(STARTS)
        en, du = rng.choice(end_variants(st))
        als = relate_alarms(rng, [gen_alarm(rng) for _ in range(rng.choice([0, 1, 1, 2, 2, 3, 4]))])
        out.append(("random", (rng.randrange(2), st, en, du, als)))
    return out


# ---------------------------------------------------------------------------- building
def build_api(case, provider, variant):
    import icalendar
    kind, st, en, du, als = case
    comp = icalendar.Event() if kind == 0 else icalendar.Todo()
    endname = "DTEND" if kind == 0 else "DUE"
    if st is not None:
        if variant == 1:
            comp.add("DTSTART", S.mk_dt(st, provider))
        else:
            comp.start = S.mk_dt(st, provider)
    if en is not None:
        comp.add(endname, S.mk_dt(en, provider))
    if du is not None:
        comp.add("DURATION", S.mk_dt(("td", du), provider))
    late = []        # variant 2: settings made after the alarm was attached and its times were read once
    for a in als:
        al = icalendar.Alarm()
        tr = a["trigger"]
        if tr == "many":
            al.add("TRIGGER", S.mk_dt(("td", -60), provider))
            al.add("TRIGGER", S.mk_dt(("td", -120), provider))
        elif tr is not None:
            if a["related"] is not None and variant == 1:
                al.add("TRIGGER", S.mk_dt(tr, provider), parameters={"RELATED": a["related"]})
            elif tr[0] == "d":
                al.add("TRIGGER", S.mk_dt(tr, provider))
            else:
                al.TRIGGER = S.mk_dt(tr, provider)
                if a["related"] is not None:
                    if variant == 2:
                        late.append((al, "TRIGGER_RELATED", a["related"]))
                    else:
                        al.TRIGGER_RELATED = a["related"]
        if a["repeat"] is not None:
            if variant == 1:
                al.add("REPEAT", a["repeat"])
            elif variant == 2:
                late.append((al, "REPEAT", a["repeat"]))
            else:
                al.REPEAT = a["repeat"]
        if a["duration"] is not None:
            if variant == 1:
                al.add("DURATION", S.mk_dt(("td", a["duration"]), provider))
            elif variant == 2:
                late.append((al, "DURATION", S.mk_dt(("td", a["duration"]), provider)))
            else:
                al.DURATION = S.mk_dt(("td", a["duration"]), provider)
        for ln in a.get("extra", []):
            nm, val = ln.split(":", 1)
            nm, *ps = nm.split(";")
            al.add(nm, val, parameters=dict(x.split("=", 1) for x in ps) or None)
        comp.add_component(al)
    if variant == 2:
        from icalendar import Alarms
        for read in (lambda: [x.triggers for x in comp.subcomponents], lambda: Alarms(comp).times, lambda: comp.alarms.times):
            try:
                read()
            except Exception:  # noqa: BLE001
                pass
        for al, attr, val in late:
            setattr(al, attr, val)
            try:
                al.triggers
            except Exception:  # noqa: BLE001
                pass
    return comp


def text_of(case):
    kind, st, en, du, als = case
    cname = "VEVENT" if kind == 0 else "VTODO"
    endname = "DTEND" if kind == 0 else "DUE"
    lines = [f"BEGIN:{cname}", "UID:c14@example.com"]
    if st is not None:
        p, v = S.ical_dt(st)
        if p == ";VALUE=DATE":
            # the same DATE start in the spellings the parser accepts (the text decides what the value is)
            p = [";VALUE=DATE", "", ";VALUE=date", ";X-FOO=BAR"][len(v + str(du) + str(en) + str(len(als))) % 4]
        lines.append(f"DTSTART{p}:{v}")
    if en is not None:
        p, v = S.ical_dt(en)
        lines.append(f"{endname}{p}:{v}")
    if du is not None:
        lines.append("DURATION:" + S.ical_td(du))
    for a in als:
        lines.append("BEGIN:VALARM")
        lines.append("ACTION:DISPLAY")
        tr = a["trigger"]
        rel = f";RELATED={a['related']}" if a["related"] is not None else ""
        if tr == "many":
            lines += ["TRIGGER:-PT1M", "TRIGGER:-PT2M"]
        elif tr is not None and tr[0] == "td":
            lines.append(f"TRIGGER{rel}:" + S.ical_td(tr[1]))
        elif tr is not None and tr[0] == "d":
            lines.append("TRIGGER;VALUE=DATE:%04d%02d%02d" % tuple(tr[1:]))
        elif tr is not None:
            p, v = S.ical_dt(tr)
            lines.append(f"TRIGGER;VALUE=DATE-TIME{rel}:{v}")
        if a["repeat"] is not None:
            lines.append(f"REPEAT:{a['repeat']}")
        if a["duration"] is not None:
            lines.append("DURATION:" + S.ical_td(a["duration"]))
        lines += a.get("extra", [])
        lines.append("END:VALARM")
    lines.append(f"END:{cname}")
    return "\r\n".join(lines) + "\r\n"


def relate_alarms(rng, als):
    """RFC 9074 bookkeeping properties on sibling alarms (UID, RELATED-TO;RELTYPE=SNOOZE / other relation types, PROXIMITY):
    none of them takes part in the computation of alarm times.  Before that, sometimes one alarm is repeated with exactly
    the same content (two equal reminders are two alarms)."""
    import copy
    if als and rng.random() < 0.25:
        als.insert(rng.randrange(len(als) + 1), copy.deepcopy(rng.choice(als)))
    if rng.random() < 0.45:
        for i, a in enumerate(als):
            a.setdefault("extra", [])
            if rng.random() < 0.7:
                a["extra"].append("UID:alarm-%d" % i)
        for i, a in enumerate(als):
            if i and rng.random() < 0.6:
                a["extra"].append("RELATED-TO;RELTYPE=%s:alarm-%d" % (rng.choice(["SNOOZE", "SNOOZE", "SIBLING", "PARENT"]), rng.randrange(i)))
            if rng.random() < 0.2:
                a["extra"].append("PROXIMITY:ARRIVE")
    return als


def parseable(case):
    """the text path cannot carry a zoned absolute TRIGGER (the parser ignores TZID on TRIGGER: DESIGN 7 row 9)"""
    return not any(a["trigger"] not in (None, "many") and a["trigger"][0] == "z" for a in case[4])


def w_parent(case, provider):
    kind, st, en, du, als = case
    ent = lambda d: ["absent"] if d is None else ["one", S.w_pyval(S.mk_dt(d, provider))]     # noqa: E731
    return [kind, [ent(st), ent(en), ent(None if du is None else ("td", du))], S.NONE, 0, S.NONE, S.NONE]


def w_alarm(a, provider):
    tr = a["trigger"]
    if tr is None:
        e = ["absent"]
    elif tr == "many":
        e = ["many"]
    else:
        e = ["one", S.w_pyval(S.mk_dt(tr, provider))]
    return [e, S.NONE if a["related"] is None else a["related"], S.w_opt(a["repeat"]), S.w_opt(a["duration"]), S.NONE]


def observe_times(comp):
    """Alarms(comp).times; for components that have the .alarms property the same through it (they must agree)"""
    from icalendar import Alarms
    o = S.observe(lambda: [S.c_time(x.trigger) for x in Alarms(comp).times], lambda v: v)
    if hasattr(type(comp), "alarms"):
        o2 = S.observe(lambda: [S.c_time(x.trigger) for x in comp.alarms.times], lambda v: v)
        if o2 != o:
            return ["err", "component.alarms differs from Alarms(component): %r" % (o2,)]
    return o


def observe_triggers(al):
    def conv(t):
        return [[S.td_s(x) for x in t.start], [S.td_s(x) for x in t.end], [S.c_time(x) for x in t.absolute]]
    return S.observe(lambda: al.triggers, conv)


# ---------------------------------------------------------------------------- the property, directly in Python
def py_add(dt, td):
    from datetime import date, datetime
    if isinstance(dt, date) and not isinstance(dt, datetime):
        if td.seconds == 0 and td.microseconds == 0:
            return dt + td
        dt = datetime(dt.year, dt.month, dt.day)
    r = dt + td
    if r.tzinfo is not None and hasattr(r.tzinfo, "normalize"):
        r = r.tzinfo.normalize(r)
    return r


def py_spec(comp, case, provider):
    """expected times per the property statement, or ("err", reason)"""
    from datetime import timedelta
    kind, st, en, du, als = case
    groups = {"END": [], "START": [], "ABS": []}
    for a in als:
        tr = a["trigger"]
        if tr is None:
            continue
        if tr == "many" or tr[0] == "d":
            return ("err", "invalid")
        if tr[0] == "td":
            groups["END" if (a["related"] or "").upper() == "END" else "START"].append(a)
        else:
            groups["ABS"].append(a)
    out = []
    for g in ("END", "START", "ABS"):
        for a in groups[g]:
            if g == "ABS":
                first = S.mk_dt(a["trigger"], provider)
            else:
                try:
                    anchor = comp.end if g == "END" else comp.start
                except ValueError:
                    return ("err", "anchor")
                first = py_add(anchor, timedelta(seconds=a["trigger"][1]))
            out.append(first)
            if a["repeat"] is not None and a["duration"] is not None:
                for k in range(1, a["repeat"] + 1):
                    out.append(py_add(first, timedelta(seconds=a["duration"] * k)))
    return [S.c_time(x) for x in out]


def finding_class(case):
    """which open finding classes the input lies in (the same predicates as the Coq guards)"""
    kind, st, en, du, als = case
    cls = set()
    for a in als:
        r = a["related"]
        if r is not None and not (r == "START" or r.upper() == "END"):
            cls.add("C14-F1")
        if a["repeat"] is not None and a["duration"] is not None and a["repeat"] > 0 and a["duration"] == 0:
            cls.add("C14-F2")
    return cls


DOC = ("InvalidCalendar", "IncompleteComponent", "ComponentStartMissing", "ComponentEndMissing")


def run_provider(ctx, res, cases, provider):
    import icalendar
    S.use_provider(provider)
    M = ctx.model
    rows, reqs = [], []
    for label, case in cases:
        kind, st, en, du, als = case
        res.dist(f"{provider}:{label}")
        nontriv = any(a["trigger"] not in (None, "many") for a in als) and st is not None
        res.count((provider, case), nontrivial=nontriv)
        builds = [("api", build_api(case, provider, 0)), ("api-add", build_api(case, provider, 1)),
                  ("api-late", build_api(case, provider, 2))]
        if parseable(case):
            cls = icalendar.Event if kind == 0 else icalendar.Todo
            builds.append(("parsed", cls.from_ical(text_of(case))))
        obs = [(how, observe_times(c)) for how, c in builds]
        trig = [observe_triggers(al) for al in builds[0][1].subcomponents]
        o0 = obs[0][1]
        res.dist("outcome:" + (o0[1] if o0[:1] == ["err"] else ("no-times" if not o0 else "times")))
        spec = py_spec(builds[0][1], case, provider)
        wp, wa = w_parent(case, provider), [w_alarm(a, provider) for a in als]
        rows.append((label, case, obs, trig, spec))
        reqs.append(("c14_times", [wp, wa, S.oracle_for(S.zids_in([wp, wa]), provider)]))
    outs = M.batch(reqs) if M else [None] * len(reqs)
    known = ctx.known
    for (label, case, obs, trig, spec), m in zip(rows, outs):
        inp = {"provider": provider, "case": common.jsonable(case)}
        m_times = m_spec = None
        guards_ok = None
        if m is not None and m[:1] != ["unsupported"]:
            m_times, m_spec, g_alarms, g_eager, m_trig = m
            for how, o in obs:
                res.corr(f"c14_times({how})", inp, o, m_times)
            res.corr("c14_alarm_triggers", inp, trig, m_trig)
            py_guard = int(not (finding_class(case) & {"C14-F1", "C14-F2"}))
            res.corr("c14_guard_alarms_ok", inp, py_guard, g_alarms)
            # the Python transcription of the property and the Coq one must agree (both are "the spec")
            spec_cmp = spec if isinstance(spec, list) else "error"
            mspec_cmp = m_spec if not (m_spec[:1] == ["err"]) else "error"
            res.corr("c14_spec_times", inp, spec_cmp, mspec_cmp)
            guards_ok = bool(g_alarms) and bool(g_eager)
        elif m is not None:
            res.corr("c14_times(api)", inp, obs[0][1], m)
        # the property on the implementation
        for how, o in obs:
            if isinstance(spec, list):
                good = (o == spec)
            else:
                good = o[:1] == ["err"] and o[1] in DOC
            if good:
                continue
            cls = finding_class(case)
            fid = None
            if isinstance(spec, list) and o[:1] == ["err"] and o[1] in ("IncompleteComponent", "InvalidCalendar"):
                fid = "C14-F3"          # the times are computable, the component's start/end is not
            elif "C14-F1" in cls:
                fid = "C14-F1"
            elif "C14-F2" in cls:
                fid = "C14-F2"
            agrees = m_times is None or o == m_times
            inside = guards_ok is True
            if fid and fid in known and agrees and not inside:
                res.known(fid, {"case": inp, "built": how, "times": o, "property says": spec}, known[fid]["summary"])
            else:
                res.fail(f"C14 ({how}): alarm times differ from anchor + TRIGGER + k*DURATION"
                         + (" (inside the theorem's guards)" if inside else ""), inp, observed=o, expected=spec)
    return rows


def run_manual(ctx, res, provider):
    """Alarms() used by hand: optional set_start / set_end, add_alarm"""
    import icalendar
    from icalendar import Alarms
    S.use_provider(provider)
    rng = common.rng_for(ctx.seed, "c14-manual")
    rows, reqs = [], []
    for _ in range(600 if ctx.big else 150):
        st = rng.choice(STARTS)
        en = rng.choice([None, ("n", 2020, 3, 29, 12, 0, 0), ("d", 2020, 3, 30), ("u", 2020, 3, 29, 12, 0, 0)])
        als = [gen_alarm(rng) for _ in range(rng.choice([0, 1, 2, 3]))]
        case = (0, None, None, None, als)
        holder = build_api(case, provider, 0)

        def go():
            x = Alarms()
            if st is not None:
                x.set_start(S.mk_dt(st, provider))
            if en is not None:
                x.set_end(S.mk_dt(en, provider))
            for al in holder.subcomponents:
                x.add_alarm(al)
            return [S.c_time(t.trigger) for t in x.times]
        o = S.observe(go, lambda v: v)

        def go_history():
            """the same final settings reached through reads and changed settings on ONE object"""
            x = Alarms()
            other = rng.choice([d for d in STARTS if d is not None])
            x.set_start(S.mk_dt(other, provider))
            S.observe(lambda: [t.trigger for t in x.times], lambda v: 0)
            for al in holder.subcomponents:
                x.add_alarm(al)
                S.observe(lambda: [t.trigger for t in x.times], lambda v: 0)
            if en is not None:
                x.set_end(S.mk_dt(en, provider))
                S.observe(lambda: [t.trigger for t in x.times], lambda v: 0)
            if st is not None:
                x.set_start(S.mk_dt(st, provider))
            return [S.c_time(t.trigger) for t in x.times]
        if st is not None:
            oh = S.observe(go_history, lambda v: v)
            if oh != o:
                res.fail("C14 manual: an Alarms object driven through reads and changed settings answers differently from a fresh "
                         "one with the same final settings", {"provider": provider, "start": st, "end": en, "alarms": common.jsonable(als)},
                         observed=oh, expected=o)
        wt = lambda d: S.NONE if d is None else S.w_time(S.mk_dt(d, provider))    # noqa: E731
        wa = [w_alarm(a, provider) for a in als]
        arg = [wt(st), wt(en), wa]
        rows.append(({"provider": provider, "start": st, "end": en, "alarms": common.jsonable(als)}, o))
        reqs.append(("c14_manual", arg + [S.oracle_for(S.zids_in(arg), provider)]))
        res.count(("manual", provider, st, en, str(als)), nontrivial=bool(als))
        res.dist(f"{provider}:manual")
        if o[:1] == ["err"] and o[1] not in DOC:
            res.fail("C14 manual: undocumented error from Alarms().times", rows[-1][0], observed=o)
    if ctx.model:
        for (inp, o), m in zip(rows, ctx.model.batch(reqs)):
            res.corr("c14_manual(Alarms-by-hand)", inp, o, m)


def run(ctx, res):
    res.rule = ("events and todos (start absent/date/naive/UTC/zoned in Berlin, New York, Lord Howe incl. DST-crossing; "
                "DTEND|DUE, DURATION, neither, both, mismatched) x alarm lists of 0-4 alarms (relative +/- triggers, "
                "RELATED absent/START/END/lower/mixed case/other, absolute UTC/naive/zoned, no/repeated/DATE TRIGGER, "
                "REPEAT absent/-1/0..5, DURATION absent/0/...), each built through the setters, through add() and parsed "
                "from text, under zoneinfo and pytz; Alarms() by hand; non-trivial = has a start and at least one alarm "
                "with a TRIGGER; distinct by content")
    cases = gen_cases(ctx)
    try:
        rows = run_provider(ctx, res, cases, "zoneinfo")
        run_provider(ctx, res, cases, "pytz")
        for provider in ("zoneinfo", "pytz"):
            run_manual(ctx, res, provider)
    finally:
        S.use_provider("zoneinfo")
    mid = rows[len(rows) // 2]
    res.sample({"case": mid[1], "times per build": mid[2], "property (python transcription)": mid[4]})
    res.sample({"ical": text_of(rows[4][1]), "times": rows[4][2]})
    res.sample({"theorems": ["C14_alarm_times_spec", "C14_spec_members", "C14_repeat_times", "C14_alarm_triggers"]})


def replay(ctx, data):
    inp = data["input"]
    provider = inp.get("provider", "zoneinfo")
    S.use_provider(provider)

    def tup(x):
        return tuple(tup(y) for y in x) if isinstance(x, list) else x
    if "case" in inp:
        kind, st, en, du, als = inp["case"]
        als = [{k: (tup(v) if isinstance(v, list) else v) for k, v in a.items()} for a in als]
        case = (kind, tup(st) if st else None, tup(en) if en else None, du, als)
        comp = build_api(case, provider, 0)
        print(text_of(case))
        print("impl times (api):", observe_times(comp))
        print("property says   :", py_spec(comp, case, provider))
        if ctx.model:
            wp, wa = w_parent(case, provider), [w_alarm(a, provider) for a in als]
            print("model [times, spec, alarms_ok, eager_ok, triggers]:",
                  ctx.model.call("c14_times", [wp, wa, S.oracle_for(S.zids_in([wp, wa]), provider)]))
    S.use_provider("zoneinfo")
