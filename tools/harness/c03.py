"""C03 -- typed value codecs.  Correspondence of Model/Codec*.v with the classes of
icalendar/prop.py (every leaf codec in both directions and the vDDDTypes dispatcher), the direct
property oracle on the implementation (round trip + RFC 5545 grammar of the output + the value
of every grammar-generated text + the type chosen by the combined decoder: texts drawn from the five
vDDDTypes grammars and their mutations, classified by the extracted guard ddd_guard), known-finding
classification, replay.

vFloat / vGeo have no Coq model: they are checked on the implementation only (float.hex()
comparison, correctly rounded reading of grammar texts through fractions.Fraction)."""
import base64
import binascii
import itertools
import math
import re
import struct
import sys
from datetime import date, datetime, time, timedelta, timezone
from fractions import Fraction

from . import common

GEN = ["Gen_prop"]
FINGERPRINTS = [f"prop.{c}.{m}" for c, ms in {
    "vBinary": ("__init__", "to_ical", "from_ical"), "vBoolean": ("to_ical", "from_ical"),
    "vCalAddress": ("__new__", "to_ical", "from_ical"), "vFloat": ("to_ical", "from_ical"),
    "vInt": ("to_ical", "from_ical"), "vDDDTypes": ("to_ical", "from_ical"),
    "vDate": ("to_ical", "from_ical"), "vDatetime": ("to_ical", "from_ical"),
    "vDuration": ("to_ical", "from_ical"), "vPeriod": ("__init__", "to_ical", "from_ical"),
    "vWeekday": ("__new__", "to_ical", "from_ical"), "vFrequency": ("__new__", "to_ical", "from_ical"),
    "vMonth": ("__new__", "to_ical", "from_ical", "__str__"), "vTime": ("__init__", "to_ical", "from_ical"),
    "vUri": ("__new__", "to_ical", "from_ical"), "vGeo": ("__init__", "to_ical", "from_ical"),
    "vUTCOffset": ("to_ical", "from_ical")}.items() for m in ms]
ASSUMPTIONS = [
    "from_ical is given str (what the content-line parser passes), timezone=None (zones are C11's subject)",
    "timedelta / time / datetime values have microsecond == 0 (the RFC formats have no fractions)",
    "sys.get_int_max_str_digits() == 4300 (CPython default; asserted by the harness)",
    "strings are sequences of Unicode scalar values; model functions decline (Unsup) non-ASCII input where the "
    "code calls str.upper(), int() or a \\d / \\w regex class on it",
    "RFC grammars are read with upper-case designators (P W D T H M S Z); RFC 5234's case-insensitive reading of "
    "these literals is the separate finding C03-F5",
    "DATE grammar is read with years 0001-9999 (the property's domain; year 0000 has no Python date)",
]
TRUSTED = [
    "models of CPython built-ins used here: int(str) on ASCII (sign, blanks, single underscores, 4300-digit limit), "
    "str(int) = Coq's DecimalString printer, format(n,'02'/'04'), slicing, str.upper on ASCII, str.split('/'), "
    "datetime.date/time validity, timedelta normalisation and range, binascii.b2a_base64 / non-strict a2b_base64, "
    "UTF-8 encoding: hand-written, correspondence-checked here on every case, not verified against CPython",
    "regexes DURATION_REGEX and WEEKDAY_RULE modelled by hand as matchers (literals pinned by the translator)",
    "vFloat/vGeo: no Coq model; repr/float are CPython's, checked only by the direct oracle",
]

UTC = timezone.utc


# ------------------------------------------------------------------------------ canonical forms
def c_date(d):
    assert type(d) is date, type(d)
    return [d.year, d.month, d.day]


def c_utc(tz):
    if tz is None:
        return 0
    return 1


def c_dt(d):
    assert isinstance(d, datetime) and d.microsecond == 0
    if d.tzinfo is not None:
        assert d.utcoffset() == timedelta(0), d
    return [d.year, d.month, d.day, d.hour, d.minute, d.second, c_utc(d.tzinfo)]


def c_time(t):
    assert type(t) is time and t.microsecond == 0
    return [t.hour, t.minute, t.second, c_utc(t.tzinfo)]


def c_td(td):
    assert type(td) is timedelta and td.microseconds == 0
    return td.days * 86400 + td.seconds


def c_ddd(v):
    if isinstance(v, tuple):
        return ["period", c_ddd(v[0]), c_ddd(v[1])]
    if isinstance(v, datetime):
        return ["datetime", c_dt(v)]
    if isinstance(v, date):
        return ["date"] + c_date(v)
    if isinstance(v, time):
        return ["time"] + c_time(v)
    if isinstance(v, timedelta):
        return ["dur", c_td(v)]
    raise TypeError(type(v))


def c_text(b):
    return b.decode("utf-8") if isinstance(b, (bytes, bytearray)) else str(b)


def c_big(z):
    return z if abs(z) < (1 << 59) else ["big", str(z)]


def big_arg(z):
    return z if abs(z) < (1 << 59) else str(z)


def obs(fn, canon=lambda x: x):
    try:
        return canon(fn())
    except Exception as e:  # noqa: BLE001
        return ["err", common.exc_class(e)]


def is_err(o):
    return isinstance(o, list) and o[:1] == ["err"]


# ------------------------------------------------------------------------------ RFC 5545 grammars (Python side)
def dim(y, m):
    if m == 2:
        return 29 if (y % 4 == 0 and (y % 100 != 0 or y % 400 == 0)) else 28
    return 30 if m in (4, 6, 9, 11) else 31


def g_date(t):
    if not re.fullmatch(r"[0-9]{8}", t):
        return None
    y, m, d = int(t[:4]), int(t[4:6]), int(t[6:])
    if 1 <= y <= 9999 and 1 <= m <= 12 and 1 <= d <= dim(y, m):
        return [y, m, d]
    return None


def g_time(t):
    mm = re.fullmatch(r"([0-9]{2})([0-9]{2})([0-9]{2})(Z?)", t)
    if not mm:
        return None
    h, m, s = int(mm[1]), int(mm[2]), int(mm[3])
    if h <= 23 and m <= 59 and s <= 60:
        return [h, m, s, 1 if mm[4] else 0]
    return None


def g_datetime(t):
    if len(t) < 9 or t[8] != "T":
        return None
    d, tm = g_date(t[:8]), g_time(t[9:])
    if d is None or tm is None:
        return None
    return d + tm


DUR_RE = re.compile(r"([+-]?)P(?:([0-9]+)W|([0-9]+)D(?:T(?:([0-9]+)H(?:([0-9]+)M(?:([0-9]+)S)?)?|([0-9]+)M(?:([0-9]+)S)?|([0-9]+)S))?"
                    r"|T(?:([0-9]+)H(?:([0-9]+)M(?:([0-9]+)S)?)?|([0-9]+)M(?:([0-9]+)S)?|([0-9]+)S))")


def g_dur(t):
    """RFC 5545 3.3.6 dur-value, written from the ABNF as one alternation"""
    mm = DUR_RE.fullmatch(t)
    if not mm or "\n" in t:
        return None
    g = mm.groups()
    n = lambda *ix: sum(int(g[i].lstrip("0") or "0") for i in ix if g[i] is not None)  # noqa: E731  (int()'s 4300-digit limit)
    v = 604800 * n(1) + 86400 * n(2) + 3600 * n(3, 9) + 60 * n(4, 6, 10, 12) + n(5, 7, 8, 11, 13, 14)
    return -v if g[0] == "-" else v


def g_offset(t):
    mm = re.fullmatch(r"([+-])([0-9]{2})([0-9]{2})([0-9]{2})?", t)
    if not mm:
        return None
    h, m, s = int(mm[2]), int(mm[3]), int(mm[4] or 0)
    if h > 23 or m > 59 or s > 59:
        return None
    v = 3600 * h + 60 * m + s
    if mm[1] == "-":
        return None if v == 0 else -v
    return v


def g_period(t):
    """RFC 5545 3.3.9 period = date-time "/" date-time  /  date-time "/" dur-value"""
    p = t.split("/")
    if len(p) != 2:
        return None
    a = g_datetime(p[0])
    if a is None:
        return None
    b = g_datetime(p[1])
    if b is not None:
        return ["period", ["datetime", a], ["datetime", b]]
    d = g_dur(p[1])
    if d is not None:
        return ["period", ["datetime", a], ["dur", d]]
    return None


def g_ddd_readings(t):
    """every reading of t as DATE / DATE-TIME / TIME / DURATION / PERIOD, in c_ddd form"""
    out = []
    x = g_date(t)
    if x is not None:
        out.append(["date"] + x)
    x = g_datetime(t)
    if x is not None:
        out.append(["datetime", x])
    x = g_time(t)
    if x is not None:
        out.append(["time"] + x)
    x = g_dur(t)
    if x is not None:
        out.append(["dur", x])
    x = g_period(t)
    if x is not None:
        out.append(x)
    return out


def big_ddd(v):
    """the wire form of a reading: seconds beyond 59 bits travel as decimal text"""
    if v is None:
        return None
    if v[0] == "dur":
        return ["dur", c_big(v[1])]
    if v[0] == "period":
        return ["period", big_ddd(v[1]), big_ddd(v[2])]
    return v


def g_ddd(t):
    r = g_ddd_readings(t)
    return r[0] if len(r) == 1 else None


def ddd_class(v):
    """None when the value is inside the guard of C03_ddd_grammar_value (harness reading of ddd_guard), else the
    id of the open finding whose class it is in"""
    k = v[0]
    if k == "datetime":
        return "C03-F1" if v[1][5] == 60 else None
    if k == "time":
        return "C03-F1" if v[3] == 60 else "C03-F2" if v[4] else None
    if k == "dur":
        return None if TD_MIN <= v[1] <= TD_MAX else "C03-F4"
    if k == "period":
        return ddd_class(v[1]) or ddd_class(v[2])
    return None


def aupper(t):
    """str.upper restricted to ASCII letters (what the Coq recognisers use)"""
    return "".join(chr(ord(c) - 32) if "a" <= c <= "z" else c for c in t)


WD_RE = re.compile(r"(?:([+-]?)([0-9]{1,2}))?(SU|MO|TU|WE|TH|FR|SA)")


def g_weekday(t):
    """RFC 5545 3.3.10 weekdaynum = [[plus / minus] ordwk] weekday, ordwk 1..53, letters in any case"""
    mm = WD_RE.fullmatch(aupper(t))
    if not mm or "\n" in t:
        return None
    if mm[2] is None:
        return [["none"], mm[3]]
    n = int(mm[2])
    if not 1 <= n <= 53:
        return None
    return [-n if mm[1] == "-" else n, mm[3]]


B64_ALPHABET = "ABCDEFGHIJKLMNOPQRSTUVWXYZabcdefghijklmnopqrstuvwxyz0123456789+/"


def g_binary(t):
    """RFC 4648 section 4 by bit arithmetic (not through the base64 module): (octets, canonical?) or None"""
    if not BIN_RE.fullmatch(t):
        return None
    data = t.rstrip("=")
    pad = len(t) - len(data)
    n = 0
    for ch in data:
        n = n * 64 + B64_ALPHABET.index(ch)
    unused = {0: 0, 1: 2, 2: 4}[pad]
    canonical = (n & ((1 << unused) - 1)) == 0
    n >>= unused
    nbytes = (len(data) * 6 - unused) // 8
    return n.to_bytes(nbytes, "big"), canonical


INT_RE = re.compile(r"[+-]?[0-9]+")
FLOAT_RE = re.compile(r"[+-]?[0-9]+(\.[0-9]+)?")
BIN_RE = re.compile(r"(?:[A-Za-z0-9+/]{4})*(?:[A-Za-z0-9+/]{2}==|[A-Za-z0-9+/]{3}=)?")
WEEKDAYS = ["SU", "MO", "TU", "WE", "TH", "FR", "SA"]
FREQS = ["SECONDLY", "MINUTELY", "HOURLY", "DAILY", "WEEKLY", "MONTHLY", "YEARLY"]


# ------------------------------------------------------------------------------ batch of model calls
class Batch:
    def __init__(self):
        self.items = []       # (target, fname, arg, impl observation)
        self.outs = None

    def add(self, target, fname, arg, impl):
        self.items.append((target, fname, arg, impl))
        return len(self.items) - 1

    def run(self, ctx, res, procs=8):
        """all model calls go through ctx.model.batch; the list is cut into chunks that are served by forked
        worker processes (the wire encoding/decoding on the Python side is the bottleneck, not the driver)"""
        global _REQS, _MODEL
        if not ctx.model:
            self.outs = [None] * len(self.items)
            return
        reqs = [(f, a) for _, f, a, _ in self.items]
        n = len(reqs)
        if n < 20000:
            outs = ctx.model.batch(reqs)
        else:
            # round-robin split (case i goes to worker i mod procs): expensive cases are spread evenly, and the
            # driver's start-up cost is paid once per worker
            import multiprocessing
            _REQS, _MODEL = reqs, ctx.model
            try:
                with multiprocessing.get_context("fork").Pool(processes=procs) as pool:
                    parts = pool.map(_serve, [(k, procs) for k in range(procs)])
            finally:
                _REQS = None
            outs = [None] * n
            for k, part in enumerate(parts):
                outs[k::procs] = part
            ctx.model.calls += n
        self.outs = outs
        for (target, f, a, impl), m in zip(self.items, outs):
            res.corr(target, [f, a], impl, m)


_REQS = None
_MODEL = None


def _serve(span):
    return _MODEL.batch(_REQS[span[0]::span[1]])


class Run:
    """what one section needs: the result record, the batch, deferred known-finding decisions"""

    def __init__(self, ctx, res):
        self.ctx, self.res, self.B = ctx, res, Batch()
        self.deferred = []     # (fid, example, impl observation, batch index or None, what)
        self.callbacks = []    # decisions that need the model's answers (extracted guards): fn(outs)

    def corr(self, target, fname, arg, impl):
        return self.B.add(target, fname, arg, impl)

    def spec(self, fname, t, py_value):
        """cross-check of the two statements of the RFC grammar: the Coq recogniser (Model/*_value, which the theorems
        are about) against the harness's own reading (regexes above, which the direct oracle uses)"""
        self.B.add("RFC recogniser " + fname + " (Coq) vs harness regex", fname, t, ["none"] if py_value is None else py_value)

    def suspect(self, fid, what, example, impl, idx):
        """a property failure that lies in the class of open finding [fid]; decided after the model ran:
        known iff the implementation failed exactly as the faithful model predicts"""
        self.deferred.append((fid, what, example, impl, idx))

    def fail(self, what, inp, observed=None, expected=None):
        self.res.fail("C03 " + what, inp, observed, expected)

    def later(self, fn):
        """fn(outs) runs once the model has answered; outs[i] is the answer to the batch entry i (None without a model)"""
        self.callbacks.append(fn)

    def finish(self):
        self.B.run(self.ctx, self.res)
        for fn in self.callbacks:
            fn(self.B.outs)
        for fid, what, example, impl, idx in self.deferred:
            agrees = True
            if idx is not None and self.B.outs[idx] is not None:
                m = self.B.outs[idx]
                agrees = (m == impl) or (isinstance(m, list) and m[:1] == ["unsupported"])
            if fid in self.ctx.known and agrees:
                self.res.known(fid, example, self.ctx.known[fid]["summary"])
            else:
                self.fail(what + (" (in the class of %s but not as the recorded finding predicts)" % fid
                                  if fid in self.ctx.known else ""), example, observed=impl)


# ------------------------------------------------------------------------------ sections
def sec_int_builtin(R):
    """the model of int(str) itself, exhaustively on short strings over its critical alphabet"""
    alpha = [" ", "\t", "+", "-", "_", "0", "1", "9", "a", "\n", "\x0c", "\x1c"]
    maxlen = 5 if R.ctx.big else 4
    for n in range(0, maxlen + 1):
        for tup in itertools.product(alpha, repeat=n):
            s = "".join(tup)
            R.res.dist("int():exhaustive")
            R.res.evaluations += 1
            R.corr("builtin int(str)", "py_int", s, obs(lambda: int(s), c_big))


def gen_dates(ctx):
    rng = common.rng_for(ctx.seed, "c03-date")
    out = []
    if ctx.big:
        d = date(1, 1, 1)
        one = timedelta(days=1)
        while True:
            out.append(("all", d))
            if d == date.max:
                break
            d += one
        return out
    stride = 97 if ctx.level == 0 else 13
    o = 1 + rng.randrange(stride)
    while o <= date.max.toordinal():
        out.append(("stride", date.fromordinal(o)))
        o += stride
    for y in range(1, 10000):
        for m in range(1, 13):
            out.append(("month-end", date(y, m, dim(y, m))))
        out.append(("month-start", date(y, 3, 1)))
    for d in (date.min, date.max, date(1900, 2, 28), date(2000, 2, 29), date(1997, 7, 14)):
        out.append(("corpus", d))
    return out


def sec_dates(R):
    from icalendar.prop import vDate, vDDDTypes
    res = R.res
    for kind, d in gen_dates(R.ctx):
        res.dist("date:" + kind)
        res.count(("date", d.toordinal()), nontrivial=True)
        t = c_text(vDate(d).to_ical())
        back = obs(lambda: vDate.from_ical(t), c_date)
        want = c_date(d)
        R.corr("vDate.to_ical", "enc_date", want, t)
        R.corr("vDate.from_ical", "dec_date", t, back)
        if back != want:
            R.fail("date round trip: from_ical(to_ical(d)) != d", str(d), back, want)
        if g_date(t) != want:
            R.fail("date: to_ical output is not the RFC date-value of d", str(d), t)
        via = obs(lambda: vDDDTypes.from_ical(t), c_ddd)
        if via != ["date"] + want:
            R.fail("ddd dispatch: a DATE text is not read as that date", t, via)
    # texts that are 8 digits but no date, and near misses: expected ValueError (decided by the model)
    rng = common.rng_for(R.ctx.seed, "c03-date-bad")
    bad = ["00000101", "19970229", "19000229", "20000230", "19971301", "19970001", "19970100", "19970732", "99991232",
           "1997071", "199707145", "1997 7 1", "+9970714", "19970714XYZ", "1997-07-14", "", "abcdefgh", "1_970714",
           "19970714\n", " 9970714", "1997071４"]
    for _ in range(3000 if R.ctx.big else 600):
        bad.append("".join(rng.choice("0123456789 +-_aT") for _ in range(rng.choice((7, 8, 8, 8, 9)))))
    for t in bad:
        res.dist("date:malformed-or-near")
        res.evaluations += 1
        back = obs(lambda: vDate.from_ical(t), c_date)
        R.corr("vDate.from_ical", "dec_date", t, back)
        R.corr("vDDDTypes.from_ical", "ddd_from_ical", t, obs(lambda: vDDDTypes.from_ical(t), c_ddd))
        g = g_date(t)
        R.spec("date_value", t, g)
        if g is not None and back != g:
            R.fail("date grammar: a grammar-valid DATE text does not decode to its value", t, back, g)


def sec_times(R):
    from icalendar.prop import vTime, vDatetime, vDDDTypes
    res, ctx = R.res, R.ctx
    rng = common.rng_for(ctx.seed, "c03-time")
    # every second of the day, naive: round trip, grammar, dispatch
    for sod in range(86400):
        h, m, s = sod // 3600, sod % 3600 // 60, sod % 60
        res.dist("time:every-second")
        res.count(("time", sod), nontrivial=True)
        v = time(h, m, s)
        t = c_text(vTime(v).to_ical())
        back = obs(lambda: vTime.from_ical(t), c_time)
        R.corr("vTime.to_ical", "enc_time", [h, m, s, 0], t)
        R.corr("vTime.from_ical", "dec_time", t, back)
        if back != [h, m, s, 0]:
            R.fail("time round trip", str(v), back, [h, m, s, 0])
        if g_time(t) != [h, m, s, 0]:
            R.fail("time: to_ical output is not the RFC time of the value", str(v), t)
        if sod % (1 if ctx.big else 7) == 0:
            via = obs(lambda: vDDDTypes.from_ical(t), c_ddd)
            R.corr("vDDDTypes.from_ical", "ddd_from_ical", t, via)
            if via != ["time", h, m, s, 0]:
                R.fail("ddd dispatch: a TIME text is not read as that time", t, via)
    # UTC times (value side) and "Z" texts (grammar side): open finding C03-F2
    for sod in range(0, 86400, 1 if ctx.big else 601):
        h, m, s = sod // 3600, sod % 3600 // 60, sod % 60
        res.dist("time:utc")
        res.count(("time-utc", sod), nontrivial=True)
        v = time(h, m, s, tzinfo=UTC)
        t = c_text(vTime(v).to_ical())
        back = obs(lambda: vTime.from_ical(t), c_time)
        R.corr("vTime.to_ical", "enc_time", [h, m, s, 1], t)
        if back != [h, m, s, 1] or g_time(t) != [h, m, s, 1]:
            i = R.corr("vTime.from_ical", "dec_time", t, back)
            R.suspect("C03-F2", "UTC time does not survive to_ical/from_ical", {"time": str(v), "text": t}, back, i)
        tz = "%02d%02d%02dZ" % (h, m, s)
        back = obs(lambda: vTime.from_ical(tz), c_time)
        i = R.corr("vTime.from_ical", "dec_time", tz, back)
        if back != g_time(tz):
            R.suspect("C03-F2", "grammar-valid UTC TIME text decodes to a naive time", tz, back, i)
        via = obs(lambda: vDDDTypes.from_ical(tz), c_ddd)
        i = R.corr("vDDDTypes.from_ical", "ddd_from_ical", tz, via)
        if via != ["time"] + g_time(tz):
            R.suspect("C03-F2", "grammar-valid UTC TIME text decodes to a naive time (via vDDDTypes)", tz, via, i)
    # leap seconds: open finding C03-F1
    for h, m in [(23, 59), (0, 0), (12, 30)] + [(rng.randrange(24), rng.randrange(60)) for _ in range(20)]:
        for suffix in ("", "Z"):
            t = "%02d%02d60%s" % (h, m, suffix)
            res.dist("time:leap-second")
            res.count(("time-leap", t), nontrivial=True)
            back = obs(lambda: vTime.from_ical(t), c_time)
            i = R.corr("vTime.from_ical", "dec_time", t, back)
            assert g_time(t) is not None
            if back != g_time(t):
                R.suspect("C03-F1", "grammar-valid TIME text with second 60 is not decoded", t, back, i)
    # malformed / near misses
    bad = ["240000", "126000", "120061", "12000", "1200", "", "12000Z", "1200009", "120000z", "12:00:00", " 20000", "1_0000",
           "+20000", "-20000", "120000ZZ", "120000\n", "12000０"]
    for _ in range(3000 if ctx.big else 500):
        bad.append("".join(rng.choice("0123456789 +-_Zz") for _ in range(rng.choice((5, 6, 6, 7, 7, 8)))))
    for t in bad:
        res.dist("time:malformed-or-near")
        res.evaluations += 1
        back = obs(lambda: vTime.from_ical(t), c_time)
        i = R.corr("vTime.from_ical", "dec_time", t, back)
        R.corr("vDDDTypes.from_ical", "ddd_from_ical", t, obs(lambda: vDDDTypes.from_ical(t), c_ddd))
        g = g_time(t)
        R.spec("time_value", t, g)
        if g is not None and back != g:
            fid = "C03-F1" if g[2] == 60 else "C03-F2" if g[3] else None
            if fid:
                R.suspect(fid, "grammar-valid TIME text does not decode to its value", t, back, i)
            else:
                R.fail("time grammar: a grammar-valid TIME text does not decode to its value", t, back, g)


def sec_datetimes(R):
    from icalendar.prop import vDatetime, vDDDTypes
    res, ctx = R.res, R.ctx
    rng = common.rng_for(ctx.seed, "c03-datetime")
    days = [date(1997, 7, 14), date.min, date.max, date(2000, 2, 29), date(1972, 6, 30)]
    cases = []
    for i, d in enumerate(days):
        step = 1 if (ctx.big or i == 0 and ctx.level) else (5 if i == 0 else 1201)
        for sod in range(0, 86400, step):
            cases.append((d, sod, (sod + i) % 2))
    for _ in range(40000 if ctx.big else 6000 * (1 + 2 * ctx.level)):
        cases.append((date.fromordinal(rng.randrange(1, date.max.toordinal() + 1)), rng.randrange(86400), rng.randrange(2)))
    for d, sod, utc in cases:
        h, m, s = sod // 3600, sod % 3600 // 60, sod % 60
        res.dist("datetime:" + ("utc" if utc else "naive"))
        res.count(("datetime", d.toordinal(), sod, utc), nontrivial=True)
        v = datetime(d.year, d.month, d.day, h, m, s, tzinfo=UTC if utc else None)
        want = c_dt(v)
        t = c_text(vDatetime(v).to_ical())
        back = obs(lambda: vDatetime.from_ical(t), c_dt)
        R.corr("vDatetime.to_ical", "enc_datetime", want, t)
        R.corr("vDatetime.from_ical", "dec_datetime", t, back)
        if back != want:
            R.fail("datetime round trip", str(v), back, want)
        if g_datetime(t) != want:
            R.fail("datetime: to_ical output is not the RFC date-time of the value", str(v), t)
        via = obs(lambda: vDDDTypes.from_ical(t), c_ddd)
        R.corr("vDDDTypes.from_ical", "ddd_from_ical", t, via)
        if via != ["datetime", want]:
            R.fail("ddd dispatch: a DATE-TIME text is not read as that datetime", t, via)
    # leap seconds (C03-F1), lower-case designators (C03-F5), near misses
    special = ["19970714T235960Z", "19970714T235960", "19720630T235960Z", "20161231T235960Z",
               "19970714t120000z", "19970714T120000z", "19970714t120000Z", "19970714t120000",
               "19970714X120000", "19970714T120000X", "19970714T120000ZZ", "19970714T1200", "19970714T12000Z",
               "19970229T120000", "19970714T240000", "19970714 120000", "19970714T120000\n", "1997071４T120000", ""]
    for _ in range(3000 if ctx.big else 500):
        special.append("".join(rng.choice("0123456789 +-_TtZz") for _ in range(8)) + rng.choice("TtT _0")
                       + "".join(rng.choice("0123456789 +-_TtZz") for _ in range(rng.choice((5, 6, 6, 7, 7, 8)))))
    for t in special:
        res.dist("datetime:leap/case/malformed")
        res.count(("datetime-text", t), nontrivial=True)
        back = obs(lambda: vDatetime.from_ical(t), c_dt)
        i = R.corr("vDatetime.from_ical", "dec_datetime", t, back)
        via = obs(lambda: vDDDTypes.from_ical(t), c_ddd)
        j = R.corr("vDDDTypes.from_ical", "ddd_from_ical", t, via)
        g = g_datetime(t)
        R.spec("datetime_value", t, g)
        if g is not None:
            if back != g:
                if g[5] == 60:
                    R.suspect("C03-F1", "grammar-valid DATE-TIME text with second 60 is not decoded", t, back, i)
                else:
                    R.fail("datetime grammar: a grammar-valid DATE-TIME text does not decode to its value", t, back, g)
            elif via != ["datetime", g]:
                R.fail("ddd dispatch: a DATE-TIME text is not read as that datetime", t, via)
        elif t != t.upper() and g_datetime(t.upper()) is not None and g_datetime(t.upper())[5] != 60:
            gu = g_datetime(t.upper())
            if back != gu:
                R.suspect("C03-F5", "DATE-TIME text with a lower-case designator (RFC 5234 literals are case-insensitive) "
                                    "is not decoded", t, back, i)


def gen_durations(ctx):
    rng = common.rng_for(ctx.seed, "c03-dur")
    base = [0, 1, 59, 60, 61, 3599, 3600, 3601, 86399, 86400, 86401, 604800]
    vals = set()
    ks = list(range(0, 30)) + [59, 60, 61, 99, 100, 101, 365, 1000, 9999, 10 ** 5, 10 ** 6, 10 ** 9 - 1]
    for b in base:
        for k in ks:
            for b2 in (0, 1, 59, 60, 3600, 3661, 86399):
                for sg in (1, -1):
                    vals.add(sg * (b * k + b2))
    tmax = 999999999 * 86400 + 86399
    tmin = -999999999 * 86400
    for v in (tmax, tmax - 1, tmax - 86399, tmax - 86400, tmin, tmin + 1, tmin + 86399, tmin + 86400):
        vals.add(v)
    for _ in range(60000 if ctx.big else 6000 * (1 + 2 * ctx.level)):
        bits = rng.choice((8, 12, 17, 20, 30, 40, 46))
        vals.add(rng.randrange(-(1 << bits), 1 << bits))
    return sorted(v for v in vals if tmin <= v <= tmax)


def rand_dur_text(rng):
    """a random dur-value with its RFC value"""
    def num():
        n = rng.choice((rng.randrange(0, 10), rng.randrange(0, 100), rng.randrange(0, 100000), 10 ** rng.randrange(0, 13)))
        return ("0" * rng.choice((0, 0, 0, 1, 3)) + str(n)), n

    def dtime():
        k = rng.randrange(6)
        parts = {0: "H", 1: "HM", 2: "HMS", 3: "M", 4: "MS", 5: "S"}[k]
        t, v = "T", 0
        for c in parts:
            s, n = num()
            t += s + c
            v += n * {"H": 3600, "M": 60, "S": 1}[c]
        return t, v
    sign = rng.choice(("", "", "+", "-"))
    form = rng.randrange(4)
    if form == 0:
        s, n = num()
        body, v = s + "W", n * 604800
    elif form == 1:
        s, n = num()
        body, v = s + "D", n * 86400
    elif form == 2:
        s, n = num()
        tt, tv = dtime()
        body, v = s + "D" + tt, n * 86400 + tv
    else:
        body, v = dtime()
    return sign + "P" + body, (-v if sign == "-" else v)


TD_MAX = 999999999 * 86400 + 86399
TD_MIN = -999999999 * 86400


def sec_durations(R):
    from icalendar.prop import vDuration, vDDDTypes
    res, ctx = R.res, R.ctx
    for v in gen_durations(ctx):
        res.dist("duration:value")
        res.count(("dur", v), nontrivial=(v != 0))
        td = timedelta(seconds=v)
        t = c_text(vDuration(td).to_ical())
        back = obs(lambda: vDuration.from_ical(t), c_td)
        R.corr("vDuration.to_ical", "enc_dur", v, t)
        R.corr("vDuration.from_ical", "dec_dur", t, back)
        if back != v:
            R.fail("duration round trip", v, back, v)
        if g_dur(t) != v:
            R.fail("duration: to_ical output is not an RFC dur-value denoting the value", v, t)
        via = obs(lambda: vDDDTypes.from_ical(t), c_ddd)
        R.corr("vDDDTypes.from_ical", "ddd_from_ical", t, via)
        if via != ["dur", v]:
            R.fail("ddd dispatch: a DURATION text is not read as that duration", t, via)
    rng = common.rng_for(ctx.seed, "c03-dur-text")
    texts = [("P15DT5H0M20S", None), ("P7W", None), ("PT0S", None), ("P0D", None), ("+P1D", None), ("-PT1S", None),
             ("P999999999DT23H59M59S", None), ("-P999999999D", None),
             ("P1000000000D", None), ("P999999999DT24H", None), ("-P999999999DT1S", None), ("P99999999999W", None),
             ("p1d", None), ("P1dT1h", None), ("pt5m", None), ("-p1w", None)]
    for _ in range(40000 if ctx.big else 5000 * (1 + 2 * ctx.level)):
        texts.append(rand_dur_text(rng))
    malformed = ["P", "PT", "P1W2D", "P1DT", "P1D\n", "P1D\n\n", "PT1H5S", "P1H", "PT1D", "P-1D", "P1.5D", "1D", "", "P 1D",
                 "P1D ", "++P1D", "P1DT1S1M", "P１D", "P1_0D", "P+1D", "PT1M1H", "P1D1W", "P1WT1H", "-", "+", "P1Dx"]
    for _ in range(3000 if ctx.big else 600):
        malformed.append("".join(rng.choice("PTWDHMS0159+- \n") for _ in range(rng.randrange(1, 9))))
    for t, v in texts + [(m, None) for m in malformed]:
        g = g_dur(t)
        if v is not None:
            assert g == v, (t, g, v)
        R.spec("dur_value", t, None if g is None else c_big(g))
        res.dist("duration:grammar-text" if g is not None else "duration:malformed-or-near")
        res.count(("dur-text", t), nontrivial=True)
        back = obs(lambda: vDuration.from_ical(t), c_td)
        i = R.corr("vDuration.from_ical", "dec_dur", t, back)
        via = obs(lambda: vDDDTypes.from_ical(t), c_ddd)
        j = R.corr("vDDDTypes.from_ical", "ddd_from_ical", t, via)
        if g is not None:
            if back != g:
                if not (TD_MIN <= g <= TD_MAX):
                    R.suspect("C03-F4", "grammar-valid DURATION beyond the timedelta range raises OverflowError", t, back, i)
                else:
                    R.fail("duration grammar: a grammar-valid DURATION text does not decode to its value", t, back, g)
            elif via != ["dur", g]:
                R.fail("ddd dispatch: a DURATION text is not read as that duration", t, via)
        elif t != t.upper() and g_dur(t.upper()) is not None and TD_MIN <= g_dur(t.upper()) <= TD_MAX:
            if back != g_dur(t.upper()):
                R.suspect("C03-F5", "DURATION text with a lower-case designator (RFC 5234 literals are case-insensitive) "
                                    "is not decoded", t, back, i)


def sec_offsets(R):
    from icalendar.prop import vUTCOffset
    res, ctx = R.res, R.ctx
    rng = common.rng_for(ctx.seed, "c03-offset")
    vals = range(-86399, 86400)
    for v in vals:
        res.dist("offset:value")
        res.count(("offset", v), nontrivial=True)
        t = c_text(vUTCOffset(timedelta(seconds=v)).to_ical())
        back = obs(lambda: vUTCOffset.from_ical(t), c_td)
        R.corr("vUTCOffset.to_ical", "enc_offset", v, t)
        R.corr("vUTCOffset.from_ical", "dec_offset", t, back)
        if back != v:
            R.fail("utc-offset round trip", v, back, v)
        if g_offset(t) != v:
            R.fail("utc-offset: to_ical output is not the RFC utc-offset of the value (or is -0000/-000000)", v, t)
    # outside the domain (|offset| >= 24 h): only correspondence
    for v in [86400, -86400, 90000, -90000, 360000, 999999999 * 86400, -999999999 * 86400, 8639999]:
        res.dist("offset:out-of-domain")
        res.evaluations += 1
        R.corr("vUTCOffset.to_ical", "enc_offset", v, obs(lambda: c_text(vUTCOffset(timedelta(seconds=v)).to_ical())))
    # grammar texts (5- and 7-character forms incl. explicit 00 seconds) and malformed
    texts = ["+0000", "+000000", "-0000", "-000000", "-000001", "+2359", "+235959", "-2359", "+2400", "+0060", "+000060",
             "X0500", "00500", "+0575", "+-5-5", "+05", "", "+050030junk", "+05 0", "+0_00", " 0500", "+05:00", "+0500\n",
             "+05００", "-1200", "+1400"]
    for _ in range(20000 if ctx.big else 3000):
        s = rng.choice("+-")
        texts.append("%s%02d%02d" % (s, rng.randrange(24), rng.randrange(60)) + rng.choice(("", "%02d" % rng.randrange(60))))
    for _ in range(3000 if ctx.big else 600):
        texts.append("".join(rng.choice("+-0123456789 _x") for _ in range(rng.choice((4, 5, 5, 6, 7, 7, 8)))))
    for t in texts:
        g = g_offset(t)
        R.spec("offset_value", t, g)
        res.dist("offset:grammar-text" if g is not None else "offset:malformed-or-near")
        res.count(("offset-text", t), nontrivial=True)
        back = obs(lambda: vUTCOffset.from_ical(t), c_td)
        R.corr("vUTCOffset.from_ical", "dec_offset", t, back)
        if g is not None and back != g:
            R.fail("utc-offset grammar: a grammar-valid UTC-OFFSET text does not decode to its value", t, back, g)


def sec_periods(R):
    from icalendar.prop import vPeriod, vDDDTypes
    res, ctx = R.res, R.ctx
    rng = common.rng_for(ctx.seed, "c03-period")

    def rdt(utc):
        d = date.fromordinal(rng.choice((rng.randrange(1, date.max.toordinal() + 1), rng.randrange(1, 400),
                                         date.max.toordinal() - rng.randrange(400))))
        sod = rng.randrange(86400)
        return datetime(d.year, d.month, d.day, sod // 3600, sod % 3600 // 60, sod % 60, tzinfo=UTC if utc else None)

    for _ in range(30000 if ctx.big else 4000 * (1 + 2 * ctx.level)):
        utc = rng.randrange(2)
        a = rdt(utc)
        if rng.randrange(2):
            b = rng.choice((rdt(utc), a + timedelta(seconds=rng.randrange(0, 100000)) if a.year < 9999 else a, a))
            arg, second = [c_dt(a), c_dt(b)], b
            want2 = ["datetime", c_dt(b)]
        else:
            s = rng.choice((rng.randrange(0, 100), rng.randrange(0, 10 ** 6), rng.randrange(-100, 10 ** 9),
                            rng.randrange(0, 10 ** 12), 0))
            arg, second = [c_dt(a), s], timedelta(seconds=s)
            want2 = ["dur", s]
        res.dist("period:" + ("explicit" if isinstance(second, datetime) else "start+duration"))
        res.count(("period", arg), nontrivial=True)
        t = obs(lambda: c_text(vPeriod((a, second)).to_ical()))
        R.corr("vPeriod(...).to_ical", "enc_period", arg, t)
        if is_err(t):
            continue     # start > end / end not representable: no such vPeriod value
        back = obs(lambda: vPeriod.from_ical(t), c_ddd)
        via = obs(lambda: vDDDTypes.from_ical(t), c_ddd)
        R.corr("vPeriod.from_ical", "dec_period", t, back)
        R.corr("vDDDTypes.from_ical", "ddd_from_ical", t, via)
        want = ["period", ["datetime", c_dt(a)], want2]
        if back != want or via != want:
            R.fail("period round trip", t, back, want)
        p = t.split("/")
        if not (len(p) == 2 and g_datetime(p[0]) == c_dt(a)
                and (g_datetime(p[1]) == want2[1] if want2[0] == "datetime" else g_dur(p[1]) == want2[1])):
            R.fail("period: to_ical output is not an RFC period denoting the value", arg, t)
    texts = ["19970101T180000Z/19970102T070000Z", "19970101T180000Z/PT5H30M", "19970101T180000/P1W",
             "19970101T235960Z/PT1H", "19970101T180000Z/19970102T235960Z", "19970101T180000Z/P1000000000D",
             "19970101T180000Z/pt5h", "19970101/19970102", "P1D/P2D", "120000/130000", "/", "19970101T180000Z/",
             "19970101T180000Z/19970102T070000Z/PT1H", "19970101T180000Z", "19970101T180000Z/-PT1H", "a/b", ""]
    for t in texts:
        res.dist("period:text")
        res.count(("period-text", t), nontrivial=True)
        back = obs(lambda: vPeriod.from_ical(t), c_ddd)
        i = R.corr("vPeriod.from_ical", "dec_period", t, back)
        via = obs(lambda: vDDDTypes.from_ical(t), c_ddd)
        R.corr("vDDDTypes.from_ical", "ddd_from_ical", t, via)
        p = t.split("/")
        if len(p) == 2 and g_datetime(p[0]) is not None and (g_datetime(p[1]) is not None or g_dur(p[1]) is not None):
            g2 = ["datetime", g_datetime(p[1])] if g_datetime(p[1]) is not None else ["dur", g_dur(p[1])]
            want = ["period", ["datetime", g_datetime(p[0])], g2]
            if back != want:
                if g_datetime(p[0])[5] == 60 or (g2[0] == "datetime" and g2[1][5] == 60):
                    R.suspect("C03-F1", "grammar-valid PERIOD text with second 60 is not decoded", t, back, i)
                elif g2[0] == "dur" and not (TD_MIN <= g2[1] <= TD_MAX):
                    R.suspect("C03-F4", "grammar-valid PERIOD whose duration is beyond the timedelta range is refused", t, back, i)
                else:
                    R.fail("period grammar: a grammar-valid PERIOD text does not decode to its value", t, back, want)


# ------------------------------------------------------------------------------ grammar texts of the five vDDDTypes kinds
def rand_time_text(rng):
    sec = rng.choice((rng.randrange(60), rng.randrange(60), rng.randrange(60), rng.randrange(60), 59, 0, 60))
    return "%02d%02d%02d" % (rng.randrange(24), rng.randrange(60), sec) + rng.choice(("", "", "Z"))


def rand_date_text(rng):
    d = date.fromordinal(rng.choice((rng.randrange(1, date.max.toordinal() + 1), rng.randrange(1, 800),
                                     date.max.toordinal() - rng.randrange(800))))
    return "%04d%02d%02d" % (d.year, d.month, d.day)


def rand_datetime_text(rng):
    return rand_date_text(rng) + "T" + rand_time_text(rng)


def rand_dur_text2(rng):
    k = rng.randrange(12)
    if k == 0:      # around and beyond timedelta's range (C03-F4)
        return rng.choice(("", "+", "-")) + "P%dD" % rng.choice((999999999, 1000000000, rng.randrange(10 ** 9, 10 ** 11)))
    if k == 1:
        return rng.choice(("", "-")) + "P999999999DT%dH%dM%dS" % (rng.randrange(30), rng.randrange(70), rng.randrange(70))
    if k == 2:
        return rng.choice(("", "-")) + "P%dW" % rng.randrange(142857142, 142857144)
    return rand_dur_text(rng)[0]


def rand_period_text(rng):
    return rand_datetime_text(rng) + "/" + (rand_datetime_text(rng) if rng.randrange(2) else rand_dur_text2(rng))


DDD_MUT_ALPHABET = "0123456789TZPWDHMS/+-tzpwdhms \n_"


def mutate_text(rng, t):
    k = rng.randrange(8)
    if k == 0 and t:                       # one letter to lower case (C03-F5 when it was a designator)
        ix = [i for i, c in enumerate(t) if c.isalpha()]
        if ix:
            i = rng.choice(ix)
            return t[:i] + t[i].lower() + t[i + 1:]
    if k == 1:
        return t.lower()
    if k == 2 and t:
        i = rng.randrange(len(t))
        return t[:i] + t[i + 1:]
    if k == 3 and t:
        i = rng.randrange(len(t))
        return t[:i] + t[i] + t[i:]
    if k == 4 and t:
        i = rng.randrange(len(t))
        return t[:i] + rng.choice(DDD_MUT_ALPHABET) + t[i + 1:]
    if k == 5:
        i = rng.randrange(len(t) + 1)
        return t[:i] + rng.choice(DDD_MUT_ALPHABET) + t[i:]
    if k == 6 and "/" in t:
        a, b = t.split("/", 1)
        return rng.choice((b + "/" + a, a + "/", "/" + b, a + "/" + b + "/" + b, a + b))
    return t + rng.choice(("Z", "\n", " ", "T000000", "/", "0"))


def sec_grammar_ddd(R):
    """C03_ddd_grammar_value(_full), C03_period_grammar_value(_full), C03_ddd_grammars_disjoint on the
    implementation: texts generated from the five grammars (with leap seconds, Z, over-range and long durations), their
    mutations and case variants.  The Coq readings (ddd_value, period_value) are cross-checked with the harness's own; the
    extracted guard (ddd_guard, period_guard) classifies: inside it the implementation must return the RFC value (else
    FAIL), outside it the failure must be the one [ddd_expected] predicts and lie in the class of an open finding."""
    from icalendar.prop import vPeriod, vDDDTypes
    res, ctx = R.res, R.ctx
    rng = common.rng_for(ctx.seed, "c03-grammar-ddd")
    n = 12000 if ctx.big else 2200 * (1 + ctx.level)
    base = ["19970714", "00010101", "99991231", "20000229", "120000", "120000Z", "235960", "235960Z", "000000",
            "19970714T120000", "19970714T120000Z", "19970714T235960Z", "19970714T235960", "P1D", "+P1D", "-P1W", "PT0S",
            "P999999999DT23H59M59S", "-P999999999D", "P1000000000D", "-P999999999DT1S", "P999999999DT24H",
            "19970101T180000Z/19970102T070000Z", "19970101T180000Z/PT5H30M", "19970101T180000/P1W", "19970101T180000Z/-PT1H",
            "19970102T180000Z/19970101T070000Z", "19970101T180000/19970102T070000Z", "19970101T235960Z/PT1H",
            "19970101T180000Z/19970102T235960Z", "19970101T180000Z/P1000000000D", "19970101T180000Z/-P999999999DT1S",
            "19970101T180000Z/pt5h", "19970101t180000z/PT5H", "p1d", "19970714t120000z", "120000z", "19970101/19970102",
            "P1D/P2D", "120000/130000", "/", "", "19970101T180000Z/", "19970101T180000Z/19970102T070000Z/PT1H",
            "19970101T180000Z/PT1H\n", "19970101T180000Z/P1W2D", "19970101T180000Z/PT1H5S",
            "P" + "0" * 4290 + "1D", "P" + "0" * 4297 + "1D", "P" + "0" * 4298 + "1D", "P" + "0" * 4300 + "1D",
            "19970101T180000Z/P" + "0" * 4281 + "1D", "19970101T180000Z/P" + "0" * 4282 + "1D", "19970101T180000Z/P" + "0" * 4300 + "1D"]
    texts = list(base)
    for _ in range(n):
        for gen in (rand_date_text, rand_time_text, rand_datetime_text, rand_dur_text2, rand_period_text, rand_period_text):
            t = gen(rng)
            texts.append(t)
            if rng.randrange(2):
                texts.append(mutate_text(rng, t))
    seen = set()
    for t in texts:
        if t in seen:
            continue
        seen.add(t)
        rd = g_ddd_readings(t)
        if len(rd) > 1:
            R.fail("the harness's five grammars are not disjoint on a text (C03_ddd_grammars_disjoint says they are)", t, rd)
            continue
        g = rd[0] if rd else None
        kind = g[0] if g else "none"
        res.dist("grammar-ddd:" + kind)
        res.count(("grammar-ddd", t), nontrivial=g is not None)
        none = ["none"]
        short = len(t) <= 4300
        via = obs(lambda: vDDDTypes.from_ical(t), c_ddd)
        j = R.corr("vDDDTypes.from_ical", "ddd_from_ical", t, via)
        R.spec("ddd_value", t, big_ddd(g))
        cls = ddd_class(g) if g else None
        ig = R.corr("guard ddd_guard (extracted) vs harness reading", "ddd_guard", t,
                    none if g is None else int(cls is None and short))
        if g is not None and short:
            R.corr("C03_ddd_grammar_value_full: vDDDTypes.from_ical = ddd_expected on grammar-valid texts", "ddd_expected", t, via)
        per = jp = None
        if "/" in t:
            per = obs(lambda: vPeriod.from_ical(t), c_ddd)
            jp = R.corr("vPeriod.from_ical", "dec_period", t, per)
            gp = g if kind == "period" else None
            R.spec("period_value", t, big_ddd(gp))
            R.corr("guard ddd_guard (extracted) vs harness reading", "period_guard", t,
                   none if gp is None else int(cls is None and short))
            if gp is not None and short:
                R.corr("C03_period_grammar_value_full: vPeriod.from_ical = ddd_expected on grammar-valid texts", "period_expected", t, per)
        if g is not None:
            def decide(outs, t=t, g=g, via=via, per=per, cls=cls, j=j, jp=jp, ig=ig, short=short):
                inside = outs[ig] if (outs[ig] is not None and outs[ig] != ["unsupported"]) else int(cls is None and short)
                for what, got, ix in (("vDDDTypes.from_ical", via, j),) + ((("vPeriod.from_ical", per, jp),) if per is not None else ()):
                    if got == g:
                        if not inside and short:
                            R.fail("outside the guard, yet the RFC value is returned (C03_ddd_grammar_value_full says never)", t, got, g)
                        continue
                    if inside:
                        R.fail("grammar: a text valid for exactly one of DATE/DATE-TIME/TIME/DURATION/PERIOD, inside the guard of "
                               "C03_ddd_grammar_value, is not decoded to its RFC value by " + what, t, got, g)
                    elif cls is not None:
                        R.suspect(cls, "grammar-valid %s text outside the guard is not decoded to its value by %s" % (g[0], what),
                                  t, got, ix)
                    elif not short and got == ["err", "ValueError"]:
                        pass        # CPython's int() digit limit: the stated length bound, not a finding
                    else:
                        R.fail("grammar-valid text fails outside every recorded class (" + what + ")", t, got, g)
            R.later(decide)
        else:
            u = aupper(t)
            gu = g_ddd(u) if u != t else None
            R.corr("RFC recogniser ddd_grammar_ci (Coq) vs harness regex", "ddd_grammar_ci", t, int(g_ddd(u) is not None))
            if gu is not None and ddd_class(gu) is None and len(t) <= 4300 and via != gu:
                R.suspect("C03-F5", "text of the five kinds with a lower-case designator (RFC 5234 literals are case-insensitive) "
                                    "is not decoded", t, via, j)


def gen_ints(ctx):
    rng = common.rng_for(ctx.seed, "c03-int")
    vals = set(range(-1100, 1101))
    for k in range(0, 130):
        for d in (-2, -1, 0, 1, 2):
            vals.add(2 ** k + d)
            vals.add(-(2 ** k) + d)
    for k in range(0, 60):
        for d in (-1, 0, 1):
            vals.add(10 ** k + d)
            vals.add(-(10 ** k) + d)
    # around CPython's 4300-digit limit (a 4300-digit conversion costs the extracted model ~1.5 s: few in quick)
    for k in ((100, 1000, 4298, 4299, 4300, 4301) if ctx.big else (100, 1000)):
        vals.add(10 ** k)
        vals.add(10 ** k - 1)
        vals.add(-(10 ** k))
        vals.add(-(10 ** k) + 1)
    vals.add(10 ** 4300 - 1)
    vals.add(-(10 ** 4300))
    for _ in range(20000 if ctx.big else 4000 * (1 + 2 * ctx.level)):
        bits = rng.choice((8, 16, 31, 32, 33, 63, 64, 65, 128, 200))
        vals.add(rng.randrange(-(1 << bits), 1 << bits))
    return sorted(vals)


def sec_ints(R):
    from icalendar.prop import vInt
    res, ctx = R.res, R.ctx
    assert sys.get_int_max_str_digits() == 4300
    for z in gen_ints(ctx):
        res.dist("int:value")
        res.count(("int", hex(z)), nontrivial=True)
        t = obs(lambda: c_text(vInt(z).to_ical()))
        if abs(z) >= 10 ** 4300:
            # beyond CPython's int->str digit limit (outside the stated domain; cannot be put on the wire either):
            # the model's py_str_int predicts ValueError
            if t != ["err", "ValueError"]:
                R.fail("int: to_ical beyond the 4300-digit limit did not raise ValueError", hex(z)[:40], t)
            continue
        R.corr("vInt.to_ical", "enc_int", big_arg(z), t)
        if is_err(t):
            R.fail("int: to_ical raises", str(z)[:40], t)
            continue
        back = obs(lambda: vInt.from_ical(t), lambda x: c_big(int(x)))
        R.corr("vInt.from_ical", "dec_int", t, back)
        if back != c_big(z):
            R.fail("int round trip", str(z)[:60], back)
        if not INT_RE.fullmatch(t) or int(t) != z:
            R.fail("int: to_ical output is not an RFC integer denoting the value", str(z)[:60], t[:60])
    rng = common.rng_for(ctx.seed, "c03-int-text")
    texts = ["+1234567890", "-1234567890", "007", "+0", "-0", "+", "-", "", "1.5", "0x10", " 1", "1 ", "1_000", "１２", "1e3",
             "--1", "+-1", "2147483648", "-2147483649", "0" * 4300, "0" * 4301, "-" + "0_" * 4299 + "0", " " * 50 + "0" * 4300]
    if ctx.big:
        texts += ["+" + "9" * 4300, "9" * 4301]
    for _ in range(20000 if ctx.big else 3000):
        texts.append(rng.choice(("", "", "+", "-")) + "0" * rng.choice((0, 0, 1, 5)) + str(rng.randrange(10 ** rng.randrange(1, 40))))
    for t in texts:
        res.dist("int:text")
        res.count(("int-text", t), nontrivial=True)
        back = obs(lambda: vInt.from_ical(t), lambda x: c_big(int(x)))
        R.corr("vInt.from_ical", "dec_int", t, back)
        if INT_RE.fullmatch(t) and len(t) <= 4300:
            digits = t.lstrip("+-")
            val = 0
            for ch in digits:
                val = val * 10 + (ord(ch) - 48)
            if t[0] == "-":
                val = -val
            if back != c_big(val):
                R.fail("int grammar: a grammar-valid INTEGER text does not decode to its value", t[:60], back)


def sec_bools(R):
    from icalendar.prop import vBoolean
    res = R.res
    for b in (True, False):
        res.dist("bool:value")
        res.count(("bool", b), nontrivial=True)
        t = c_text(vBoolean(b).to_ical())
        back = obs(lambda: vBoolean.from_ical(t), lambda x: int(bool(x)))
        R.corr("vBoolean.to_ical", "enc_bool", int(b), t)
        R.corr("vBoolean.from_ical", "dec_bool", t, back)
        if back != int(b) or t not in ("TRUE", "FALSE"):
            R.fail("boolean round trip / grammar", b, [t, back])
    texts = set()
    for w in ("true", "false"):
        for mask in range(1 << len(w)):
            texts.add("".join(c.upper() if mask >> i & 1 else c for i, c in enumerate(w)))
    texts |= {"", "yes", "no", "1", "0", "TRUE ", " TRUE", "T", "TRU", "TRUEE", "FALS", "ſalse", "true\n", "ＴＲＵＥ"}
    for t in sorted(texts):
        res.dist("bool:text")
        res.count(("bool-text", t), nontrivial=True)
        back = obs(lambda: vBoolean.from_ical(t), lambda x: int(bool(x)))
        R.corr("vBoolean.from_ical", "dec_bool", t, back)
        if t.upper() in ("TRUE", "FALSE") and t.isascii() and back != int(t.upper() == "TRUE"):
            R.fail("boolean grammar: a (case-insensitive) TRUE/FALSE text does not decode to its value", t, back)


def sec_binary(R):
    from icalendar.prop import vBinary
    res, ctx = R.res, R.ctx
    rng = common.rng_for(ctx.seed, "c03-binary")
    c_bytes = lambda b: b.decode("latin-1")  # noqa: E731
    # the base64 layer on arbitrary octets
    octs = [bytes(range(256)), b"", b"\x00", b"\xff", b"\xff\xff", b"\xff\xff\xff", b"\x00\x00\x00\x00"]
    for n in range(0, 70):
        octs.append(bytes(rng.randrange(256) for _ in range(n)))
    for _ in range(20000 if ctx.big else 2500 * (1 + 2 * ctx.level)):
        octs.append(bytes(rng.randrange(256) for _ in range(rng.choice((1, 2, 3, 4, 5, 6, 7, 30, 57, 58, rng.randrange(200))))))
    for o in octs:
        res.dist("binary:octets")
        res.count(("octets", o), nontrivial=len(o) > 0)
        t = binascii.b2a_base64(o)[:-1].decode("ascii")
        R.corr("binascii.b2a_base64[:-1]", "b64_enc", c_bytes(o), t)
        back = obs(lambda: vBinary.from_ical(t), c_bytes)
        R.corr("vBinary.from_ical", "dec_binary", t, back)
        if back != c_bytes(o):
            R.fail("binary: base64 layer does not round trip", list(o), back)
        if not BIN_RE.fullmatch(t):
            R.fail("binary: encoder output is not RFC 5545 binary", list(o), t)
    # text payloads through vBinary (the value is str; what comes back is its UTF-8 octets)
    alph = ["a", "Z", "0", " ", "\n", "é", "ß", "€", "中", "\U0001F600", "\x00", "\x7f", "﻿", "߿", "ࠀ", "￿",
            "\U00010000", "\U0010ffff", "퟿", ""]
    texts = ["", "This is gibberish", "﻿A"] + alph
    for _ in range(20000 if ctx.big else 2500 * (1 + 2 * ctx.level)):
        texts.append("".join(rng.choice(alph) for _ in range(rng.randrange(0, 12))))
    texts += ["\ud800", "a\udfffb"]          # lone surrogates: not encodable (outside "strings of scalar values")
    for s in texts:
        res.dist("binary:text-payload")
        res.count(("binary-text", s), nontrivial=len(s) > 0)
        t = obs(lambda: c_text(vBinary(s).to_ical()))
        R.corr("vBinary(text).to_ical", "enc_binary", s, t)
        if is_err(t):
            if not any(0xD800 <= ord(c) <= 0xDFFF for c in s):
                R.fail("binary: to_ical raises", s, t)
            continue
        back = obs(lambda: vBinary.from_ical(t), c_bytes)
        R.corr("vBinary.from_ical", "dec_binary", t, back)
        if back != c_bytes(s.encode("utf-8")):
            R.fail("binary round trip: from_ical(to_ical(text)) is not the UTF-8 octets of text", s, back)
        if not BIN_RE.fullmatch(t):
            R.fail("binary: to_ical output is not RFC 5545 binary", s, t)
    # the same payloads given as UTF-8 bytes (implementation only: the bytes branch of the constructor, to_unicode with
    # 'utf-8-sig', is not modelled): open finding C03-F6 when the payload starts with the UTF-8 BOM
    for s in texts:
        if any(0xD800 <= ord(c) <= 0xDFFF for c in s):
            continue
        b = s.encode("utf-8")
        res.dist("binary:utf8-bytes-payload (implementation only)")
        res.count(("binary-bytes", b), nontrivial=len(b) > 0)
        back = obs(lambda: vBinary.from_ical(c_text(vBinary(b).to_ical())), c_bytes)
        if back != c_bytes(b):
            if b.startswith(b"\xef\xbb\xbf") and back == c_bytes(b[3:]):
                R.suspect("C03-F6", "vBinary(bytes) drops a leading UTF-8 BOM of the payload", {"payload_hex": b.hex()}, back, None)
            else:
                R.fail("binary round trip of a UTF-8 bytes payload", b.hex(), back, c_bytes(b))
    # grammar texts and malformed ones: the quirks of the non-strict decoder
    mal = ["QQ", "QQ=", "QQ==", "Q=Q=", "Q", "QUJD!!REVG", "QQ==QQ==", "=QQ==", "é", "QR==", "QUI=", "QUJ=", "====", "=", "Q===",
           "QUJD\n", "QU JD", "QUJDRA=\n="]
    a2 = ["A", "Q", "/", "+", "=", "!", " ", "z"]
    for n in range(0, 6 if ctx.big else 5):
        for tup in itertools.product(a2, repeat=n):
            mal.append("".join(tup))
    for _ in range(10000 if ctx.big else 1500):
        mal.append("".join(rng.choice("ABab01+/=\n x") for _ in range(rng.randrange(0, 14))))
    # texts from the grammar: any alphabet characters, so the last quantum is usually NOT canonical (its unused bits are
    # not zero); the same without padding, with the padding doubled, with something after it
    for _ in range(12000 if ctx.big else 1500):
        body = "".join(rng.choice(B64_ALPHABET) for _ in range(4 * rng.choice((0, 0, 1, 1, 2, 3, rng.randrange(12)))))
        tail = rng.choice(("", "", "xx==", "xxx=", "xx==", "xxx="))
        tail = "".join(rng.choice(B64_ALPHABET) if c == "x" else c for c in tail)
        t = body + tail
        mal.append(t)
        k = rng.randrange(6)
        if k == 0:
            mal.append(t.rstrip("="))
        elif k == 1:
            mal.append(t + rng.choice(("=", "==", "QQ==", "\n", "A")))
        elif k == 2 and t:
            mal.append(t[:-1])
    for t in mal:
        res.dist("binary:decoder-texts")
        res.count(("binary-dec", t), nontrivial=True)
        back = obs(lambda: vBinary.from_ical(t), c_bytes)
        R.corr("vBinary.from_ical", "dec_binary", t, back)
        gb = g_binary(t)
        R.spec("binary_value", t, None if gb is None else c_bytes(gb[0]))
        if gb is not None:
            # C03_binary_grammar_value (no guard): the RFC 4648 octets, canonical or not; re-encoding gives the text back
            # exactly when it is canonical
            res.dist("binary:grammar-text " + ("canonical" if gb[1] else "non-canonical"))
            R.B.add("RFC recogniser binary_canonical (Coq) vs harness bit arithmetic", "binary_canonical", t, int(gb[1]))
            want = obs(lambda: base64.b64decode(t, validate=True), c_bytes)
            if back != c_bytes(gb[0]) or back != want:
                R.fail("binary grammar: a grammar-valid BINARY text does not decode to the octets RFC 4648 assigns", t, back, c_bytes(gb[0]))
            else:
                again = binascii.b2a_base64(gb[0])[:-1].decode("ascii")
                if (again == t) != gb[1]:
                    R.fail("binary: re-encoding the decoded octets gives the text back iff it is canonical", t, again)
                elif g_binary(again) != (gb[0], True):
                    R.fail("binary: the re-encoded text is not the canonical text of the same octets", t, again)
        elif t and all(c in B64_ALPHABET for c in t) and len(t) % 4 != 0:
            res.dist("binary:missing padding")
            if back != ["err", "ValueError"]:       # C03_binary_unpadded
                R.fail("binary: alphabet characters without padding (length not a multiple of 4) are not refused", t, back)


def sec_weekdays(R):
    from icalendar.prop import vWeekday
    res, ctx = R.res, R.ctx

    def c_wd(x):
        return [str(x), ["none"] if x.relative is None else x.relative, x.weekday]

    for sign in ("", "+", "-"):
        for rel in [""] + [str(n) for n in range(0, 100)] + ["%02d" % n for n in range(0, 10)]:
            for wd in WEEKDAYS:
                for low in (False, True):
                    v = sign + rel + (wd.lower() if low else wd)
                    res.dist("weekday:value/text")
                    res.count(("weekday", v), nontrivial=True)
                    new = obs(lambda: vWeekday(v), c_wd)
                    R.corr("vWeekday(...)", "weekday_new", v, new)
                    back0 = obs(lambda: vWeekday.from_ical(v), c_wd)
                    R.corr("vWeekday.from_ical", "dec_weekday", v, back0)
                    n = int(rel) if rel else None
                    in_grammar = (rel == "" and sign == "") or (rel != "" and 1 <= n <= 53)
                    gw = g_weekday(v)
                    assert (gw is not None) == in_grammar, v
                    R.spec("weekday_value", v, gw)
                    if in_grammar:
                        want = [v.upper(), ["none"] if n is None else (-n if sign == "-" else n), wd]
                        if back0 != want:
                            R.fail("weekday grammar: a grammar-valid weekdaynum text does not decode to its value", v, back0, want)
                    if is_err(new) or low:
                        continue
                    t = c_text(vWeekday(v).to_ical())
                    R.corr("vWeekday.to_ical", "enc_weekday", v, t)
                    back = obs(lambda: vWeekday.from_ical(t), c_wd)
                    if back != new:
                        R.fail("weekday round trip", v, back, new)
                    if in_grammar and not re.fullmatch(r"([+-]?[0-9]{1,2})?(SU|MO|TU|WE|TH|FR|SA)", t):
                        R.fail("weekday: to_ical output is not an RFC weekdaynum", v, t)
    rng = common.rng_for(ctx.seed, "c03-weekday")
    mal = ["MO\n", "MO\n\n", "+\n", "123", "1234", "12345", "MON", "M", "", "++MO", "1+MO", "_O", "MO ", " MO", "1 MO", "M0", "１MO",
           "ＭＯ", "ſu", "-MO", "100MO", "1_MO", "SU\nMO"]
    for _ in range(3000 if ctx.big else 600):
        wd = rng.choice(WEEKDAYS + ["MO", "SU", "XX", "M", "MON", "SO"])
        wd = "".join(c.lower() if rng.randrange(3) == 0 else c for c in wd)
        mal.append(rng.choice(("", "", "+", "-", "+-", " ")) + rng.choice(("", str(rng.randrange(0, 120)), "%02d" % rng.randrange(0, 60),
                                                                        "%03d" % rng.randrange(0, 60))) + wd + rng.choice(("", "", "", "\n", " ")))
    al = ["M", "O", "S", "U", "m", "1", "0", "+", "-", "_", "\n", " "]
    for n in range(0, 5 if ctx.big else 4):
        for tup in itertools.product(al, repeat=n):
            mal.append("".join(tup))
    for _ in range(3000 if ctx.big else 500):
        mal.append("".join(rng.choice(al) for _ in range(rng.randrange(4, 7))))
    for v in mal:
        res.dist("weekday:malformed-or-near")
        res.evaluations += 1
        R.corr("vWeekday(...)", "weekday_new", v, obs(lambda: vWeekday(v), c_wd))
        back0 = obs(lambda: vWeekday.from_ical(v), c_wd)
        R.corr("vWeekday.from_ical", "dec_weekday", v, back0)
        gw = g_weekday(v)
        R.spec("weekday_value", v, gw)
        if gw is not None and back0 != [aupper(v)] + gw:      # C03_weekday_grammar_value has no guard
            R.fail("weekday grammar: a grammar-valid weekdaynum text does not decode to its value", v, back0, [aupper(v)] + gw)


def sec_freqs(R):
    from icalendar.prop import vFrequency
    res, ctx = R.res, R.ctx
    rng = common.rng_for(ctx.seed, "c03-freq")
    texts = []
    for f in FREQS:
        texts += [f, f.lower(), f.capitalize(), f + " ", " " + f, f[:-1], f + "Y", f.replace("L", "l")]
        for _ in range(20):
            texts.append("".join(c.upper() if rng.randrange(2) else c.lower() for c in f))
    texts += ["", "FORTNIGHTLY", "DAILY\n", "ＤＡＩＬＹ", "daıly"]
    for v in texts:
        res.dist("frequency:value/text")
        res.count(("freq", v), nontrivial=True)
        new = obs(lambda: str(vFrequency(v)))
        R.corr("vFrequency(...)", "freq_new", v, new)
        back0 = obs(lambda: str(vFrequency.from_ical(v)))
        R.corr("vFrequency.from_ical", "dec_freq", v, back0)
        if v.upper() in FREQS and v.isascii() and back0 != v.upper():
            R.fail("frequency grammar: a (case-insensitive) freq text does not decode to its value", v, back0)
        if not is_err(new) and v.isascii():
            t = c_text(vFrequency(v).to_ical())
            R.corr("vFrequency.to_ical", "enc_freq", v, t)
            back = obs(lambda: str(vFrequency.from_ical(t)))
            if back != v.upper() or t not in FREQS:
                R.fail("frequency round trip / grammar", v, [t, back])


def sec_months(R):
    from icalendar.prop import vMonth
    res, ctx = R.res, R.ctx
    c_m = lambda x: [c_big(int(x)), int(bool(x.leap))]  # noqa: E731
    for n in list(range(0, 130)) + [999, 1000, 10 ** 18, 10 ** 30]:
        for leap in (False, True):
            res.dist("month:value")
            res.count(("month", n, leap), nontrivial=True)
            v = vMonth(str(n) + ("L" if leap else ""))
            t = c_text(v.to_ical())
            R.corr("vMonth.to_ical", "enc_month", [big_arg(n), int(leap)], t)
            back = obs(lambda: vMonth.from_ical(t), c_m)
            R.corr("vMonth.from_ical", "dec_month", t, back)
            if back != [c_big(n), int(leap)]:
                R.fail("month round trip", [n, leap], back)
            if 1 <= n <= 12 and not re.fullmatch(r"[0-9]{1,2}L?", t):
                R.fail("month: to_ical output is not monthnum [L]", [n, leap], t)
    texts = ["01", "012", "1L", "12L", "00", "0", "13", "1l", "L", "", "LL", "5LL", "5X", "XL", "X5", "-5", "-5L", " 5L", "+5L", "1_0L",
             "1_0", " 5", "5 ", "5 L", "٥", "²", "5\n", "5L\n"]
    al = ["0", "1", "5", "L", " ", "-", "+", "_", "x"]
    for n in range(0, 5 if ctx.big else 4):
        for tup in itertools.product(al, repeat=n):
            texts.append("".join(tup))
    for t in texts:
        res.dist("month:text")
        res.count(("month-text", t), nontrivial=True)
        back = obs(lambda: vMonth.from_ical(t), c_m)
        R.corr("vMonth.from_ical", "dec_month", t, back)
        mm = re.fullmatch(r"([0-9]{1,2})(L?)", t)
        if mm and 1 <= int(mm[1]) <= 12 and back != [int(mm[1]), int(bool(mm[2]))]:
            R.fail("month grammar: a grammar-valid monthnum text does not decode to its value", t, back)


def sec_uris(R):
    from icalendar.prop import vUri, vCalAddress
    res, ctx = R.res, R.ctx
    rng = common.rng_for(ctx.seed, "c03-uri")
    vals = ["http://example.com/my-report.txt", "mailto:jane_doe@example.com", "MAILTO:a@b", "urn:uuid:1-2", "x:", "a+b.c-d:é€",
            "http://exämple.com/\U0001F600?q=1#f", "CID:part3.msg.970415T083000@example.com", "", "no scheme", ":x"]
    al = ["a", "Z", ":", "/", "?", "#", "%", "2", "C", ",", ";", "\\", "\"", " ", "é", "€", "\U0001F600"]
    for _ in range(5000 if ctx.big else 800):
        vals.append("".join(rng.choice(al) for _ in range(rng.randrange(0, 20))))
    for s in vals:
        for cls, enc, dec in ((vUri, "enc_uri", "dec_uri"), (vCalAddress, "enc_uri", "dec_uri")):
            res.dist("uri/cal-address:value")
            res.count((cls.__name__, s), nontrivial=len(s) > 0)
            t = c_text(cls(s).to_ical())
            back = obs(lambda: str(cls.from_ical(t)))
            R.corr(cls.__name__ + ".to_ical", enc, s, t)
            R.corr(cls.__name__ + ".from_ical", dec, t, back)
            if back != s or t != s:
                R.fail(cls.__name__ + " round trip / text is the URI itself", s, [t, back])


def float_has_exponent(x):
    return x != 0 and (abs(x) >= 1e16 or abs(x) < 1e-4)


def sec_floats(R):
    """implementation only: no Coq model of repr/float"""
    from icalendar.prop import vFloat, vGeo
    res, ctx = R.res, R.ctx
    rng = common.rng_for(ctx.seed, "c03-float")
    vals = [0.0, -0.0, 1.0, -1.0, 0.1, 1000000.0000001, 1.333, -3.14, 37.386013, -122.082932, 1e15, 9999999999999998.0, 1e16,
            1.5e16, 1e22, 1e23, 1e100, 1.7976931348623157e308, 0.0001, 0.00011, 9.999e-5, 1e-5, 5e-324, 2.2250738585072014e-308,
            123456789.123456789, 0.30000000000000004, 2.0 ** 53, 2.0 ** 53 + 2, float(2 ** 63), 1 / 3]
    for k in range(-30, 31):
        vals += [10.0 ** k, -(10.0 ** k), 3.0 * 10.0 ** k]
    for _ in range(40000 if ctx.big else 8000 * (1 + 2 * ctx.level)):
        kind = rng.randrange(4)
        if kind == 0:
            x = struct.unpack("<d", struct.pack("<Q", rng.getrandbits(64)))[0]
        elif kind == 1:
            x = rng.uniform(-180, 180)
        elif kind == 2:
            x = round(rng.uniform(-1e6, 1e6), rng.randrange(0, 8))
        else:
            x = rng.uniform(-1, 1) * 10.0 ** rng.randrange(-8, 20)
        if math.isfinite(x):
            vals.append(x)
    for x in vals:
        res.dist("float:value (implementation only)")
        res.count(("float", x.hex()), nontrivial=True)
        t = c_text(vFloat(x).to_ical())
        back = obs(lambda: float(vFloat.from_ical(t)).hex())
        if back != x.hex():
            R.fail("float round trip (float.hex comparison)", x.hex(), back, x.hex())
        if not FLOAT_RE.fullmatch(t):
            if float_has_exponent(x) and t == repr(x) and ("e" in t):
                R.suspect("C03-F3", "vFloat.to_ical emits exponent notation, not RFC 5545 float", {"float": x.hex(), "text": t}, t, None)
            else:
                R.fail("float: to_ical output is not RFC 5545 float", x.hex(), t)
        else:
            fr = Fraction(t)
            if fr.numerator / fr.denominator != x:     # int / int is correctly rounded; -0 denotes 0
                R.fail("float: the decimal written by to_ical is not nearest to the value", x.hex(), t)
    # GEO = float ";" float
    geo = [(37.386013, -122.082932), (0.0, 0.0), (-90.0, 180.0), (1e-5, 1e22), (12.5, 1e-7)]
    for _ in range(10000 if ctx.big else 1500):
        geo.append((round(rng.uniform(-90, 90), rng.randrange(0, 8)), round(rng.uniform(-180, 180), rng.randrange(0, 8))))
    for la, lo in geo:
        res.dist("geo:value (implementation only)")
        res.count(("geo", la.hex(), lo.hex()), nontrivial=True)
        t = c_text(vGeo((la, lo)).to_ical())
        back = obs(lambda: [v.hex() for v in vGeo.from_ical(t)])
        if back != [la.hex(), lo.hex()]:
            R.fail("geo round trip", [la.hex(), lo.hex()], back)
        p = t.split(";")
        if not (len(p) == 2 and all(FLOAT_RE.fullmatch(q) for q in p)):
            if (float_has_exponent(la) or float_has_exponent(lo)) and t == f"{la!r};{lo!r}":
                R.suspect("C03-F3", "vGeo.to_ical emits exponent notation, not RFC 5545 float", {"geo": [la, lo], "text": t}, t, None)
            else:
                R.fail("geo: to_ical output is not float;float", [la.hex(), lo.hex()], t)
    # grammar texts: float(t) must be the correctly rounded value of the decimal
    texts = ["1000000.0000001", "1.333", "+1.333", "-3.14", "0", "-0", "+0.0", "007.500", "1", "123456789012345678901234567890",
             "0.1", "0.30000000000000004", "179769313486231570000000000000000000000.5"]
    for _ in range(20000 if ctx.big else 3000):
        t = rng.choice(("", "", "+", "-")) + "".join(rng.choice("0123456789") for _ in range(rng.randrange(1, 25)))
        if rng.randrange(3):
            t += "." + "".join(rng.choice("0123456789") for _ in range(rng.randrange(1, 25)))
        texts.append(t)
    for t in texts:
        res.dist("float:grammar-text (implementation only)")
        res.count(("float-text", t), nontrivial=True)
        back = obs(lambda: float(vFloat.from_ical(t)))
        fr = Fraction(t)
        want = fr.numerator / fr.denominator        # int / int true division is correctly rounded
        if is_err(back) or back != want:
            R.fail("float grammar: a grammar-valid FLOAT text is not read as the nearest double", t, back, want.hex())
    for t in ["", "1e5", "inf", "nan", "1,5", "1.", ".5", "1_0.5", " 1.5", "1.5 ", "0x1p3", "１.５"]:
        res.dist("float:malformed-or-near (implementation only)")
        res.evaluations += 1
        obs(lambda: float(vFloat.from_ical(t)))     # must not raise anything but ValueError:
        try:
            vFloat.from_ical(t)
        except ValueError:
            pass


SECTIONS = [sec_int_builtin, sec_dates, sec_times, sec_datetimes, sec_durations, sec_offsets, sec_periods, sec_grammar_ddd, sec_ints,
            sec_bools, sec_binary, sec_weekdays, sec_freqs, sec_months, sec_uris, sec_floats]


def run(ctx, res):
    res.rule = ("per value type: every value of the domain sampled as DESIGN.md 6/C03 says (dates: 1-in-97 stride + every "
                "month end of years 1-9999 [all 3.65 M in thorough]; every second of the day; every UTC offset of whole seconds with "
                "|offset| < 24 h; durations on the "
                "boundary lattice + random up to 46 bits + the timedelta limits; integers at powers of 2 and 10 +-2, the "
                "4300-digit limit, random up to 200 bits; random octet strings and Unicode payloads for base64), each through "
                "to_ical, from_ical and vDDDTypes.from_ical; grammar-generated texts per type with the value the RFC assigns; "
                "a separate malformed/near-miss stream per type (correspondence only); texts generated from the five vDDDTypes grammars "
                "(DATE, DATE-TIME, TIME, DURATION, PERIOD; leap seconds, Z, over-range and 4300-character durations) with their mutations "
                "and case variants, each through vDDDTypes.from_ical and (with a '/') vPeriod.from_ical, classified by the extracted guard "
                "ddd_guard; base64 texts over the whole alphabet (canonical and not), unpadded and over-padded. non-trivial = every value/text case "
                "except the empty/zero ones and the malformed stream; distinct by (type, value or text)")
    import time as _time
    R = Run(ctx, res)
    walls = {}
    for sec in SECTIONS:
        t0 = _time.time()
        sec(R)
        walls[sec.__name__] = round(_time.time() - t0, 2)
    t0 = _time.time()
    R.finish()
    walls["model batch (%d calls)" % len(R.B.items)] = round(_time.time() - t0, 2)
    res.extra["section_wall_s"] = walls
    # zoned DATE-TIME values (their zones are C11's subject; here: the DATE-TIME text is the value's own wall clock also when
    # an equal instant in another zone was encoded before, alone, in a list and in a period; decoding with the zone gives it back)
    import zoneinfo
    from icalendar.prop import vDatetime as _vDT, vDDDTypes as _vDDD, vDDDLists as _vDL, vPeriod as _vP
    for inst in (datetime(2021, 3, 2, 10, 15, 0, tzinfo=UTC), datetime(2021, 7, 1, 23, 30, 0, tzinfo=UTC),
                 datetime(2024, 1, 10, 12, 0, 0, tzinfo=UTC), datetime(1999, 12, 31, 23, 59, 59, tzinfo=UTC)):
        for zname in ("Europe/Berlin", "America/New_York", "Asia/Tokyo", "Europe/London", "Asia/Kolkata", "UTC",
                      "Australia/Lord_Howe", "Africa/Abidjan"):
            v = inst.astimezone(zoneinfo.ZoneInfo(zname))
            want = v.strftime("%Y%m%dT%H%M%S") + ("Z" if zname == "UTC" else "")
            later = v + timedelta(hours=2)
            want2 = later.strftime("%Y%m%dT%H%M%S") + ("Z" if zname == "UTC" else "")
            got = {"vDatetime": c_text(_vDT(v).to_ical()), "vDDDTypes": c_text(_vDDD(v).to_ical()),
                   "vDDDLists": c_text(_vDL([v, later]).to_ical()), "vPeriod": c_text(_vP((v, later)).to_ical())}
            exp = {"vDatetime": want, "vDDDTypes": want, "vDDDLists": want + "," + want2, "vPeriod": want + "/" + want2}
            res.evaluations += 1
            res.count(("zoned", inst.isoformat(), zname), nontrivial=zname != "UTC")
            back = _vDT.from_ical(want, None if zname == "UTC" else zname)
            if got != exp or back.replace(tzinfo=None) != v.replace(tzinfo=None) or back.utcoffset() != v.utcoffset():
                res.fail("C03 DATE-TIME: a zoned value is not written as its own wall clock (or not read back with its zone)",
                         [inst.isoformat(), zname], observed=[got, str(back)], expected=[exp, str(v)])
    from icalendar.prop import vDuration, vDatetime, vUTCOffset
    res.sample({"type": "DURATION", "value_s": -93784, "text": c_text(vDuration(timedelta(seconds=-93784)).to_ical()),
                "back": c_td(vDuration.from_ical(c_text(vDuration(timedelta(seconds=-93784)).to_ical())))})
    res.sample({"type": "DATE-TIME", "text": c_text(vDatetime(datetime(1997, 7, 14, 23, 59, 59, tzinfo=UTC)).to_ical())})
    res.sample({"type": "UTC-OFFSET", "value_s": -18030, "text": vUTCOffset(timedelta(seconds=-18030)).to_ical()})
    res.notes.append("vFloat / vGeo: implementation-level oracle only (no Coq model of IEEE-754 repr); everything else: "
                     "model correspondence + theorems of Props/C03.v")


# ------------------------------------------------------------------------------ replay
def replay(ctx, data):
    """re-runs a recorded input: tries it as text through every decoder and, where it denotes a value, through the
    encoders; prints the implementation's and the model's observations"""
    from icalendar import prop
    inp = data.get("input")
    if isinstance(data.get("disagreement"), dict):
        inp = data["disagreement"].get("input")
    print("input:", repr(inp)[:300])
    M = ctx.model
    if isinstance(inp, list) and len(inp) == 2 and isinstance(inp[0], str) and inp[0].islower() and "_" in inp[0]:
        fname, arg = inp
        print("model %s:" % fname, M.call(fname, arg) if M else "(no model)")
        inp = arg
    if isinstance(inp, dict):
        inp = inp.get("text", inp.get("s", str(inp)))
    if isinstance(inp, str):
        for cls, canon, mf in ((prop.vDate, c_date, "dec_date"), (prop.vDatetime, c_dt, "dec_datetime"), (prop.vTime, c_time, "dec_time"),
                               (prop.vDuration, c_td, "dec_dur"), (prop.vUTCOffset, c_td, "dec_offset"), (prop.vPeriod, c_ddd, "dec_period"),
                               (prop.vDDDTypes, c_ddd, "ddd_from_ical"), (prop.vInt, lambda x: c_big(int(x)), "dec_int"),
                               (prop.vBoolean, lambda x: int(bool(x)), "dec_bool"), (prop.vBinary, lambda b: b.decode("latin-1"), "dec_binary"),
                               (prop.vWeekday, str, "dec_weekday"), (prop.vFrequency, str, "dec_freq"), (prop.vMonth, str, "dec_month"),
                               (prop.vFloat, lambda x: float(x).hex(), None)):
            o = obs(lambda: cls.from_ical(inp), canon)
            m = M.call(mf, inp) if (M and mf) else None
            print(f"{cls.__name__}.from_ical: impl={o!r}"[:200], "" if mf is None else f" model {mf}={m!r}"[:200])
        if M:       # the RFC readings, the extracted guard and the prediction of the grammar => value theorems
            for mf in ("ddd_value", "ddd_guard", "ddd_expected", "period_value", "weekday_value", "binary_value", "binary_canonical"):
                print(f"model {mf}: {M.call(mf, inp)!r}"[:200])
        print("harness readings:", {"ddd": g_ddd_readings(inp), "weekdaynum": g_weekday(inp), "binary": g_binary(inp)})
    elif isinstance(inp, int):
        print("vDuration:", obs(lambda: c_text(prop.vDuration(timedelta(seconds=inp)).to_ical())), "model:", M.call("enc_dur", inp) if M else None)
        print("vUTCOffset:", obs(lambda: c_text(prop.vUTCOffset(timedelta(seconds=inp)).to_ical())), "model:", M.call("enc_offset", inp) if M else None)
        print("vInt:", obs(lambda: c_text(prop.vInt(inp).to_ical())), "model:", M.call("enc_int", big_arg(inp)) if M else None)
