"""C09 -- parse result is invariant under line endings, BOM, str/bytes, folds, name case."""
import re

from . import common
from . import treelib as T

FINGERPRINTS = ["cal.Component.from_ical", "parser.Contentlines.from_ical", "parser.Contentline.parts",
                "parser.Parameters.from_ical", "prop.TypesFactory.for_property"]
GEN = ["Gen_parser", "Gen_cal"]
ASSUMPTIONS = [
    "well-formed input: no CR/LF inside a content line, lines start with a name; folds are placed strictly between two "
    "characters of a content line (position 0 excluded: RFC 5545 folds between characters)",
    "the byte-level clauses (UTF-8 BOM, bytes versus str) have no Coq model (the model starts at code points): checked on "
    "the implementation only",
]
TRUSTED = []


def logical_lines(text):
    unfolded = re.sub("(\r?\n)+[ \t]", "", text)
    return [l for l in re.split("\r?\n", unfolded) if l]


def segment(rng, line, p):
    """split a logical line into segments at random inner positions"""
    cuts = sorted({i for i in range(1, len(line)) if rng.random() < p})
    segs, prev = [], 0
    for c in cuts:
        segs.append(line[prev:c])
        prev = c
    segs.append(line[prev:])
    return segs


def layout(segs_list, nl, ws, blanks):
    return "".join((nl + ws).join(segs) + nl for segs in segs_list) + nl * blanks


def recase(rng, line):
    """change the case of BEGIN/END, component names, property names and parameter names (never values)"""
    def flip(s):
        return "".join(c.upper() if rng.random() < 0.5 else c.lower() for c in s)
    m = re.match(r"^([A-Za-z0-9-]+)((?:;[A-Za-z0-9-]+=(?:\"[^\"]*\"|[^;:,\"]*)(?:,(?:\"[^\"]*\"|[^;:,\"]*))*)*):(.*)$", line, re.S)
    if not m:
        return line
    name, params, value = m.group(1), m.group(2), m.group(3)
    if name.upper() in ("BEGIN", "END"):
        return flip(name) + params + ":" + flip(value)
    params = re.sub(r";([A-Za-z0-9-]+)=", lambda mm: ";" + flip(mm.group(1)) + "=", params)
    return flip(name) + params + ":" + value


def name_mask(line):
    """Model/Rewrite.v name_positions on the raw line: letters of the property name and of parameter names (outside
    quoted strings, before the first ':' that does not follow a backslash, not between '=' and the next ';');
    second result: the positions after that ':' (the value)"""
    bs = inq = False
    ph = "N"
    names, value = [], []
    for c in line:
        letter = ("a" <= c <= "z") or ("A" <= c <= "Z")
        names.append(letter and not inq and ph in "NK")
        value.append(ph == "V")
        live = not inq and not bs
        if ph != "V":
            if c == ":" and live:
                ph = "V"
            elif c == ";" and live:
                ph = "K"
            elif c == "=" and not inq and ph == "K":
                ph = "P"
        bs = c == "\\"
        if c == '"':
            inq = not inq
    return names, value


def parts_obs(line):
    """what C09_line_case compares: exception class, or (upper-cased name, parameters, value text)"""
    from icalendar.parser import Contentline
    try:
        n, p, v = Contentline(line).parts()
        return ["ok", n.upper(), [[k, p[k]] for k in p], v]
    except Exception as e:
        return ["err", common.exc_class(e)]


def obs_with_offsets(comps):
    """the tree observation plus, for date-time values, the UTC offset the provider assigns"""
    out = []

    def walk(c):
        row = []
        for k in c.keys():
            e = c[k]
            for v in (e if isinstance(e, list) else [e]):
                dt = getattr(v, "dt", None)
                off = None
                try:
                    if hasattr(dt, "utcoffset") and dt.utcoffset() is not None:
                        off = int(dt.utcoffset().total_seconds())
                except Exception:  # noqa: BLE001
                    off = "err"
                row.append([k, off])
        return [T.obs_comp(c)[:2], row, [walk(s) for s in c.subcomponents]]
    return [walk(c) for c in comps]


def run(ctx, res):
    import icalendar
    M = ctx.model
    known = ctx.known
    rng = common.rng_for(ctx.seed, "c09")
    texts = []
    for name, data in T.fixtures():
        try:
            t = data.decode("utf-8-sig")      # the text without a byte-order mark
        except UnicodeDecodeError:
            continue
        texts.append(("fixture:" + name, t))
    for i in range(400 if ctx.big else 60 * (1 + 3 * ctx.level)):
        texts.append((f"generated{i}", T.gen_calendar(rng)))
    res.rule = ("well-formed calendars (all fixtures that parse, generated calendars) x rewrites: LF for CRLF, leading UTF-8 BOM "
                "on bytes, str for bytes, re-folding every logical line at random inner positions with SPACE or TAB (dense and "
                "sparse), 0-3 trailing blank lines, random letter case of BEGIN/END, component, property and parameter names, and "
                "compositions; under both time-zone providers; plus random lines over the delimiter alphabet (malformed included) with "
                "letters flipped at the name positions of Model/Rewrite.v, compared through Contentline.parts; non-trivial = the rewritten text differs from the original; "
                "distinct by (text, rewrite)")
    reqs, post = [], []
    n_pairs = 0
    for provider in ("zoneinfo", "pytz"):
        getattr(icalendar, "use_" + provider)()
        try:
            for label, text in texts:
                # every parse starts from an empty time-zone cache: the cache is process-wide state (C12), and a text whose
                # event precedes its VTIMEZONE reads differently once an earlier parse has left the zone behind
                fresh = getattr(icalendar, "use_" + provider)
                fresh()
                base, _, comps = T.impl_parse(text.encode("utf-8"), multiple=True)
                if comps is None or not comps:
                    continue
                lines = logical_lines(text)
                if any("\r" in l for l in lines):
                    continue            # a stray CR inside a line: outside the well-formed domain
                base_obs = obs_with_offsets(comps)
                base_ser = [T.impl_ser(c) for c in comps]
                if len(lines) % 2 == 0:
                    # the first tree belongs to the caller: whatever is done to it, the rewritten texts still parse to what it was
                    for c in comps:
                        try:
                            T.scramble(c)
                        except Exception:  # noqa: BLE001
                            pass
                variants = []
                variants.append(("lf", layout([[l] for l in lines], "\n", " ", 0).encode("utf-8")))
                variants.append(("bom", b"\xef\xbb\xbf" + text.encode("utf-8")))
                variants.append(("str", text))
                for dens, nl, ws in ((0.3, "\r\n", " "), (0.05, "\r\n", "\t"), (0.1, "\n", "\t"), (0.02, "\n", " ")):
                    segs = [segment(rng, l, dens) for l in lines]
                    variants.append((f"refold p={dens} nl={nl!r} ws={ws!r}", layout(segs, nl, ws, rng.randrange(0, 4)).encode("utf-8")))
                variants.append(("blank", (layout([[l] for l in lines], "\r\n", " ", 3)).encode("utf-8")))
                rc = [recase(rng, l) for l in lines]
                for l0, l1 in zip(lines, rc):     # the rewrite stays inside line_variant (hypothesis of C09_parse_case_layout)
                    names, value = name_mask(l0)
                    be = l0.split(":")[0].split(";")[0].upper() in ("BEGIN", "END") and "%" not in l0
                    if len(l0) != len(l1) or any(a != b and not (nm or (be and vl)) for a, b, nm, vl in zip(l0, l1, names, value)):
                        raise RuntimeError("C09 harness: recase left the name positions of Model/Rewrite.v: %r -> %r" % (l0, l1))
                variants.append(("recase", layout([[l] for l in rc], "\r\n", " ", 0).encode("utf-8")))
                segs = [segment(rng, l, 0.1) for l in rc]
                variants.append(("recase+refold+lf+bom", b"\xef\xbb\xbf" + layout(segs, "\n", "\t", 2).encode("utf-8")))
                for what, v in variants:
                    vt = v.decode("utf-8-sig") if isinstance(v, bytes) else v
                    res.count((label, what, vt), nontrivial=(vt != text))
                    res.dist(what.split(" ")[0])
                    fresh()
                    o, log, vc = T.impl_parse(v, multiple=True)
                    n_pairs += 1
                    ok = vc is not None and obs_with_offsets(vc) == base_obs and [T.impl_ser(c) for c in vc] == base_ser
                    if not ok:
                        res.fail(f"C09 ({provider}): parse result changes under an insignificant rewrite [{what}]",
                                 {"label": label, "rewrite": what, "text": text[:1500], "rewritten": vt[:1500]},
                                 observed=str(o)[:600], expected=str(base)[:600])
                    if provider == "zoneinfo" and M and (what.startswith("refold") or what in ("lf", "blank", "recase")) and len(vt) < 6000:
                        from icalendar.parser import Contentlines
                        reqs.append(("contentlines_from_ical", vt))
                        post.append(("Contentlines.from_ical", vt[:300], [str(x) for x in Contentlines.from_ical(vt) if x]))
                        reqs.append(T.parse_req(vt, True, log))
                        post.append(("Component.from_ical_on_rewritten_text", vt[:300], o))
        finally:
            icalendar.use_zoneinfo()
    # C09_line_case on arbitrary lines (malformed ones included): flipping letters at the name positions never changes
    # what Contentline.parts returns
    lrng = common.rng_for(ctx.seed, "c09-lines")
    alpha = ["\\", ",", ":", ";", '"', "=", "a", "B", "%", "2", "C", "3", "A", "5", "-", " ", "x", "\u00e9"]
    for i in range(200000 if ctx.big else 15000 * (1 + ctx.level)):
        line = "".join(lrng.choice(alpha) for _ in range(lrng.randint(1, 14)))
        names, _ = name_mask(line)
        line2 = "".join(c.swapcase() if (nm and lrng.random() < 0.6) else c for c, nm in zip(line, names))
        res.count(("line", line, line2), nontrivial=(line2 != line))
        res.dist("line-case")
        a, b = parts_obs(line), parts_obs(line2)
        if a != b:
            res.fail("C09: Contentline.parts changes when only names are written in another letter case",
                     {"label": "line", "rewrite": "line-case", "text": line, "rewritten": line2}, observed=str(b), expected=str(a))
    outs = M.batch(reqs) if (M and reqs) else None
    if outs is not None:
        for (target, inp, impl), m in zip(post, outs):
            res.corr(target, inp, impl, m)
    res.extra["rewrite_pairs"] = n_pairs
    res.sample({"original": texts[-1][1][:300], "rewritten (recase)": "\r\n".join(recase(rng, l) for l in logical_lines(texts[-1][1]))[:300]})


def replay(ctx, data):
    d = data["input"]
    if d.get("label") == "line":
        print("original :", parts_obs(d["text"]))
        print("rewritten:", parts_obs(d["rewritten"]))
        return
    print("original :", T.impl_parse(d["text"])[0])
    print("rewritten:", T.impl_parse(d["rewritten"])[0])
