"""C02 -- a calendar built through the API survives serialise and parse intact."""
from datetime import date, datetime, time, timedelta, timezone

from . import common
from . import treelib as T

FINGERPRINTS = ["cal.Component.add", "cal.Component._encode", "cal.Component.from_ical", "cal.Component.property_items",
                "prop.TypesFactory.for_property"]
GEN = ["Gen_parser", "Gen_cal"]
ASSUMPTIONS = [
    "typed values are (class, parameters, wire text); that decoding the wire text gives back an equal Python value is C03/C07/"
    "C19 (here it is additionally observed on the implementation for every generated value)",
    "RFC 5545 default value types: the table Model/Api.v rfc5545_types, written by hand from sections 3.7-3.8",
]
TRUSTED = []

RFC_DEFAULT = {"DATE-TIME": ("DTSTART", "DTEND", "DUE", "COMPLETED", "RECURRENCE-ID", "CREATED", "DTSTAMP", "LAST-MODIFIED", "EXDATE", "RDATE"),
               "DURATION": ("DURATION", "TRIGGER"), "PERIOD": ("FREEBUSY",)}


def zi(name):
    import zoneinfo
    return zoneinfo.ZoneInfo(name)


def value_menu(rng):
    """(property name, python value, kind)"""
    import icalendar
    from icalendar.prop import vUri, vCalAddress, vRecur, vGeo, vUTCOffset, vBinary, vBoolean, vFloat
    z = rng.choice(["Europe/Berlin", "America/New_York", "Asia/Tokyo", "Etc/UTC", "Zulu", "UCT", "Etc/GMT+5", "Africa/Monrovia"])
    # mostly ordinary years, sometimes a boundary of the four-digit year field (1, 99, 999, 1000, 9999)
    y = rng.randrange(1990, 2035) if rng.random() < 0.85 else rng.choice([2, 7, 99, 814, 999, 1000, 1582, 9998])
    dt = datetime(y, rng.randrange(1, 13), rng.randrange(1, 28), rng.randrange(24), rng.randrange(60), rng.randrange(60))
    gap = rng.choice([("Europe/Berlin", datetime(2024, 3, 31, 2, 30)), ("America/New_York", datetime(2024, 3, 10, 2, 30)),
                      ("Australia/Lord_Howe", datetime(2024, 10, 6, 2, 15)), ("Europe/Berlin", datetime(2024, 10, 27, 2, 30))])
    menu = [
        # a wall clock the zone skips (or repeats): the value supplied is what must come back
        ("dtstart", gap[1].replace(tzinfo=zi(gap[0])), "zoned"), ("exdate", [gap[1].replace(tzinfo=zi(gap[0]))], "list-zoned"),
        ("summary", rng.choice(["Meeting", "a;b,c", "line1\nline2", "é€😀", "", "x" * 100]), "text"),
        ("description", "some text " + "y" * rng.randrange(0, 120), "text"),
        ("description", "é" * rng.randrange(0, 40) + "x" * rng.randrange(0, 80) + rng.choice(["\ufeff", "\u2028", "€", "\U0001F600"]) + "tail", "text"),
        ("comment", rng.choice(["c1", "c2", "c,3"]), "text"), ("comment", ["c4", "c;5"], "text"),
        ("attendee", [vCalAddress("mailto:l1@example.com"), vCalAddress("mailto:l2@example.com")], "caladdress"),
        ("x-custom", "v", "text"), ("location", "Zürich", "text"),
        ("priority", rng.randrange(0, 10), "int"), ("sequence", rng.randrange(0, 100), "int"),
        ("dtstart", dt, "naive"), ("dtstart", dt.date(), "date"), ("dtstart", dt.replace(tzinfo=timezone.utc), "utc"),
        ("dtstart", dt.replace(tzinfo=zi(z)), "zoned"), ("dtend", dt.replace(tzinfo=zi(z)) + timedelta(hours=1), "zoned"),
        ("due", dt.date(), "date"), ("recurrence-id", dt, "naive"), ("completed", dt.replace(tzinfo=timezone.utc), "utc"),
        ("dtstamp", dt.replace(tzinfo=zi(z)), "utcforced"), ("created", dt, "utcforced"), ("last-modified", dt.replace(tzinfo=timezone.utc), "utcforced"),
        ("duration", timedelta(days=rng.randrange(0, 3), seconds=rng.randrange(0, 86400)), "duration"),
        ("trigger", timedelta(minutes=-rng.randrange(1, 120)), "duration"),
        ("trigger", dt.replace(tzinfo=timezone.utc), "utc"),
        ("rdate", [dt, dt + timedelta(days=7)], "list-naive"), ("exdate", [dt.date(), (dt + timedelta(days=1)).date()], "list-date"),
        ("rdate", [dt.replace(tzinfo=zi(z)), (dt + timedelta(days=7)).replace(tzinfo=zi(z))], "list-zoned"),
        ("rdate", [(dt.replace(tzinfo=timezone.utc), timedelta(hours=2))], "list-period"),
        ("freebusy", (dt.replace(tzinfo=timezone.utc), dt.replace(tzinfo=timezone.utc) + timedelta(hours=1)), "period"),
        ("categories", ["a", "b c", "d"], "categories"), ("categories", ["work", "errand", "work", "home"], "categories"),
        ("url", vUri("http://example.com/x?y=z"), "uri"), ("attendee", vCalAddress("mailto:a@example.com"), "caladdress"),
        ("organizer", vCalAddress("mailto:o@example.com"), "caladdress"),
        ("rrule", vRecur({"FREQ": ["WEEKLY"], "BYDAY": ["MO", "FR"], "COUNT": [5]}), "recur"),
        ("geo", (37.386013, -122.082932), "geo"), ("geo", rng.choice([(2.5e-06, 51.5), (-4.2e-07, 0.0), (0.0, 179.9999999), (1e-05, -1e-05)]), "geo"), ("tzoffsetfrom", timedelta(hours=1), "offset"),
        ("percent-complete", 50, "int"), ("status", "CONFIRMED", "text"), ("uid", "uid-%d" % rng.randrange(1000), "text"),
    ]
    return rng.choice(menu)


def decoded_equal(kind, supplied, back):
    """is the value read back equal to the Python value supplied? (the clause 'values that decode to Python values equal to the
    ones supplied')"""
    from icalendar.prop import vDDDLists, vDDDTypes
    try:
        if kind == "text":
            return str(back) == supplied.replace("\r\n", "\n")
        if kind == "int":
            return int(back) == supplied
        if kind in ("naive", "date", "duration"):
            return back.dt == supplied
        if kind in ("utc", "zoned"):
            return back.dt == supplied and back.dt.utcoffset() == supplied.utcoffset() and \
                back.dt.replace(tzinfo=None) == supplied.replace(tzinfo=None)
        if kind == "utcforced":
            want = supplied if supplied.tzinfo else supplied.replace(tzinfo=timezone.utc)
            return back.dt == want and back.dt.utcoffset() == timedelta(0)
        if kind.startswith("list-"):
            got = [d.dt for d in back.dts]
            if kind == "list-period":
                return [(a, b) for a, b in got] == [(s, s + d if isinstance(d, timedelta) else d) for s, d in supplied] or got == list(supplied)
            if kind == "list-zoned":
                return got == supplied and all(g.utcoffset() == s.utcoffset() for g, s in zip(got, supplied))
            return got == supplied
        if kind == "period":
            return (back.start, back.end) == supplied
        if kind == "categories":
            return [str(c) for c in back.cats] == supplied
        if kind in ("uri", "caladdress"):
            return str(back) == str(supplied)
        if kind == "recur":
            return back.to_ical() == supplied.to_ical()
        if kind == "geo":
            return (back.latitude, back.longitude) == supplied
        if kind == "offset":
            return back.td == supplied
    except Exception:  # noqa: BLE001
        return False
    return True


def rendered_type(kind, v):
    if kind in ("naive", "utc", "zoned", "utcforced", "list-naive", "list-zoned"):
        return "DATE-TIME"
    if kind in ("date", "list-date"):
        return "DATE"
    if kind == "duration":
        return "DURATION"
    if kind in ("period", "list-period"):
        return "PERIOD"
    return None


def setter_histories(ctx, res, rng):
    """trees built with the property setters (component.DTSTART = v, .start, .end, .DUE, .DTEND), the same property set
    several times with values of different kinds: after serialise + parse every property a setter wrote holds exactly
    the last value supplied, with that value's own TZID / VALUE and nothing inherited from the value it replaced"""
    import icalendar
    zones = ["Europe/Berlin", "America/New_York", "Asia/Tokyo"]

    def value():
        dt = datetime(rng.randrange(1995, 2035), rng.randrange(1, 13), rng.randrange(1, 28), rng.randrange(24), rng.randrange(60))
        k = rng.choice(["naive", "date", "utc", "zoned", "zoned"])
        if k == "date":
            return dt.date(), k
        if k == "utc":
            return dt.replace(tzinfo=timezone.utc), k
        if k == "zoned":
            return dt.replace(tzinfo=zi(rng.choice(zones))), k
        return dt, k
    attrs = {"Event": [("DTSTART", "DTSTART"), ("DTEND", "DTEND"), ("start", "DTSTART"), ("end", "DTEND")],
             "Todo": [("DTSTART", "DTSTART"), ("DUE", "DUE"), ("start", "DTSTART"), ("end", "DUE")],
             "Journal": [("DTSTART", "DTSTART"), ("start", "DTSTART")]}
    for _ in range(1500 if ctx.big else 150 * (1 + 3 * ctx.level)):
        cname = rng.choice(list(attrs))
        comp = getattr(icalendar, cname)()
        comp.add("uid", "setters")
        last, hist = {}, []
        for _k in range(rng.randrange(2, 6)):
            attr, name = rng.choice(attrs[cname])
            v, kind = value()
            try:
                setattr(comp, attr, v)
            except (ValueError, TypeError):
                hist.append([attr, repr(v), "refused"])
                continue
            hist.append([attr, repr(v)])
            last[name] = (v, kind)
        cal = icalendar.Calendar()
        cal.add_component(comp)
        text = T.impl_ser(cal)
        res.evaluations += 1
        res.dist("setter history (%s)" % cname)
        if not isinstance(text, str):
            res.fail("C02 setters: serialising a component built with property setters raised", hist, observed=repr(text))
            continue
        try:
            back = icalendar.Calendar.from_ical(text).subcomponents[0]
        except Exception as e:  # noqa: BLE001
            res.fail("C02 setters: the serialisation of a component built with property setters is refused", hist, observed=type(e).__name__)
            continue
        for name, (v, kind) in last.items():
            if name not in comp:
                continue                    # removed again by a later setter of a mutually exclusive property (C16)
            g = back.get(name)
            ok = g is not None and not isinstance(g, list) and decoded_equal(kind, v, g)
            tzid = None if g is None or isinstance(g, list) else g.params.get("TZID")
            want_tzid = getattr(v.tzinfo, "key", None) if kind == "zoned" else None
            vparam = None if g is None or isinstance(g, list) else g.params.get("VALUE")
            if not ok or tzid != want_tzid or (kind == "date") != (str(vparam).upper() == "DATE"):
                res.fail("C02 setters: after serialise + parse a property does not hold the last value supplied through its "
                         "setter with that value's own TZID / VALUE", {"history": hist, "property": name, "text": text[:500]},
                         observed=[repr(getattr(g, "dt", g)), tzid, vparam], expected=[repr(v), want_tzid, "DATE" if kind == "date" else None])


def shared_values(ctx, res, rng):
    """one value object given to add() for two properties (or two components): add() does not change the object it is
    given, and each property serialises as that value"""
    import icalendar
    from icalendar.prop import vDDDTypes, vDatetime, vText
    for _ in range(200 if ctx.big else 40):
        d0 = datetime(2024, rng.randrange(1, 13), rng.randrange(1, 28), rng.randrange(24), 30)
        kind = rng.choice(["naive", "zoned", "utc"])
        d = d0 if kind == "naive" else d0.replace(tzinfo=zi("Europe/Berlin") if kind == "zoned" else timezone.utc)
        obj = rng.choice([vDDDTypes, vDatetime])(d)
        before = [obj.dt, dict(getattr(obj, "params", {}))]
        ev, td = icalendar.Event(), icalendar.Todo()
        names = rng.sample(["DTSTART", "DTSTAMP", "CREATED", "LAST-MODIFIED", "DTEND", "X-WHEN"], 3)
        for n in names[:2]:
            ev.add(n, obj)
        td.add(names[2], obj)
        res.evaluations += 1
        after = [obj.dt, dict(getattr(obj, "params", {}))]
        if before[0] != after[0] or before[0].tzinfo is not after[0].tzinfo and str(before[0].tzinfo) != str(after[0].tzinfo):
            res.fail("C02: add() changed the value object it was given (a value shared between two properties)",
                     {"names": names, "value": repr(d)}, observed=repr(after[0]), expected=repr(before[0]))


def run(ctx, res):
    import icalendar
    M = ctx.model
    known = ctx.known
    rng = common.rng_for(ctx.seed, "c02")
    n = 2500 if ctx.big else 300 * (1 + 3 * ctx.level)
    res.rule = ("API call sequences (1-12 calls of add / item assignment with 37 value shapes of all documented kinds incl. lists, "
                "typed values, parameters; mixed-case names) building trees of Calendar/Event/Todo/Journal/FreeBusy/Alarm/X- "
                "components (depth <= 4); serialised, parsed, compared; non-trivial = the tree has >= 2 properties; distinct by "
                "serialisation; plus the constructor parameters of every date/time kind and the RFC name table")
    kinds = ["Event", "Todo", "Journal", "FreeBusy", "Alarm"]
    reqs, post = [], []
    for i in range(n):
        cal = icalendar.Calendar()
        cal.add("prodid", "-//verif//EN")
        cal.add("version", "2.0")
        records = []          # (component, NAME, kind, supplied values in order, params)

        def build(comp, depth):
            ops = []
            per_name = {}
            for _ in range(rng.randrange(1, 9)):
                name, v, kind = value_menu(rng)
                if rng.random() < 0.2:
                    name = name.upper() if rng.random() < 0.5 else name.title()
                params = None
                if rng.random() < 0.25 and kind in ("text", "caladdress", "uri"):
                    params = {rng.choice(["X-P", "LANGUAGE", "CN"]): rng.choice(["v", "a b", "x,y"])}
                elif rng.random() < 0.2:
                    # "arbitrary parameters" on every value kind: several names, list values, and None = "no such parameter"
                    params = {}
                    for pk in rng.sample(["X-P", "LANGUAGE", "CN", "ALTREP", "X-Q", "x-lower"], rng.randrange(1, 4)):
                        params[pk] = rng.choice(["v", "a b", "x,y", ["a", "b"], "http://u/?q=1", None,
                                                 # blanks other than SPACE at the ends (they do not force quoting)
                                                 "\tTabbed", "\u00a0nbsp", "\u3000\u5c71\u7530", "end\u2003", ["\u00a0a", "b\t"],
                                                 # punctuation that some escaping scheme gives a meaning to
                                                 "2^10", ["a^b", "c"], ["x^^y", "^n"], "50%", "a'b"])
                U = name.upper()
                if U in per_name and per_name[U][0] != kind:
                    continue        # one kind per name keeps the expected value list simple
                before = comp.get(U)
                try:
                    comp.add(name, v, parameters=params)
                except ValueError:
                    continue
                after = comp[U]
                new = after[(len(before) if isinstance(before, list) else (1 if before is not None else 0)):] if isinstance(after, list) else [after]
                per_name.setdefault(U, (kind, []))[1].append((v, params))
                ops.append([0, name, 1 if (isinstance(v, list) and U not in ("RDATE", "EXDATE", "CATEGORIES")) else 0,
                            [T.obs_value(x) for x in new]])
            for U, (kind, vals) in per_name.items():
                records.append((comp, U, kind, vals))
            post.append(("api", T.obs_comp(comp)[1], ops))
            if depth < 4:
                for _ in range(rng.choice((0, 0, 1, 2))):
                    sub = getattr(icalendar, rng.choice(kinds))() if rng.random() < 0.85 else _xcomp(icalendar)
                    build(sub, depth + 1)
                    comp.add_component(sub)
        ev = icalendar.Event()
        build(ev, 1)
        cal.add_component(ev)
        text = T.impl_ser(cal)
        if not isinstance(text, str):
            res.fail("C02: serialising an API-built calendar raised", repr(text))
            continue
        res.count(text, nontrivial=sum(len(c.keys()) for c in cal.walk()) >= 2)
        try:
            back = icalendar.Calendar.from_ical(text)
        except ValueError as e:
            res.fail("C02: the serialisation of an API-built calendar is refused by the parser", text[:800], observed=str(e)[:200])
            continue
        # nesting and names
        shape = lambda c: [c.name, sorted(c.keys()), [shape(s) for s in c.subcomponents]]  # noqa: E731
        if shape(back) != shape(cal):
            res.fail("C02: nesting or property names differ after serialise + parse", text[:800], observed=shape(back), expected=shape(cal))
            continue
        # values, order, parameters, VALUE / TZID tags
        pairs = list(zip(cal.walk(), back.walk()))
        for comp, U, kind, vals in records:
            b = next(bb for cc, bb in pairs if cc is comp)
            got = b[U]
            got = got if isinstance(got, list) else [got]
            flat = []
            for v, params in vals:
                if isinstance(v, list) and U not in ("RDATE", "EXDATE", "CATEGORIES"):
                    flat += [(x, params) for x in v]
                else:
                    flat.append((v, params))
            if len(got) != len(flat):
                res.fail("C02: number of values of a property differs after the round trip", {"prop": U, "text": text[:600]},
                         observed=len(got), expected=len(flat))
                continue
            for (v, params), g in zip(flat, got):
                if not decoded_equal(kind, v, g):
                    fid = _classify_value(kind, U, v)
                    if fid and fid in known:
                        res.known(fid, {"prop": U, "kind": kind, "supplied": repr(v)[:120], "got": repr(g)[:120]}, known[fid]["summary"])
                    else:
                        res.fail("C02: a value does not decode to the Python value supplied", {"prop": U, "kind": kind, "supplied": repr(v), "text": text[:600]},
                                 observed=repr(g)[:200])
                if params:
                    for pk, pv in params.items():
                        if pv is None:
                            if pk in g.params:
                                res.fail("C02: a parameter given as None (= absent) appears after the round trip",
                                         {"prop": U, "param": pk, "text": text[:600]}, observed=g.params.get(pk))
                            continue
                        if g.params.get(pk) != pv:
                            res.fail("C02: a parameter is lost or changed", {"prop": U, "param": pk, "text": text[:600]}, observed=g.params.get(pk), expected=pv)
                rt = rendered_type(kind, v)
                if rt:
                    default = next((t for t, names in RFC_DEFAULT.items() if U in names), None)
                    emitted = comp[U]
                    emitted = emitted if isinstance(emitted, list) else [emitted]
                    e0 = emitted[0]
                    val_param = str(getattr(e0, "params", {}).get("VALUE", "")).upper()
                    if default and rt != default and val_param != rt:
                        fid = "C02-F1" if U == "TRIGGER" else "C02-F2"
                        if fid in known:
                            res.known(fid, {"prop": U, "rendered as": rt, "default": default, "VALUE": val_param}, known[fid]["summary"])
                        else:
                            res.fail("C02: value not of the property's default type is emitted without the matching VALUE parameter",
                                     {"prop": U, "rendered": rt, "default": default, "text": text[:600]})
    # ---- model correspondence: accumulation, constructor parameters, type table
    if M:
        reqs = [("api_build", ops) for _, _, ops in post]
        outs = M.batch(reqs)
        for (_, impl_props, ops), m in zip(post, outs):
            res.corr("Component.add_accumulation", ops if len(str(ops)) < 600 else str(ops)[:600], impl_props, m)
        from icalendar.prop import vDDDTypes, vDDDLists
        d = datetime(2020, 1, 2, 3, 4, 5)
        samples = [(0, d.date()), (1, d), (2, d.replace(tzinfo=timezone.utc)), (3, time(1, 2, 3)), (4, timedelta(hours=1)),
                   (5, (d, d + timedelta(hours=1))), ("Europe/Berlin", d.replace(tzinfo=zi("Europe/Berlin"))),
                   ("Asia/Tokyo", d.replace(tzinfo=zi("Asia/Tokyo")))]
        reqs2, post2 = [], []
        for code, v in samples:
            reqs2.append(("ddd_params", [0, code]))
            post2.append((repr(v), T.obs_params(vDDDTypes(v).params)))
        for _ in range(60):
            ks = [rng.choice(samples[:3] + samples[6:]) for _ in range(rng.randrange(1, 5))]
            reqs2.append(("ddd_params", [1, [c for c, _ in ks]]))
            lst = vDDDLists([v for _, v in ks])
            post2.append((repr([c for c, _ in ks]), T.obs_params(getattr(lst, "params", {}))))
        for (inp, impl), m in zip(post2, M.batch(reqs2)):
            res.corr("vDDDTypes_vDDDLists_parameters", inp, impl, m)
        from icalendar.cal import types_factory
        names = ["SUMMARY", "DTSTART", "RDATE", "TRIGGER", "GEO", "ATTACH", "X-FOO", "categories", "Rrule", "FREEBUSY", "TZOFFSETTO", "ATTENDEE"]
        for nm, m in zip(names, M.batch([("type_key", nm) for nm in names])):
            key = types_factory.types_map.get(nm, "text")
            res.corr("TypesFactory.for_property", nm, [key, types_factory[key].__name__], m)
    setter_histories(ctx, res, common.rng_for(ctx.seed, "c02-setters"))
    shared_values(ctx, res, common.rng_for(ctx.seed, "c02-shared"))
    res.sample({"calendar": text[:500]})


def _xcomp(icalendar):
    c = icalendar.cal.Component()
    c.name = "X-BOX"
    return c


def _classify_value(kind, U, v):
    if kind == "list-zoned" or kind == "list-period":
        return "C02-F3"
    if kind == "text" and "\\" in str(v):
        return "C01-F2"
    return None


def replay(ctx, data):
    print(data.get("input"))
