"""C04 -- parsing is total: a result or ValueError; VEVENT isolates bad property lines."""
import traceback

from . import common
from . import treelib as T

FINGERPRINTS = ["cal.Component.from_ical", "parser.Contentline.parts", "parser.Contentlines.from_ical",
                "parser.Parameters.from_ical", "cal.Component.add", "cal.Component.property_items"]
GEN = ["Gen_parser", "Gen_cal"]
ASSUMPTIONS = [
    "that a real leaf call (value decoder, zoneinfo/pytz/dateutil, time-zone cache) raises only what was recorded is runtime "
    "behaviour: the theorems cover the control skeleton for every tame behaviour of those oracles; the malformed-input run is "
    "testing and is labelled so",
    "termination / CPU time per case is observed (a case that takes > 20 s is reported), not proved",
]
TRUSTED = []


LAST_STACK = []
LAST_QUAL = []


def site_of(e):
    """(exception class, innermost function of the icalendar package in the traceback); the icalendar functions
    on the traceback are kept in LAST_STACK for the classification"""
    fn = "?"
    LAST_STACK.clear()
    LAST_QUAL.clear()
    tb = e.__traceback__
    while tb is not None:
        code = tb.tb_frame.f_code
        if "/icalendar/" in code.co_filename:
            fn = code.co_name
            LAST_STACK.append(code.co_name)
            LAST_QUAL.append(getattr(code, "co_qualname", code.co_name))
        tb = tb.tb_next
    return [type(e).__name__, fn]


def classify(known, cls, site):
    for fid, f in known.items():
        c = f.get("class", {})
        if c.get("kind") == "escape" and [cls, site] in c.get("args", []):
            return fid
        if c.get("kind") == "escape_qual" and LAST_QUAL and [cls, LAST_QUAL[-1]] in c.get("args", []):
            return fid              # exception class + the qualified name of the innermost icalendar function
        if c.get("kind") == "escape_via" and any(fn in LAST_STACK for fn in c.get("args", [])):
            return fid
    return None


def exercise(text, multiple):
    """parse, then serialise and walk whatever was returned: ('ok', n) | ('ValueError',) | ('escape', class, site, stage)"""
    import icalendar
    try:
        r = icalendar.Calendar.from_ical(text, multiple=multiple)
    except ValueError:
        return ("ValueError",)
    except Exception as e:  # noqa: BLE001
        return ("escape",) + tuple(site_of(e)) + ("parse",)
    comps = r if multiple else [r]
    for c in comps:
        try:
            c.to_ical()
        except ValueError:
            pass
        except Exception as e:  # noqa: BLE001
            return ("escape",) + tuple(site_of(e)) + ("to_ical",)
        try:
            c.walk()
            c.walk("VEVENT")
        except Exception as e:  # noqa: BLE001
            return ("escape",) + tuple(site_of(e)) + ("walk",)
    return ("ok", len(comps))


BAD_LINES = ["no colon here", ";=:x", "SUMMARY;X=\x01:v", "DTSTART:notadate", "DTEND;VALUE=DATE:2020", "RRULE:FREQ=NEVER;;",
             "DURATION:P", "PRIORITY:high", "GEO:1", "X;Y", ":", "SUMMARY;X:v", "TRIGGER:-", "SEQUENCE:1.5", "EXDATE:20201301",
             # several values on one line of which a later one is bad: the line goes as a whole
             "FREEBUSY:20240102T100000Z/PT1H,20240102T1500Z/PT1H", "FREEBUSY:20240102T100000Z/PT1H,20240102T120000Z/PT1H,x",
             "RDATE:20240101T000000,2024", "EXDATE:20240101T000000,20240102T000000,nope", "CATEGORIES;X=\x01:a,b",
             "RDATE;VALUE=PERIOD:20240101T000000Z/PT1H,20240101T000000Z/oops"]


def run(ctx, res):
    import icalendar
    M = ctx.model
    known = ctx.known
    rng = common.rng_for(ctx.seed, "c04")
    base = [d.decode("utf-8-sig", "replace") for _, d in T.fixtures()]
    cases = []
    n_mut = 12000 if ctx.big else 900 * (1 + 3 * ctx.level)
    for i in range(n_mut):
        cases.append(("mutated-fixture", T.mutate(rng, rng.choice(base))))
    for i in range(n_mut // 3):
        cases.append(("mutated-generated", T.mutate(rng, T.gen_calendar(rng))))
    for i in range(n_mut // 3):
        cases.append(("token-soup", T.token_soup(rng)))
    for d in (1, 2, 8, 33, 64):
        cases.append(("deep-nesting", "".join(f"BEGIN:X{i}\r\n" for i in range(d)) + "".join(f"END:X{i}\r\n" for i in reversed(range(d)))))
        cases.append(("unbalanced", "BEGIN:VEVENT\r\n" * d + "END:VEVENT\r\n" * (d // 2)))
    for tz in ("Europe", "/", "a,b", "", "../../etc/passwd", "UTC", "Europe/Berlin/x", "\x00", "é", "America", "Europe/", "x" * 300,
               "a/" * 3000 + "a", "Europe/Berlin,Europe/Vienna", '"Europe/Berlin","UTC"'):
        cases.append(("hostile-tzid", f"BEGIN:VEVENT\r\nDTSTART;TZID={tz}:20200102T100000\r\nEND:VEVENT\r\n"))
    corpus = ["BEGIN:VEVENT\r\nTZID:x\r\nEND:VTIMEZONE\r\n", "BEGIN:VEVENT\r\nDTSTART;TZID=Europe:20200102T100000\r\nEND:VEVENT\r\n",
              "BEGIN:VEVENT\r\nDTSTART;TZID=a,b:20200102T100000\r\nEND:VEVENT\r\n",
              "BEGIN:VFREEBUSY\r\nFREEBUSY:20200101/20200102T000000Z\r\nEND:VFREEBUSY\r\n",
              "BEGIN:VTIMEZONE\r\nTZID:Q\r\nBEGIN:STANDARD\r\nDTSTART:19700101T000000\r\nTZOFFSETFROM:+0100\r\nTZOFFSETTO:+0100\r\nRRULE:BYDAY=1SU\r\nEND:STANDARD\r\nEND:VTIMEZONE\r\n",
              "BEGIN:VEVENT\r\nDURATION:P1000000000D\r\nEND:VEVENT\r\n", "BEGIN:VEVENT\r\nDTSTART;TZID=Europe/Berlin:00010101T000000\r\nEND:VEVENT\r\n",
              "BEGIN:VEVENT\r\nRDATE;TZID=America/New_York:99991231T235959,20200101T000000\r\nEND:VEVENT\r\n", "BEGIN:VEVENT\r\nRRULE:FREQ=YEARLY;BYMONTH=\r\nEND:VEVENT\r\n"]
    # periods of every combination of kinds (date, floating, UTC, zoned start; date / date-time / duration end)
    for a in ("20200101", "20200101T000000", "20200101T000000Z"):
        for b in ("20200103", "20200103T000000", "20200103T000000Z", "P1D", "PT1H", "-PT1H", "P"):
            corpus.append(f"BEGIN:VFREEBUSY\r\nFREEBUSY:{a}/{b}\r\nEND:VFREEBUSY\r\n")
            corpus.append(f"BEGIN:VEVENT\r\nUID:u\r\nRDATE;VALUE=PERIOD:{a}/{b}\r\nSUMMARY:kept\r\nEND:VEVENT\r\n")
    corpus.append("BEGIN:VFREEBUSY\r\nFREEBUSY;TZID=Europe/Berlin:20200101T000000/20200103T000000Z\r\nEND:VFREEBUSY\r\n")
    # names that are not ASCII but upper-case (str.upper) to the names the line loop treats specially
    for nm in ("DT\u017fTART", "dt\u017ftart", "DT\ufb06ART", "D\u0131ue".replace("\u0131ue", "UE"), "EXDATE\u0301", "RDATE\u200b", "DU\u0117",
               "RECURRENCE-\u0131D", "FREEBU\u017fY", "BEG\u0131N", "\u212aEY"):
        for wrap in ("VEVENT", "VTODO", "VFREEBUSY"):
            corpus.append(f"BEGIN:{wrap}\r\nUID:u\r\n{nm};TZID=Europe/Berlin:20300102T100000\r\n{nm}:20300102T100000\r\nEND:{wrap}\r\n")
    cases = [("corpus", c) for c in corpus] + cases
    res.rule = ("malformed inputs: structure-aware mutations (1-3 of: delete/duplicate/swap line, insert token, truncate, splice token "
                "line, cut, hostile TZID parameter, stray BEGIN/END) of every fixture and of generated calendars, token soup, nesting up "
                "to depth 64, unbalanced BEGIN/END, hostile TZID values; parsed single and multiple, result serialised and walked, under "
                "both providers; non-trivial = the input is not accepted unchanged as a well-formed calendar (it differs from every "
                "fixture); distinct by text")
    escapes = {}
    reqs, post = [], []
    for provider in ("zoneinfo", "pytz"):
        getattr(icalendar, "use_" + provider)()
        try:
            for kind, text in cases:
                if provider == "zoneinfo":
                    res.dist(kind)
                    res.count(text, nontrivial=True)
                else:
                    res.evaluations += 1
                for multiple in (True, False):
                    out = exercise(text, multiple)
                    if out[0] == "escape":
                        cls, site, stage = out[1], out[2], out[3]
                        fid = classify(known, cls, site)
                        key = f"{cls}@{site}"
                        escapes.setdefault(key, [0, text[:300]])[0] += 1
                        if fid:
                            res.known(fid, {"exception": cls, "in": site, "stage": stage, "input": text[:200]}, known[fid]["summary"])
                        else:
                            res.fail(f"C04 totality ({provider}): {stage} raised {cls} (in {site}), not ValueError",
                                     {"text": text, "multiple": multiple, "provider": provider}, observed=[cls, site, stage])
                if provider == "zoneinfo" and M is not None and len(text) < 20000:
                    o, log, _ = T.impl_parse(text, multiple=True)
                    reqs.append(T.parse_req(text, True, log))
                    post.append((text[:300], o))
        finally:
            icalendar.use_zoneinfo()
    outs = M.batch(reqs) if (M and reqs) else None
    if outs is not None:
        for (inp, impl), m in zip(post, outs):
            res.corr("Component.from_ical_on_malformed_input", inp, impl, m)
    res.extra["escapes_seen"] = {k: v[0] for k, v in escapes.items()}
    # ---- isolation: a bad line inside VEVENT is dropped and recorded; elsewhere the parse fails
    n_iso = 0
    for i in range(600 if ctx.big else 120 * (1 + 3 * ctx.level)):
        props = ["UID:u%d" % i] + [n + ":" + v for n, v in rng.sample(T.PROP_MENU[:30], rng.randrange(1, 6))]
        alarm = ["BEGIN:VALARM", "ACTION:DISPLAY", "TRIGGER:-PT5M", "END:VALARM"]
        k = rng.randrange(0, len(props) + 1)              # the nested component anywhere among the properties
        body = props[:k] + alarm + props[k:]
        ev_lines = ["BEGIN:VEVENT"] + body + ["END:VEVENT"]
        bad = rng.choice(BAD_LINES)
        # only lines the implementation itself refuses on their own are "bad lines" (e.g. it accepts DURATION:P)
        probe = icalendar.Event.from_ical("BEGIN:VEVENT\r\n" + bad + "\r\nEND:VEVENT\r\n")
        if not probe.errors:
            continue
        # any position directly inside the VEVENT: before, between or after nested components, never inside one
        allowed = [j for j in range(1, len(ev_lines)) if not (1 + k < j <= 1 + k + 3)]
        pos = rng.choice(allowed)
        with_bad = ev_lines[:pos] + [bad] + ev_lines[pos:]
        wrap = lambda ls: "BEGIN:VCALENDAR\r\n" + "\r\n".join(ls) + "\r\nEND:VCALENDAR\r\n"  # noqa: E731
        res.evaluations += 1
        n_iso += 1
        try:
            a = icalendar.Calendar.from_ical(wrap(with_bad))
            b = icalendar.Calendar.from_ical(wrap(ev_lines))
        except ValueError as e:
            res.fail("C04 isolation: a bad property line inside VEVENT made the whole parse fail", {"bad": bad, "text": wrap(with_bad)}, observed=str(e)[:200])
            continue
        oa, ob = T.obs_comp(a), T.obs_comp(b)
        strip = lambda o: [o[0], o[1], [strip(s) for s in o[2]]]  # noqa: E731
        nerr = lambda o: len(o[3]) + sum(nerr(s) for s in o[2])  # noqa: E731
        if strip(oa) != strip(ob) or nerr(oa) != nerr(ob) + 1 or len(a.subcomponents[0].errors) != len(b.subcomponents[0].errors) + 1:
            res.fail("C04 isolation: dropping the bad line changes more than one error entry", {"bad": bad, "text": wrap(with_bad)},
                     observed=[strip(oa) == strip(ob), nerr(oa), nerr(ob)])
        # the same line outside a lenient component
        todo = [l.replace("VEVENT", "VTODO") for l in with_bad]
        try:
            icalendar.Calendar.from_ical(wrap(todo))
            res.fail("C04 strict: a bad property line outside a lenient component was accepted", {"bad": bad, "text": wrap(todo)})
        except ValueError:
            pass
    # ---- a bad line that stands outside every component (after a finished top-level VEVENT, between two, before the first)
    #      belongs to no lenient component: the parse fails, in every reading mode
    evt = "BEGIN:VEVENT\r\nUID:u\r\nEND:VEVENT\r\n"
    for bad in BAD_LINES:
        for shape_, text in (("after", evt + bad + "\r\n"), ("between", evt + bad + "\r\n" + evt), ("before", bad + "\r\n" + evt),
                             ("after-two", evt + evt + bad + "\r\n"), ("after-todo-event", evt.replace("VEVENT", "VTODO") + evt + bad + "\r\n")):
            for mode, call in (("multiple", lambda t: icalendar.Component.from_ical(t, multiple=True)),
                               ("event-multiple", lambda t: icalendar.Event.from_ical(t, multiple=True)),
                               ("single", lambda t: icalendar.Event.from_ical(t))):
                if mode == "single" and shape_ in ("between", "after-two", "after-todo-event"):
                    continue
                res.evaluations += 1
                try:
                    got = call(text)
                except ValueError:
                    continue
                except Exception as e:  # noqa: BLE001
                    res.fail("C04 strict: a bad line outside every component escapes as " + type(e).__name__, {"text": text, "mode": mode})
                    continue
                res.fail("C04 strict: a bad line outside every component was accepted", {"text": text, "mode": mode, "where": shape_},
                         observed=[T.obs_comp(c) for c in (got if isinstance(got, list) else [got])])
    res.extra["isolation_cases"] = n_iso
    res.sample({"mutated": cases[len(corpus) + 3][1][:400], "outcome": exercise(cases[len(corpus) + 3][1], True)})


def replay(ctx, data):
    d = data["input"]
    print(exercise(d["text"], d.get("multiple", True)))
