"""C16 -- start/end/duration of events and todos after any edit history.
Correspondence of Model/StartEnd.v with cal.py on operation sequences (setters, deleters, add of
DTSTART, DTEND|DUE, DURATION, start, end) and on parsed property combinations; the direct
property oracle on the implementation; known-finding classification by the extracted guards."""
import itertools

from . import common
from . import sched_common as S

FINGERPRINTS = S.FINGERPRINTS_C16
GEN = ["Gen_sched"]
ASSUMPTIONS = [
    "times are whole seconds (no microseconds) between 2019-06 and 2022-06; date arithmetic does not overflow",
    "a stored entry is absent, one vDDDTypes/vDuration object (whose .dt is a date, datetime, timedelta or another "
    "object) or a list -- what the setters, Component.add and the parser produce; raw item assignment of other "
    "objects is outside the model",
    "the zone oracle handed to the model is probed from zoneinfo / pytz (offset as a function of wall time with "
    "fold=0, and of the UTC instant), so gap/overlap wall times follow PEP 495 fold=0",
]
TRUSTED = ["Python datetime arithmetic as modelled in Model/StartEnd.v (tsub/tadd/normalize): same-tzinfo subtraction "
           "is wall-clock, different tzinfo is by instant, pytz tzinfo objects are per-offset"]

VALUES = [("d", 2020, 3, 28), ("d", 2020, 3, 30), ("n", 2020, 3, 28, 12, 0, 0), ("u", 2020, 3, 28, 12, 0, 0),
          ("z", "Europe/Berlin", 2020, 3, 28, 12, 0, 0), ("td", 86400), ("td", 3600)]
EXTRA_VALUES = [("z", "America/New_York", 2020, 10, 31, 23, 30, 0), ("z", "Europe/Berlin", 2020, 3, 29, 12, 0, 0),
                ("z", "Australia/Lord_Howe", 2020, 4, 4, 12, 0, 0), ("n", 2020, 3, 29, 2, 30, 0),
                ("u", 2020, 3, 29, 1, 0, 0), ("d", 2019, 12, 31), ("td", -86400), ("td", 90000), ("td", 0),
                ("td", 14 * 86400), ("td", -1), ("tod",)]
SETTERS = ["set_DTSTART", "set_END", "set_DURATION", "set_start", "set_end"]
DELETERS = ["del_DTSTART", "del_END", "del_DURATION"]
ADDERS = ["add_DTSTART", "add_END", "add_DURATION"]


def op_alphabet(values):
    ops = [(o, v) for o in SETTERS for v in list(values) + [None]]
    ops += [(o,) for o in DELETERS]
    ops += [(o, v) for o in ADDERS for v in values]
    return ops


def gen_sequences(ctx):
    rng = common.rng_for(ctx.seed, "c16")
    base = op_alphabet(VALUES)
    out = []
    # corpus: finding witnesses and the documented examples first
    corpus = [
        [("set_start", ("z", "Europe/Berlin", 2020, 3, 28, 12, 0, 0)), ("set_end", ("n", 2020, 3, 28, 12, 0, 0))],
        [("set_start", ("n", 2020, 3, 28, 12, 0, 0)), ("set_end", ("u", 2020, 3, 28, 12, 0, 0))],
        [("set_DTSTART", ("n", 2020, 3, 28, 12, 0, 0)), ("add_DURATION", ("d", 2020, 3, 30))],
        [("set_DTSTART", ("d", 2020, 3, 28)), ("add_DURATION", ("d", 2020, 3, 30))],
        [("set_DTSTART", ("d", 2020, 3, 28)), ("add_DURATION", ("tod",))],
        [("set_END", ("d", 2020, 3, 30)), ("add_DURATION", ("td", 86400))],
        [("set_start", ("z", "Europe/Berlin", 2020, 3, 28, 12, 0, 0)), ("set_DURATION", ("td", 86400))],
    ]
    out += [("corpus", s) for s in corpus]
    out.append(("exhaustive-0", []))
    for n in (1, 2):
        for t in itertools.product(base, repeat=n):
            out.append((f"exhaustive-{n}", list(t)))
    if ctx.big:
        for t in itertools.product(base, repeat=3):
            out.append(("exhaustive-3", list(t)))
    else:
        # length 3: every (op kind)^3 pattern with sampled values, plus a uniform sample
        kinds = SETTERS + DELETERS + ADDERS
        by_kind = {k: [o for o in base if o[0] == k] for k in kinds}
        for pat in itertools.product(kinds, repeat=3):
            for _ in range(4 * (1 + 2 * ctx.level)):
                out.append(("length3-by-op-kind", [rng.choice(by_kind[k]) for k in pat]))
        for _ in range(6000 * (1 + 2 * ctx.level)):
            out.append(("length3-uniform", [rng.choice(base) for _ in range(3)]))
    wide = op_alphabet(VALUES + EXTRA_VALUES)
    for _ in range(40000 if ctx.big else 3000 * (1 + 2 * ctx.level)):
        out.append(("random-4..12", [rng.choice(wide) for _ in range(rng.randrange(4, 13))]))
    return out


SPELL = [0]


def spell(name):
    """the same property name in the spellings the mapping accepts: upper / lower / mixed case, str or bytes"""
    SPELL[0] += 1
    k = SPELL[0] % 6
    n = [name, name.lower(), name.title(), name, name.lower(), name][k]
    return n.encode("ascii") if k >= 3 else n


def apply_op(comp, kind, op, provider):
    endname = "DTEND" if kind == 0 else "DUE"
    name = op[0]
    val = S.mk_dt(op[1], provider) if len(op) > 1 else None
    try:
        if name == "set_DTSTART":
            comp.DTSTART = val
        elif name == "set_END":
            setattr(comp, endname, val)
        elif name == "set_DURATION":
            comp.DURATION = val
        elif name == "set_start":
            comp.start = val
        elif name == "set_end":
            comp.end = val
        elif name == "del_DTSTART":
            del comp.DTSTART
        elif name == "del_END":
            delattr(comp, endname)
        elif name == "del_DURATION":
            del comp.DURATION
        elif name == "add_DTSTART":
            comp.add(spell("DTSTART"), val)
        elif name == "add_END":
            comp.add(spell(endname), val)
        elif name == "add_DURATION":
            comp.add(spell("DURATION"), val)
        else:
            raise AssertionError(name)
    except Exception as e:  # noqa: BLE001
        return S.c_err(e)
    return ["ok"]


def w_op(op, provider):
    if len(op) == 1:
        return [op[0]]
    v = S.mk_dt(op[1], provider)
    if op[0].startswith("set_"):
        return [op[0], S.NONE if v is None else ["val", S.w_pyval(v)]]
    return [op[0], S.w_pyval(v)]


def state_of(comp, kind):
    out = []
    for name in ("DTSTART", "DTEND" if kind == 0 else "DUE", "DURATION"):
        v = comp.get(name)
        if v is None:
            out.append(["absent"])
        elif isinstance(v, list):
            out.append(["many"])
        else:
            out.append(["one", S.c_pyval(v.dt)])
    return out


def getters_of(comp, kind):
    endname = "DTEND" if kind == 0 else "DUE"
    opt_time = lambda v: S.NONE if v is None else S.c_time(v)       # noqa: E731
    opt_val = lambda v: S.NONE if v is None else S.c_pyval(v)       # noqa: E731
    return [S.observe(lambda: comp.DTSTART, opt_time),
            S.observe(lambda: getattr(comp, endname), opt_time),
            S.observe(lambda: comp.DURATION, opt_val),
            S.observe(lambda: comp.start, S.c_time),
            S.observe(lambda: comp.end, S.c_time),
            S.observe(lambda: comp.duration, S.td_s)]


DOCUMENTED = (["err", "InvalidCalendar"], ["err", "IncompleteComponent"])


def is_err(x):
    return isinstance(x, list) and x[:1] == ["err"]


def oracle_violations(comp, kind, state, getters, setters_only):
    """The property itself, checked on the implementation with Python's own date arithmetic.
    Returns (list of plain violations, list of (getter, error class) escapes)."""
    from datetime import date as _date, datetime as _datetime, timedelta as _timedelta
    bad, escapes = [], []
    endname = "DTEND" if kind == 0 else "DUE"
    if setters_only and endname in comp and "DURATION" in comp:
        bad.append(f"both {endname} and DURATION present after a history of setters/deleters")
    names = ["DTSTART", endname, "DURATION", "start", "end", "duration"]
    for nm, g in zip(names, getters):
        if is_err(g) and g not in DOCUMENTED:
            escapes.append((nm, g[1]))
    if not any(is_err(g) for g in getters[3:]):
        s, e, d = comp.start, comp.end, comp.duration
        if e - s != d:
            bad.append("end - start != duration")
        dur = comp.get("DURATION")
        if dur is not None:
            if e != s + dur.dt or d != dur.dt:
                bad.append("end != start + DURATION or duration != DURATION")
        elif comp.get(endname) is None:
            is_d = isinstance(s, _date) and not isinstance(s, _datetime)
            if is_d and (e != s + _timedelta(days=1) or d != _timedelta(days=1)):
                bad.append("date start without end: end is not start + 1 day")
            if not is_d and (e != s or d != _timedelta(0)):
                bad.append("date-time start without end: end is not the start")
    # states the RFC allows and that have a start must have start and end defined
    st, en, du = state
    ok_time = lambda x: x[0] == "absent" or (x[0] == "one" and x[1][0] == "t")    # noqa: E731
    if st[0] == "one" and st[1][0] == "t" and en == ["absent"] and du == ["absent"]:
        if is_err(getters[3]) or is_err(getters[4]):
            bad.append("start-only component: start or end raises")
    if st == ["absent"] and ok_time(en) and du[0] in ("absent",) and getters[3] != ["err", "IncompleteComponent"]:
        bad.append("missing start is not reported by IncompleteComponent")
    return bad, escapes


def changed_entries(states):
    """number of entries (of the three) whose stored value changed at some point of the history"""
    n = 0
    for i in range(3):
        vals = [s[i] for s in states]
        if any(a != b for a, b in zip(vals, vals[1:])):
            n += 1
    return n


def classify(res, ctx, what, inp, impl_obs, model_obs, guards, escapes, bad):
    """known finding iff outside the guard of an open class and failing exactly as the model predicts"""
    known = ctx.known
    for b in bad:
        res.fail("C16 oracle: " + b, inp, observed=impl_obs)
    if not escapes:
        return
    forbidden, dur_typed, tz_consistent = guards if guards else (None, None, None)
    agrees = model_obs is None or impl_obs == model_obs
    for nm, cls in escapes:
        fid = None
        if dur_typed == 0 or (guards is None and inp.get("dur_wrong")):
            fid = "C16-F2"
        elif (tz_consistent == 0 or (guards is None and inp.get("mix"))) and nm == "duration" and cls == "TypeError":
            fid = "C16-F1"
        if fid and fid in known and agrees:
            res.known(fid, {"case": inp, "getter": nm, "raises": cls}, known[fid]["summary"])
        else:
            res.fail(f"C16: {nm} raises {cls}, which is neither InvalidCalendar nor IncompleteComponent"
                     + (" (in a finding class but not as the model predicts)" if fid else ""), inp, observed=impl_obs,
                     expected=model_obs)


def run_sequences(ctx, res, cases, provider):
    """in chunks, so that the thorough tier (all sequences of length 3) stays within memory"""
    impl = []
    for i in range(0, len(cases), 20000):
        part = run_sequences_chunk(ctx, res, cases[i:i + 20000], provider)
        if len(impl) < 40000:
            impl += part
    return impl


def run_sequences_chunk(ctx, res, cases, provider):
    import icalendar
    S.use_provider(provider)
    M = ctx.model
    reqs, impl = [], []
    for label, seq in cases:
        for kind in (0, 1):
            comp = icalendar.Event() if kind == 0 else icalendar.Todo()
            states = [state_of(comp, kind)]
            log = []
            for op in seq:
                log.append(apply_op(comp, kind, op, provider))
                states.append(state_of(comp, kind))
            getters = getters_of(comp, kind)
            obs = [log, states[-1], getters]
            if len(impl) % 4 == 0 and seq:
                # no hidden state: a twin whose getters are read after every operation ends in the same state and answers
                twin = icalendar.Event() if kind == 0 else icalendar.Todo()
                tlog = []
                for op in seq:
                    tlog.append(apply_op(twin, kind, op, provider))
                    getters_of(twin, kind)
                if [tlog, state_of(twin, kind), getters_of(twin, kind)] != obs:
                    res.fail("C16: reading start/end/duration between the operations changes the outcome",
                             {"provider": provider, "kind": "Event" if kind == 0 else "Todo", "ops": [list(o) for o in seq]},
                             observed=[tlog, state_of(twin, kind), getters_of(twin, kind)], expected=obs)
            wops = [w_op(op, provider) for op in seq]
            setters_only = not any(op[0].startswith("add_") for op in seq)
            res.dist(f"{provider}:{label}")
            res.count((provider, kind, seq), nontrivial=changed_entries(states) >= 2)
            bad, escapes = oracle_violations(comp, kind, states[-1], getters, setters_only)
            impl.append((label, kind, seq, obs, bad, escapes, setters_only))
            reqs.append(("c16_run", [kind, wops, S.oracle_for(S.zids_in(wops), provider)]))
    outs = M.batch(reqs) if M else [None] * len(reqs)
    for (label, kind, seq, obs, bad, escapes, setters_only), m in zip(impl, outs):
        inp = {"provider": provider, "kind": "Event" if kind == 0 else "Todo", "ops": [list(o) for o in seq]}
        guards = None
        mobs = None
        if m is not None and m[:1] != ["unsupported"]:
            mobs = m[:3]
            guards = m[3]
            res.corr("c16_run(op-sequence->outcomes,entries,getters)", inp, obs, mobs)
            if m[4] != int(setters_only):
                res.corr("c16_run(no_add)", inp, int(setters_only), m[4])
        elif m is not None:
            res.corr("c16_run(op-sequence->outcomes,entries,getters)", inp, obs, m)
        classify(res, ctx, "seq", inp, obs, mobs, guards, escapes, bad)
    return impl


PARSE_START = [None, ("d", 2020, 3, 28), ("n", 2020, 3, 28, 12, 0, 0), ("u", 2020, 3, 28, 12, 0, 0),
               ("z", "Europe/Berlin", 2020, 3, 28, 12, 0, 0), ("td", 3600), "many", ("tod",)]
PARSE_END = [None, ("d", 2020, 3, 30), ("n", 2020, 3, 29, 12, 0, 0), ("u", 2020, 3, 29, 12, 0, 0),
             ("z", "Europe/Berlin", 2020, 3, 29, 12, 0, 0), ("z", "America/New_York", 2020, 3, 29, 12, 0, 0),
             ("td", 3600), "many"]
PARSE_DUR = [None, ("td", 86400), ("td", 3600), ("td", -86400), ("d", 2020, 3, 30), "many"]


def prop_lines(name, desc):
    if desc is None:
        return []
    if desc == "many":
        return [f"{name};VALUE=DATE:20200328", f"{name};VALUE=DATE:20200329"]
    if desc[0] == "td":
        return [f"{name}:{S.ical_td(desc[1])}"]
    if desc[0] == "tod":
        return [f"{name};VALUE=TIME:123000"]
    p, v = S.ical_dt(desc)
    return [f"{name}{p}:{v}"]


def w_entry(desc, provider):
    if desc is None:
        return ["absent"]
    if desc == "many":
        return ["many"]
    return ["one", S.w_pyval(S.mk_dt(desc, provider))]


def run_parsed(ctx, res, provider):
    import icalendar
    S.use_provider(provider)
    M = ctx.model
    reqs, impl = [], []
    for kind in (0, 1):
        endname = "DTEND" if kind == 0 else "DUE"
        cname = "VEVENT" if kind == 0 else "VTODO"
        for st, en, du in itertools.product(PARSE_START, PARSE_END, PARSE_DUR):
            lines = [f"BEGIN:{cname}"] + prop_lines("DTSTART", st) + prop_lines(endname, en) + \
                    prop_lines("DURATION", du) + [f"END:{cname}"]
            text = "\r\n".join(lines) + "\r\n"
            comp = (icalendar.Event if kind == 0 else icalendar.Todo).from_ical(text)
            state = state_of(comp, kind)
            getters = getters_of(comp, kind)
            wstate = [w_entry(st, provider), w_entry(en, provider), w_entry(du, provider)]
            res.dist(f"{provider}:parsed")
            res.count((provider, kind, "parsed", st, en, du), nontrivial=sum(x is not None for x in (st, en, du)) >= 2)
            bad, escapes = oracle_violations(comp, kind, state, getters, False)
            impl.append((kind, text, state, getters, bad, escapes))
            reqs.append(("c16_state", [kind, wstate, S.oracle_for(S.zids_in(wstate), provider)]))
    outs = M.batch(reqs) if M else [None] * len(reqs)
    for (kind, text, state, getters, bad, escapes), m in zip(impl, outs):
        inp = {"provider": provider, "kind": "Event" if kind == 0 else "Todo", "ical": text}
        guards = mobs = None
        if m is not None and m[:1] != ["unsupported"]:
            mobs, guards = m[0], m[1]
            res.corr("c16_state(parsed-component->getters)", inp, getters, mobs)
        elif m is not None:
            res.corr("c16_state(parsed-component->getters)", inp, getters, m)
        classify(res, ctx, "parsed", inp, getters, mobs, guards, escapes, bad)


def run_journal(ctx, res, provider):
    import icalendar
    S.use_provider(provider)
    reqs, impl = [], []
    for st in PARSE_START:
        text = "\r\n".join(["BEGIN:VJOURNAL"] + prop_lines("DTSTART", st) + ["END:VJOURNAL"]) + "\r\n"
        for built in ("parsed", "api"):
            if built == "parsed":
                j = icalendar.Journal.from_ical(text)
            else:
                j = icalendar.Journal()
                if st == "many":
                    j.add("DTSTART", S.mk_dt(("d", 2020, 3, 28), provider))
                    j.add("DTSTART", S.mk_dt(("d", 2020, 3, 29), provider))
                elif st is not None and st[0] in ("d", "n", "u", "z"):
                    j.start = S.mk_dt(st, provider)
                elif st is not None:
                    j.add("DTSTART", S.mk_dt(st, provider))
            obs = [S.observe(lambda: j.start, S.c_time), S.observe(lambda: j.end, S.c_time),
                   S.observe(lambda: j.duration, S.td_s)]
            res.count((provider, "journal", built, st), nontrivial=False)
            res.dist(f"{provider}:journal")
            for g in obs:
                if is_err(g) and g not in DOCUMENTED:
                    res.fail("C16 journal: undocumented error", {"ical": text, "built": built}, observed=obs)
            if not is_err(obs[0]) and (obs[1] != obs[0] or obs[2] != 0):
                res.fail("C16 journal: end != start or duration != 0", {"ical": text, "built": built}, observed=obs)
            w = w_entry(st, provider)
            impl.append(({"provider": provider, "ical": text, "built": built}, obs))
            reqs.append(("c16_journal", [w, S.oracle_for(S.zids_in(w), provider)]))
    if ctx.model:
        for (inp, obs), m in zip(impl, ctx.model.batch(reqs)):
            res.corr("c16_journal(start,end,duration)", inp, obs, m)


def run(ctx, res):
    res.rule = ("operation sequences over 11 operations (5 setters incl. start/end, 3 deleters, 3 adds) x 7 values "
                "(2 dates, naive, UTC, Berlin date-time, 1-day and 1-hour timedelta) + None: exhaustive up to length "
                + ("3" if ctx.big else "2, length 3 by every op-kind pattern with sampled values plus a uniform sample")
                + ", random length 4-12 over 19 values, each on Event and Todo; all parsed property combinations "
                  "(8 x 8 x 6 per kind) and Journal, under zoneinfo and pytz; non-trivial = the history changes at least "
                  "two of the three entries (parsed: at least two present); distinct by content")
    cases = gen_sequences(ctx)
    try:
        impl = run_sequences(ctx, res, cases, "zoneinfo")
        rnd = [c for c in cases if c[0] in ("corpus", "random-4..12")]
        run_sequences(ctx, res, rnd, "pytz")
        for provider in ("zoneinfo", "pytz"):
            run_parsed(ctx, res, provider)
            run_journal(ctx, res, provider)
    finally:
        S.use_provider("zoneinfo")
    mid = impl[len(impl) // 2]
    res.sample({"kind": mid[1], "ops": mid[2], "observation [outcomes, entries, getters]": mid[3]})
    res.sample({"theorems": ["C16_exclusive_inv", "C16_setters_wellformed", "C16_step_effect", "C16_getters_forbidden",
                             "C16_getters_spec", "C16_end_minus_start", "C16_only_documented_errors", "C16_journal"]})


def replay(ctx, data):
    import icalendar
    inp = data["input"]
    provider = inp.get("provider", "zoneinfo")
    S.use_provider(provider)
    kind = 0 if inp.get("kind", "Event") == "Event" else 1
    if "ops" in inp:
        comp = icalendar.Event() if kind == 0 else icalendar.Todo()
        seq = [tuple(tuple(x) if isinstance(x, list) else x for x in op) for op in inp["ops"]]
        log = [apply_op(comp, kind, op, provider) for op in seq]
        print("impl outcomes:", log)
        if ctx.model:
            wops = [w_op(op, provider) for op in seq]
            print("model:", ctx.model.call("c16_run", [kind, wops, S.oracle_for(S.zids_in(wops), provider)]))
    else:
        comp = (icalendar.Event if kind == 0 else icalendar.Todo).from_ical(inp["ical"])
    print("impl entries:", state_of(comp, kind))
    print("impl getters [DTSTART, END, DURATION, start, end, duration]:", getters_of(comp, kind))
    S.use_provider("zoneinfo")
