"""C01 -- parse, serialise, parse of any accepted calendar is stable and lossless.

Correspondence of the tree model (Model/Tree.v: Contentlines.from_ical, the from_ical stack machine,
Component.add, property_items, content lines, to_ical) against the implementation on fixtures, generated
calendars and critical strings spliced into value / parameter / component-name slots; the leaf value codecs and
the time-zone cache are oracles recorded from the implementation (C03/C07/C19 and C12 are about those).
Direct property oracle: p(s(p(x))) == p(x) and s(p(s(p(x)))) == s(p(x)).
First-parse clause: syntax trees of the RFC 5545 content-line grammar (Model/RfcLine.v) printed by the model and by an
independent printer; the real Contentline.parts against the model's rfc_denote inside first_parse_guard
(theorems C01_first_parse_rfc / C01_first_parse_exact), see run_first_parse_rfc below."""
import itertools

from . import common
from . import treelib as T

FINGERPRINTS = ["cal.Component.from_ical", "cal.Component.add", "cal.Component.property_items",
                "cal.Component.content_line", "cal.Component.content_lines", "cal.Component.to_ical",
                "parser.Contentlines.from_ical", "parser.Contentlines.to_ical", "parser.Contentline.parts",
                "parser.Contentline.from_parts", "prop.TypesFactory.for_property", "caselessdict.canonsort_keys",
                "parser.escape_string", "parser.unescape_string", "parser.Parameters.from_ical", "parser.q_split",
                "parser.validate_token", "parser.validate_param_value"]
GEN = ["Gen_parser", "Gen_cal"]
ASSUMPTIONS = [
    "typed values are seen as (class, parameters, wire text = value.to_ical()); that each codec is stable on its own "
    "output is the subject of C03/C07/C19 and enters the tree theorems as a hypothesis on the decoder",
    "tzp.cache_timezone_component outcomes are recorded from the implementation and replayed to the model",
    "error messages of component.errors are not compared, only the property names",
]
TRUSTED = ["leaf decoders and the time-zone cache enter the tree model as recorded oracles (tools/harness/treelib.py)"]


def strip_errs(o):
    """the tree as the property compares it: properties as a mapping (insertion order is not part of it: the
    serialiser sorts them), values per name in order, subcomponents in order, error list dropped"""
    props = [[k, m, [[v[0], sorted(v[1], key=lambda kv: kv[0]), v[2]] for v in vs]] for k, m, vs in o[1]]
    return [o[0], sorted(props, key=lambda e: e[0]), [strip_errs(s) for s in o[2]]]


def values_of(o):
    for _, _, vs in o[1]:
        for v in vs:
            yield v
    for s in o[2]:
        yield from values_of(s)


def names_of(o):
    yield o[0]
    for s in o[2]:
        yield from names_of(s)


CRIT_SUBS = ["\\", "%2C", "%3A", "%3B", "%5C", "%2c", "%3a", "%3b", "%5c"]


def in_finding_class(o):
    """C01-F1: some value text, parameter value or component name contains a backslash or placeholder text --
    the double un-escaping of Contentline.parts (C05-F1/F2, C07-F1/F2) makes such trees unstable"""
    for v in values_of(o):
        texts = [v[2]] + [x for _, pv in v[1] for x in (pv if isinstance(pv, list) else [pv])]
        if any(c in t for t in texts for c in CRIT_SUBS):
            return True
    return any(any(c in n for c in "\\,;") for n in names_of(o))


def first_parse_names(text, comps):
    """{name: (lines in the text, values in the tree)} where they differ; None when they agree or the text is not balanced"""
    import collections
    from . import c09 as C09
    names, depth, nb, ne = collections.Counter(), 0, 0, 0
    for l in C09.logical_lines(text):
        if not l.strip():
            continue
        n = l.split(":")[0].split(";")[0].strip().upper()
        if n == "BEGIN":
            depth += 1
            nb += 1
        elif n == "END":
            depth -= 1
            ne += 1
        elif depth > 0:
            names[n] += 1
    got, ncomp, unnamed = collections.Counter(), 0, 0
    for root in comps:
        for c in root.walk():
            ncomp += 1
            for k in c.keys():
                got[k] += len(c[k]) if isinstance(c[k], list) else 1
            for e in getattr(c, "errors", None) or []:
                if e[0]:
                    got[str(e[0]).upper()] += 1
                else:
                    unnamed += 1          # the line could not even be split: its name is not recorded
    if not (nb == ne == ncomp):
        return None
    names.pop("FREEBUSY", None)
    got.pop("FREEBUSY", None)
    diff = {k: (names[k], got[k]) for k in set(names) | set(got) if names[k] != got[k]}
    missing = sum(a - b for a, b in diff.values() if a > b)
    extra = sum(b - a for a, b in diff.values() if b > a)
    if extra == 0 and missing == unnamed:
        return None
    return diff or None


def binary_payloads(text):
    """the decoded payloads of the VALUE=BINARY lines of a text (None: some payload is not base64)"""
    import base64
    import binascii
    import collections
    from . import c09 as C09
    out = collections.Counter()
    for l in C09.logical_lines(text):
        head, _, val = l.rpartition(":")
        if ";VALUE=BINARY" in head.upper() and "BASE64" in head.upper():
            try:
                out[base64.b64decode(val.strip(), validate=True)] += 1
            except (binascii.Error, ValueError):
                return None
    return out


def gen_cases(ctx):
    rng = common.rng_for(ctx.seed, "c01")
    cases = []
    for name, data in T.fixtures():
        cases.append(("fixture", name, data))
    if ctx.big:
        for name, data in T.fuzz_corpus():
            cases.append(("fuzz-corpus", name, data))
    for i in range(3000 if ctx.big else 150 * (1 + 3 * ctx.level)):
        cases.append(("generated", f"gen{i}", T.gen_calendar(rng)))
    strings = [""]
    for n in (1, 2):
        strings += ["".join(t) for t in itertools.product(T.CRIT, repeat=n)]
    k3 = 4000 if ctx.big else 250 * (1 + 3 * ctx.level)
    strings += ["".join(rng.choice(T.CRIT) for _ in range(rng.choice((3, 3, 4, 5)))) for _ in range(k3)]
    strings = ["\\,", "\\%5C,", "\\\\\\\\,", "a\\\\nb", "%2C", "x\\"] + strings
    sp = T.splice_cases(strings)
    if not ctx.big:
        keep = 2600 * (1 + ctx.level)
        if len(sp) > keep:
            sp = sp[:42] + rng.sample(sp[42:], keep - 42)
    for slot, s, text in sp:
        cases.append(("splice:" + slot, s, text))
    return cases


def run(ctx, res):
    import icalendar
    M = ctx.model
    known = ctx.known
    cases = gen_cases(ctx)
    res.rule = ("calendars: every .ics fixture of the repository" + (", the OSS-Fuzz corpus" if ctx.big else "") +
                ", generated well-formed calendars (9 component kinds incl. unknown/lower-case, nesting <= 5, 60 "
                "property shapes of all value types, mixed-case names, LF or CRLF), and critical strings (all of length "
                "<= 2 over 15 symbols, random 3-5) spliced raw into 7 slots (text, URL, unquoted/quoted parameter, "
                "CATEGORIES item, X- property, component name); non-trivial = parse accepted and the tree has >= 1 "
                "property; distinct by content.  First parse vs RFC 5545: syntax trees of the content-line grammar "
                "(corpus of the refutation witnesses, every value / paramtext / quoted-string of length <= 2 over an "
                "18-symbol critical alphabet, random trees with 0-3 parameters of 1-3 plain or quoted values, repeated names "
                "in either case) printed by the model and by an independent printer, the real Contentline.parts compared "
                "with the model's rfc_denote inside first_parse_guard")
    rows, reqs = [], []
    for kind, label, x in cases:
        res.dist(kind)
        text = x.decode("utf-8-sig", "replace") if isinstance(x, bytes) else x
        T.fresh_cache()
        o1, log1, comps1 = T.impl_parse(x, multiple=True)
        row = {"kind": kind, "label": label, "x": text, "o1": o1}
        nontriv = isinstance(o1, list) and o1 and o1[0] != "err" and any(any(True for _ in values_of(c)) for c in o1)
        res.count((kind, text), nontrivial=bool(nontriv))
        reqs.append(T.parse_req(x, True, log1))
        row["nreq"] = 1
        # single-component mode: only the count logic differs
        o1s, log1s, _ = T.impl_parse(x, multiple=False)
        reqs.append(T.parse_req(x, False, log1s))
        row["o1s"] = o1s
        row["nreq"] += 1
        if comps1 is not None and kind in ("fixture", "generated"):
            # first-parse clause, direct oracle: the property lines of a well-formed text (inside a component, not BEGIN/END)
            # and the property values of the tree (plus the errors recorded by lenient components) carry the same names the
            # same number of times -- nothing dropped, nothing invented.  FREEBUSY is left out (one line, several values).
            problem = first_parse_names(text, comps1)
            res.evaluations += 1
            if problem:
                res.fail("C01 first parse: the property names of the tree are not those of the text's content lines",
                         text[:1500], observed=problem)
        if comps1 is not None:
            sers = [T.impl_ser(c) for c in comps1]
            row["sers"] = sers
            for c_obs in o1:
                reqs.append(("tree_ser", [c_obs, 1]))
            row["nreq"] += len(o1)
            if all(isinstance(s, str) for s in sers) and sers:
                s1 = "".join(sers)
                row["s1"] = s1
                if kind == "generated":
                    # lines already in the library's own form come out as they went in, whatever else was parsed or written before
                    from . import c09 as C09
                    lin, lout = C09.logical_lines(text), set(C09.logical_lines(s1))
                    for l in T.SELF_CANONICAL:
                        if l in lin and l not in lout and not any(getattr(c, "errors", None) for r_ in comps1 for c in r_.walk()):
                            res.fail("C01 first parse: a date-time line in the library's own form is written differently",
                                     text[:1500], observed=[x for x in lout if x.split(":")[0] == l.split(":")[0]][:4], expected=l)
                if kind in ("fixture", "generated"):
                    # inline attachments: the bytes a BINARY line carries are the bytes the first serialisation carries
                    pin, pout = binary_payloads(text), binary_payloads(s1)
                    if pin and pin != pout and not any(getattr(c, "errors", None) for r_ in comps1 for c in r_.walk()):
                        res.fail("C01 first parse: the payload of an inline BINARY attachment is not the one of the text "
                                 "after parse and serialise", text[:1500],
                                 observed=sorted(map(repr, (pout or {}).keys())), expected=sorted(map(repr, pin.keys())))
                T.fresh_cache()
                o2, log2, comps2 = T.impl_parse(s1, multiple=True)
                row["o2"] = o2
                # the decoded Python values of both trees (the wire-text observation cannot see a date-time that
                # came back as a date with the same text)
                row["py_same"] = comps2 is None or [T.obs_py(c) for c in comps1] == [T.obs_py(c) for c in comps2]
                reqs.append(T.parse_req(s1, True, log2))
                row["nreq"] += 1
                # the guards of theorem C01_stable and its prediction (normal form), under the decoder oracle of s1
                orc = T.build_oracle(s1)
                for c_obs in o1:
                    reqs.append(("tree_guards", [c_obs, 1, orc]))
                row["nreq"] += len(o1)
                row["has_guards"] = True
                if comps2 is not None:
                    sers2 = [T.impl_ser(c) for c in comps2]
                    row["s2"] = "".join(s for s in sers2 if isinstance(s, str)) if all(isinstance(s, str) for s in sers2) else sers2
        if comps1 is not None and kind in ("fixture", "generated") and len(rows) % 3 == 0:
            # the parsed tree belongs to the caller: whatever is done to it, the same text parses to the same tree again
            for c in comps1:
                try:
                    T.scramble(c)
                except Exception:  # noqa: BLE001
                    pass
            T.fresh_cache()
            o1b, _, _ = T.impl_parse(x, multiple=True)
            res.evaluations += 1
            if o1b != o1:
                res.fail("C01: parsing the same text again gives another tree after the caller edited the first tree in place",
                         text[:1500], observed=o1b, expected=o1)
        rows.append(row)
    outs = M.batch(reqs) if M else None
    pos = 0
    n_stable = 0
    n_in_guard = 0
    for row in rows:
        agree = True
        if outs is not None:
            mo = outs[pos:pos + row["nreq"]]
            pos += row["nreq"]
            agree &= res.corr("Component.from_ical (multiple)", row["x"], row["o1"], mo[0])
            agree &= res.corr("Component.from_ical (single)", row["x"], row["o1s"] if row["o1s"][:1] == ["err"] else row["o1s"], mo[1])
            if "sers" in row:
                for c_obs, s, m in zip(row["o1"], row["sers"], mo[2:2 + len(row["o1"])]):
                    if T.has_unser(c_obs):
                        res.dist("tree with a value whose to_ical raises (ser not compared)")
                        continue
                    agree &= res.corr("Component.to_ical", c_obs, s, m)
                if "s1" in row:
                    k = 2 + len(row["o1"])
                    agree &= res.corr("Component.from_ical (re-parse of own output)", row["s1"], row["o2"], mo[k])
                    row["guards"] = mo[k + 1:k + 1 + len(row["o1"])]
        # ---- the property on the implementation
        if "s1" not in row:
            continue
        o1n = [strip_errs(c) for c in row["o1"]]
        o2 = row["o2"]
        stable = isinstance(o2, list) and o2[:1] != ["err"] and [strip_errs(c) for c in o2] == o1n and row.get("s2") == row["s1"]
        if stable and not row.get("py_same", True):
            res.fail("C01 lossless: the second parse holds other Python values than the first although names, parameters and "
                     "wire texts agree", {"kind": row["kind"], "label": row["label"], "x": row["x"][:2000]})
            continue
        g = row.get("guards")
        in_guard = bool(g) and all(isinstance(x, list) and len(x) == 3 and x[0] == 1 and x[1] == 1 for x in g)
        if in_guard:
            # inside the guards of theorem C01_stable: the implementation must be stable AND its second parse must be
            # exactly the normal form the theorem predicts
            n_in_guard += 1
            pred = [x[2] for x in g]
            if not stable or o2 != pred:
                res.fail("C01 inside the theorem's guards: second parse is not the predicted normal form / not stable",
                         {"kind": row["kind"], "label": row["label"], "x": row["x"][:2000]},
                         observed=_brief(o2), expected=_brief(pred))
                continue
        if stable:
            n_stable += 1
            continue
        cls = any(in_finding_class(c) for c in o1n)
        if cls and "C01-F1" in known and agree:
            res.known("C01-F1", {"kind": row["kind"], "input": row["label"] if row["kind"].startswith("splice") else row["label"],
                                 "first": _brief(o1n), "second": _brief(o2)}, known["C01-F1"]["summary"])
        else:
            res.fail("C01 stability: parse(serialise(parse(x))) differs from parse(x), or the second serialisation is not "
                     "byte-identical" + ("" if not cls else " (in the known class but not as the model predicts)"),
                     {"kind": row["kind"], "label": row["label"], "x": row["x"][:2000]},
                     observed={"second_parse": _brief(o2), "s2_equal": row.get("s2") == row["s1"]}, expected=_brief(o1n))
    res.extra["stable_cases"] = n_stable
    res.extra["cases_inside_theorem_guards"] = n_in_guard
    # ---- first-parse clause on generated well-formed calendars: names, parameters and TEXT values as written
    rng = common.rng_for(ctx.seed, "c01-first")
    nfirst = 0
    for i in range(400 if ctx.big else 60 * (1 + 3 * ctx.level)):
        props = [("SUMMARY", [], "a;b,c\nd\\e"), ("DESCRIPTION", [["ALTREP", "http://x/y"], ["LANGUAGE", "en"]], "é€😀 " + "x" * rng.randrange(0, 120)),
                 ("X-FOO", [["X-P", ["a", "b,c", "d;e"]]], "plain"), ("LOCATION", [["X-Q", "q:r"]], ""), ("COMMENT", [], ' "quoted" ')]
        rng.shuffle(props)
        body = []
        for n, ps, v in props:
            pt = "".join(";%s=%s" % (k, ",".join(('"%s"' % y) if any(c in y for c in ",;:") else y for y in (pv if isinstance(pv, list) else [pv])))
                         for k, pv in ps)
            vt = v.replace("\\", "\\\\").replace(";", "\\;").replace(",", "\\,").replace("\n", "\\n")
            body.append(n + pt + ":" + vt)
        text = "BEGIN:VCALENDAR\r\nBEGIN:VEVENT\r\n" + "\r\n".join(body) + "\r\nEND:VEVENT\r\nEND:VCALENDAR\r\n"
        ev = icalendar.Calendar.from_ical(text).subcomponents[0]
        res.evaluations += 1
        nfirst += 1
        for n, ps, v in props:
            got = ev[n]
            gps = T.obs_params(got.params)
            want = [[k, pv] for k, pv in ps]
            if str(got) != v or gps != want:
                if "\\" in v and "C01-F2" in known:
                    res.known("C01-F2", {"prop": n, "value": v, "got": str(got)}, known["C01-F2"]["summary"])
                else:
                    res.fail("C01 first parse: a well-formed RFC 5545 property is not read as the text denotes",
                             {"line": n, "value": v, "params": ps}, observed=[str(got), gps], expected=[v, want])
    res.extra["first_parse_cases"] = nfirst
    run_first_parse_rfc(ctx, res)
    ex = next((r for r in rows if r["kind"] == "generated"), rows[0])
    res.sample({"input": ex["x"][:600], "parsed": _brief(ex["o1"]), "serialised": (ex.get("s1") or "")[:300]})
    res.sample({"splice": [r["kind"], r["label"]] for r in rows if r["kind"].startswith("splice")} and
               {"splice_example": next(([r["kind"], r["label"], r["x"]] for r in rows if r["kind"] == "splice:param"), None)})


# ---------------------------------------------------------------------------- first parse vs the RFC 5545 grammar
# Theorem C01_first_parse_rfc: for every syntax tree of the content-line grammar (Model/RfcLine.v) inside
# first_parse_guard, Contentline.parts(printed text) is exactly the denotation.  Here: random / exhaustive-small /
# corpus syntax trees over a critical alphabet; (a) the model's printer against an independent printer written
# below, (b) the REAL parts() against the model's rfc_denote inside the guard (a difference is a VIOLATION);
# outside the guard a difference must be what the model's parts() predicts and is the known class C01-F3 / C01-F4.
RFC_ALPHA = ["a", "B", "z", "9", "-", " ", ";", ":", ",", "=", '"', "\\", "%", "2", "C", "n", "N", "é", "\U0001F600"]   # incl. a character outside the BMP
RFC_QSAFE = [c for c in RFC_ALPHA if c != '"']
RFC_SAFE = [c for c in RFC_QSAFE if c not in ";:,"]
RFC_NAME = list("abzABZ09-")
RFC_ESC = ["\\,", "\\;", "\\:", "\\\\"]
RFC_PH = ["%2C", "%3A", "%3B", "%5C"]
# the witnesses of the C01_first_parse_*_refuted theorems, then lines the guard admits
RFC_WITNESSES = [
    ["N", [], "a\\,b"], ["N", [], "a\\\\nb"], ["N", [["P", [[0, "a\\"], [0, "b"]]]], "v"],
    ["N", [["P", [[1, "a\\;b"]]]], "v"], ["N", [["P", [[0, "a\\"]]], ["Q", [[0, "b"]]]], "v"],
    ["N", [["P", [[0, "a\\"]]]], "v"], ["N", [], "100%2Cx"], ["N", [["P", [[0, "a%3Ab"], [1, "%5C"]]]], "v"],
    ["N", [["P", [[0, "a"]]], ["p", [[0, "b"]]]], "v"],
    ["N", [["P", [[1, "a\\"], [0, "\\n%2c%"]]]], 'x\\ny\\N"q:r";%2%3a\\'],
    ["Attendee", [["CN", [[0, "Jane Doe"]]], ["x-note", [[1, "a;b:c,d=e"]]],
                  ["MEMBER", [[1, "mailto:a@x"], [0, "pl\\ain"], [1, ""], [0, ""]]]], 'mailto:j@x;y=1,z\\n"q" 100% é€'],
    ["X", [["P", [[1, ""]]]], ""], ["X", [["P", [[0, ""]]]], ":"], ["X", [["P", [[0, ""], [0, ""]]]], '"'],
    ["X", [["P", [[0, "a=b"]]]], "="], ["X", [["P", [[1, "\\"]]]], "v"], ["X", [["P", [[1, "a"]]], ["Q", [[1, ";"]]]], "\\"],
]


def rfc_control(c):
    o = ord(c)
    return o <= 8 or 10 <= o <= 31 or o == 127


def rfc_name_ok(s):
    return len(s) > 0 and all(("A" <= c <= "Z") or ("a" <= c <= "z") or ("0" <= c <= "9") or c == "-" for c in s)


def rfc_ok(ast):
    """well-formedness straight from the grammar (independent of the Coq text)"""
    name, params, value = ast
    if not rfc_name_ok(name) or any(rfc_control(c) for c in value):
        return False
    for k, vals in params:
        if not rfc_name_ok(k) or not vals:
            return False
        for q, t in vals:
            if any(rfc_control(c) or c == '"' for c in t):
                return False
            if not q and any(c in ";:," for c in t):
                return False
    return True


def rfc_print_py(ast):
    name, params, value = ast
    out = [name]
    for k, vals in params:
        out.append(";" + k + "=" + ",".join(('"' + t + '"') if q else t for q, t in vals))
    out.append(":" + value)
    return "".join(out)


def rfc_denote_py(ast):
    name, params, value = ast
    ps = []
    for k, vals in params:
        ts = [t for _, t in vals]
        ps.append([k.upper(), ts[0] if len(ts) == 1 else ts])
    return [name, ps, value]


def rfc_guard_py(ast):
    text = rfc_print_py(ast)
    ks = [k.upper() for k, _ in ast[1]]
    return [not any(x in text for x in RFC_ESC), not any(x in text for x in RFC_PH), len(set(ks)) == len(ks)]


def gen_rfc_asts(ctx):
    rng = common.rng_for(ctx.seed, "c01-rfc")
    out = [("corpus", a) for a in RFC_WITNESSES]
    # exhaustive-small: every value of length <= 2, every single paramtext / quoted-string of length <= 2
    for n in range(0, 3):
        for t in itertools.product(RFC_ALPHA, repeat=n):
            out.append(("exh-value", ["X-a", [], "".join(t)]))
        for t in itertools.product(RFC_SAFE, repeat=n):
            out.append(("exh-paramtext", ["N", [["p", [[0, "".join(t)]]]], rng.choice(["", "v", ",", "C", "2C", ":"])]))
        for t in itertools.product(RFC_QSAFE, repeat=n):
            out.append(("exh-quoted", ["N", [["p", [[1, "".join(t)]]]], rng.choice(["", "v", ",", "C", "2C", ";"])]))

    def rstr(alpha, lens=(0, 1, 2, 3, 5, 8)):
        return "".join(rng.choice(alpha) for _ in range(rng.choice(lens)))

    def rname():
        return "".join(rng.choice(RFC_NAME) for _ in range(rng.randrange(1, 5)))
    for _ in range(30000 if ctx.big else 3000 * (1 + 3 * ctx.level)):
        params = []
        for _ in range(rng.choice((0, 1, 1, 2, 3))):
            if params and rng.random() < 0.08:       # a repeated name, possibly in another letter case
                k = rng.choice(params)[0]
                k = k.swapcase() if rng.random() < 0.5 else k
            else:
                k = rname()
            vals = []
            for _ in range(rng.choice((1, 1, 1, 2, 3))):
                vals.append([1, rstr(RFC_QSAFE)] if rng.random() < 0.45 else [0, rstr(RFC_SAFE)])
            params.append([k, vals])
        out.append(("random", [rname(), params, rstr(RFC_ALPHA, (0, 1, 3, 6, 12))]))
    return out


def run_first_parse_rfc(ctx, res):
    from icalendar.parser import Contentline
    M = ctx.model
    known = ctx.known
    cases = gen_rfc_asts(ctx)
    reqs, rows = [], []
    for kind, ast in cases:
        res.dist("rfc:" + kind)
        text = rfc_print_py(ast)
        res.count(("rfc", text, repr(ast)), nontrivial=bool(ast[1]) or any(c in ast[2] for c in '\\;:,"%'))
        assert rfc_ok(ast), ast                       # the generator produces well-formed trees only
        try:
            n, p, v = Contentline(text).parts()
            impl = [n, T.obs_params(p), v]
        except ValueError:
            impl = ["err", "ValueError"]
        rows.append((kind, ast, text, impl))
        reqs.append(("rfc_line", ast))
        reqs.append(("parts", text))
    outs = M.batch(reqs) if M else None
    n_in = n_out = n_out_equal = 0
    for i, (kind, ast, text, impl) in enumerate(rows):
        den = rfc_denote_py(ast)
        g = rfc_guard_py(ast)
        agree = True
        if outs is not None:
            m, m_parts = outs[2 * i], outs[2 * i + 1]
            if m == ["unsupported"]:
                res.unsupported += 1
                continue
            m_print, m_den, m_ok, g1, g2, g3 = m
            # (a) the model's reading against the independent one written above
            res.corr("rfc_print (model) vs independent printer", ast, text, m_print)
            res.corr("rfc_denote (model) vs independent denotation", ast, den, m_den)
            res.corr("rfc_line_ok / first_parse_guard (model) vs independent", ast, [1] + [int(b) for b in g], [m_ok, g1, g2, g3])
            agree = res.corr("Contentline.parts", text, impl, m_parts)
            if m_parts == ["unsupported"] and not (g1 and g2 and g3):
                continue                                  # the model declines (non-ASCII text reaches a name): counted, not classified
            den, g = m_den, [bool(g1), bool(g2), bool(g3)]          # the theorem is about the model's reading
        if all(g):
            n_in += 1
            # (b) inside the guard of theorem C01_first_parse_rfc the implementation must return the denotation
            if impl != den:
                res.fail("C01 first parse inside the theorem's guard: Contentline.parts(text printed from a well-formed "
                         "RFC 5545 syntax tree) is not what the text denotes", {"ast": ast, "text": text},
                         observed=impl, expected=den)
            continue
        n_out += 1
        if impl == den:
            n_out_equal += 1                          # the guard would not have been needed for this tree
            continue
        fid = "C01-F3" if not (g[0] and g[1]) else "C01-F4"
        if fid in known and agree:
            res.known(fid, {"text": text, "parts": impl, "denotes": den}, known[fid]["summary"])
        else:
            res.fail("C01 first parse outside the guard: the difference is not the one the model of parts() predicts"
                     if fid in known else "C01 first parse: a well-formed RFC 5545 line is not read as the text denotes",
                     {"ast": ast, "text": text}, observed=impl, expected=den)
    res.extra["rfc_first_parse_inside_guard"] = n_in
    res.extra["rfc_first_parse_outside_guard"] = n_out
    res.extra["rfc_first_parse_outside_guard_but_equal"] = n_out_equal
    res.sample({"rfc_ast": RFC_WITNESSES[10], "text": rfc_print_py(RFC_WITNESSES[10]), "denotes": rfc_denote_py(RFC_WITNESSES[10])})


def _brief(o, lim=600):
    s = repr(o)
    return s if len(s) <= lim else s[:lim] + "..."


def replay(ctx, data):
    import icalendar
    if isinstance(data.get("input"), dict) and "ast" in data["input"]:
        from icalendar.parser import Contentline
        ast = data["input"]["ast"]
        text = rfc_print_py(ast)
        print("syntax tree :", ast)
        print("text        :", repr(text))
        print("denotes     :", rfc_denote_py(ast), " guard (no escape, no placeholder, names distinct):", rfc_guard_py(ast))
        try:
            n, p, v = Contentline(text).parts()
            print("parts()     :", [n, T.obs_params(p), v])
        except ValueError as e:
            print("parts()     : ValueError", e)
        if ctx.model:
            print("model       :", ctx.model.batch([("rfc_line", ast), ("parts", text)]))
        return
    x = data["input"]["x"] if isinstance(data.get("input"), dict) else data["input"]
    o1, _, comps = T.impl_parse(x)
    print("first parse :", _brief(o1, 2000))
    if comps:
        s1 = "".join(T.impl_ser(c) for c in comps)
        print("serialised  :", repr(s1)[:2000])
        o2, _, _ = T.impl_parse(s1)
        print("second parse:", _brief(o2, 2000))
