"""C19 -- recurrence rules round-trip all parts, FREQ first, same occurrences.

Generated rules are built as vRecur objects, encoded, decoded and encoded again on the implementation and
on the extracted model (Model/Recur.v); the direct oracle (independent of the model) checks the decoded
parts against the supplied rule, the text against a regex RECUR recogniser written from the ABNF, FREQ
first, and -- as an implementation-level oracle -- that dateutil expands the text and the supplied rule
to the same occurrences."""
import datetime as dt
import itertools
import re

from . import common

GEN = ["Gen_recur"]
FINGERPRINTS = ["prop.vRecur.__init__", "prop.vRecur.to_ical", "prop.vRecur.parse_type", "prop.vRecur.from_ical",
                "prop.vWeekday.__new__", "prop.vWeekday.to_ical", "prop.vWeekday.from_ical",
                "prop.vFrequency.__new__", "prop.vFrequency.to_ical", "prop.vFrequency.from_ical",
                "prop.vMonth.__new__", "prop.vMonth.to_ical", "prop.vMonth.from_ical", "prop.vMonth.__str__",
                "prop.vInt.__new__", "prop.vInt.to_ical", "prop.vInt.from_ical", "prop.vText.__new__",
                "prop.vText.to_ical", "prop.vText.from_ical", "prop.vDDDTypes.__init__", "prop.vDDDTypes.to_ical",
                "prop.vDDDTypes.from_ical", "prop.vDate.to_ical", "prop.vDate.from_ical", "prop.vDatetime.to_ical",
                "prop.vDatetime.from_ical", "prop.vSkip", "caselessdict.canonsort_keys",
                "caselessdict.CaselessDict.__init__", "caselessdict.CaselessDict.__setitem__"]
ASSUMPTIONS = [
    "all texts are ASCII (str.upper, str.isdigit, \\d, \\w and int() are modelled on ASCII; the model declines others)",
    "UNTIL is a date, a floating date-time or a UTC date-time (a zoned date-time is written as floating: outside the property)",
    "in-domain values: what the part's value class accepts and RFC 5545/7529 allow (non-empty lists, months >= 0, "
    "RSCALE a plain token); other inputs are compared with the model only",
    "int() on text with blanks, underscores or an explicit sign inside date fields is not modelled (model declines)",
]
TRUSTED = ["the regex RECUR recogniser and the canonical-form function in this module (direct oracle)",
           "dateutil.rrule as implementation-level expander oracle (not modelled)"]

ORDER = ["RSCALE", "FREQ", "UNTIL", "COUNT", "INTERVAL", "BYSECOND", "BYMINUTE", "BYHOUR", "BYDAY", "BYWEEKDAY",
         "BYMONTHDAY", "BYYEARDAY", "BYWEEKNO", "BYMONTH", "BYSETPOS", "WKST", "SKIP"]
FREQS = ["SECONDLY", "MINUTELY", "HOURLY", "DAILY", "WEEKLY", "MONTHLY", "YEARLY"]
DAYS = ["SU", "MO", "TU", "WE", "TH", "FR", "SA"]
INT_PARTS = {"COUNT": (1, 500, False), "INTERVAL": (1, 60, False), "BYSECOND": (0, 60, False), "BYMINUTE": (0, 59, False),
             "BYHOUR": (0, 23, False), "BYMONTHDAY": (1, 31, True), "BYYEARDAY": (1, 366, True),
             "BYWEEKNO": (1, 53, True), "BYSETPOS": (1, 366, True)}
UTC = dt.timezone.utc


# ---------------------------------------------------------------------------- values <-> wire
def wire_val(v):
    from icalendar.prop import vMonth
    if isinstance(v, vMonth):
        return ["month", int(v), int(bool(v.leap))]
    if isinstance(v, bool):
        raise TypeError("bool")
    if isinstance(v, int):
        return ["int", int(v)]
    if isinstance(v, dt.datetime):
        utc = v.tzinfo is not None and v.utcoffset() == dt.timedelta(0)
        return ["datetime", v.year, v.month, v.day, v.hour, v.minute, v.second, int(utc)]
    if isinstance(v, dt.date):
        return ["date", v.year, v.month, v.day]
    if isinstance(v, str):
        return ["str", getattr(v, "value", None) if hasattr(v, "_name_") else str(v)]
    return ["other", type(v).__name__]      # time, timedelta, period: value types the model declines


def wire_rule(items, kwform):
    out = []
    for k, v in items:
        if isinstance(v, (list, tuple)):
            out.append([k, ["many", [wire_val(x) for x in v]]])
        elif kwform:
            out.append([k, ["many", [wire_val(v)]]])       # vRecur.__init__ wraps keyword scalars
        else:
            out.append([k, ["one", wire_val(v)]])
    return out


def obs_rule(r):
    return [[k, ["many", [wire_val(x) for x in v]] if isinstance(v, (list, tuple)) else ["one", wire_val(v)]]
            for k, v in r.items()]


# ---------------------------------------------------------------------------- the property, independently of the model
def canon_expected(items):
    """the supplied rule in canonical form: upper-case names (a later spelling of the same name overwrites in
    place), canonical part order, values as typed values"""
    d = {}
    for k, v in items:
        d[k.upper()] = v
    keys = [k for k in ORDER if k in d] + sorted(k for k in d if k not in ORDER)
    out = []
    for k in keys:
        vals = d[k] if isinstance(d[k], (list, tuple)) else [d[k]]
        cv = []
        for v in vals:
            w = wire_val(v)
            if k == "BYMONTH":
                if w[0] == "int":
                    w = ["month", w[1], 0]
                elif w[0] == "str":
                    w = ["month", int(w[1].rstrip("L")), int(w[1].endswith("L"))]
            elif k in ("FREQ", "BYDAY", "BYWEEKDAY", "WKST") and w[0] == "str":
                w = ["str", w[1].upper()]
            cv.append(w)
        out.append([k, ["many", cv]])
    return out


_D = r"[0-9]"
_WD = r"(?:SU|MO|TU|WE|TH|FR|SA)"
_LIST = lambda x: rf"{x}(?:,{x})*"          # noqa: E731
G_PARTS = {
    "FREQ": r"(?:SECONDLY|MINUTELY|HOURLY|DAILY|WEEKLY|MONTHLY|YEARLY)",
    "UNTIL": rf"{_D}{{8}}(?:T{_D}{{6}}Z?)?",
    "COUNT": rf"{_D}+", "INTERVAL": rf"{_D}+",
    "BYSECOND": _LIST(rf"{_D}{{1,2}}"), "BYMINUTE": _LIST(rf"{_D}{{1,2}}"), "BYHOUR": _LIST(rf"{_D}{{1,2}}"),
    "BYDAY": _LIST(rf"(?:[+-]?{_D}{{1,2}})?{_WD}"),
    "BYMONTHDAY": _LIST(rf"[+-]?{_D}{{1,2}}"), "BYYEARDAY": _LIST(rf"[+-]?{_D}{{1,3}}"),
    "BYWEEKNO": _LIST(rf"[+-]?{_D}{{1,2}}"), "BYMONTH": _LIST(rf"{_D}{{1,2}}L?"),
    "BYSETPOS": _LIST(rf"[+-]?{_D}{{1,3}}"), "WKST": _WD,
    "RSCALE": r"[A-Za-z0-9-]+", "SKIP": r"(?:OMIT|BACKWARD|FORWARD)",
}
G_RE = {k: re.compile(v + r"\Z") for k, v in G_PARTS.items()}


def regex_grammar(txt):
    """RFC 5545 3.3.10 / RFC 7529 4.1 recogniser: parts NAME=value(s) joined by ';', each name once, FREQ first
    (after RSCALE if present), COUNT and UNTIL not together"""
    names = []
    for part in txt.split(";"):
        if part.count("=") != 1:
            return False
        name, vals = part.split("=")
        if name not in G_RE or not G_RE[name].match(vals):
            return False
        names.append(name)
    if len(set(names)) != len(names) or ("COUNT" in names and "UNTIL" in names):
        return False
    return names[:1] == ["FREQ"] or names[:2] == ["RSCALE", "FREQ"]


# ---------------------------------------------------------------------------- generators
def cased(rng, s):
    r = rng.random()
    return s if r < 0.5 else s.lower() if r < 0.75 else s.capitalize() if r < 0.9 else "".join(
        c.lower() if rng.random() < 0.5 else c for c in s)


def gen_int(rng, part):
    lo, hi, signed = INT_PARTS[part]
    z = rng.choice([lo, hi, rng.randint(lo, hi), rng.randint(lo, hi)])
    if part == "COUNT" and rng.random() < 0.1:
        z = rng.choice([1, 10 ** 6, 2 ** 31 - 1, 10 ** 15])
    return -z if signed and rng.random() < 0.4 else z


def gen_day(rng, ordinal):
    d = cased(rng, rng.choice(DAYS))
    if not ordinal:
        return d
    n = rng.choice([1, 2, 5, 53, rng.randint(1, 53)])
    sign = rng.choice(["", "", "-", "+"])
    return f"{sign}{n}{d}"


def gen_until(rng):
    from calendar import monthrange
    y = rng.choice([1, 999, 1970, 2000, 2024, 2038, 9999, rng.randint(1, 9999)])
    m = rng.randint(1, 12)
    d = rng.choice([1, monthrange(y, m)[1], rng.randint(1, monthrange(y, m)[1])])
    kind = rng.randrange(3)
    if kind == 0:
        return dt.date(y, m, d)
    h, mi, s = rng.choice([(0, 0, 0), (23, 59, 59), (rng.randrange(24), rng.randrange(60), rng.randrange(60))])
    return dt.datetime(y, m, d, h, mi, s, tzinfo=UTC if kind == 2 else None)


def gen_month(rng):
    from icalendar.prop import vMonth
    m = rng.choice([1, 12, 13, rng.randint(1, 12)])
    r = rng.random()
    if r < 0.45:
        return m
    if r < 0.6:
        return f"{m}L"
    if r < 0.7:
        return str(m)
    if r < 0.85:
        return vMonth(f"{m}L")
    return vMonth(m)


def gen_part(rng, part):
    """a value (scalar or list) for one part"""
    multi = rng.random() < 0.5
    n = rng.choice([1, 2, 3, 5]) if multi else 1
    if part == "FREQ":
        return cased(rng, rng.choice(FREQS))
    if part == "UNTIL":
        return gen_until(rng)
    if part in ("COUNT", "INTERVAL"):
        return gen_int(rng, part)
    if part in INT_PARTS:
        vals = [gen_int(rng, part) for _ in range(n)]
    elif part in ("BYDAY", "BYWEEKDAY"):
        vals = [gen_day(rng, rng.random() < 0.5) for _ in range(n)]
    elif part == "BYMONTH":
        vals = [gen_month(rng) for _ in range(n)]
    elif part == "WKST":
        return gen_day(rng, False)
    elif part == "SKIP":
        from icalendar.prop import vSkip
        v = rng.choice(["OMIT", "FORWARD", "BACKWARD"])
        return vSkip(v) if rng.random() < 0.3 else v
    elif part == "RSCALE":
        return rng.choice(["GREGORIAN", "CHINESE", "HEBREW", "gregorian", "ISLAMIC-CIVIL", "X-ABC1"])
    else:
        raise ValueError(part)
    if multi or rng.random() < 0.5:
        return tuple(vals) if rng.random() < 0.2 else vals
    return vals[0]


def gen_rule(rng, rfc=True):
    parts = ["FREQ"]
    if rng.random() < 0.6:
        parts.append(rng.choice(["COUNT", "UNTIL"]))
    others = [p for p in ORDER if p not in ("FREQ", "COUNT", "UNTIL", "RSCALE", "SKIP", "BYWEEKDAY")]
    parts += rng.sample(others, rng.choice([0, 1, 1, 2, 3, 5, len(others)]))
    if rng.random() < 0.25:
        parts += ["RSCALE"] + (["SKIP"] if rng.random() < 0.7 else [])
    if not rfc:
        if rng.random() < 0.3:
            parts.remove("FREQ")
        if rng.random() < 0.3:
            parts.append("BYWEEKDAY")
        if rng.random() < 0.2:
            parts += ["COUNT", "UNTIL"]
    rng.shuffle(parts)
    items = [(cased(rng, p), gen_part(rng, p)) for p in parts]
    if not rfc and items and rng.random() < 0.3:          # a second spelling of a name that is already there
        k, _ = rng.choice(items)
        items.append((k.swapcase(), gen_part(rng, k.upper())))
    return items


ODD = [  # outside the domain: compared with the model only
    # integers given as text in the spellings int() accepts
    [("FREQ", "MONTHLY"), ("BYSETPOS", ["+2", "-1"])], [("FREQ", "MONTHLY"), ("BYMONTHDAY", "+15")], [("FREQ", "DAILY"), ("BYHOUR", "08")],
    [("FREQ", "DAILY"), ("INTERVAL", " 5")], [("FREQ", "DAILY"), ("COUNT", "1_0")], [("FREQ", "DAILY"), ("BYMINUTE", ["05", "+30"])],
    [("FREQ", "YEARLY"), ("BYYEARDAY", ("+32", "-1"))], [("FREQ", "YEARLY"), ("BYWEEKNO", "+05")],
    [("FREQ", "DAILY"), ("BYMONTH", -5)],
    [("FREQ", "DAILY"), ("BYDAY", [])],
    [("FREQ", "DAILY"), ("BYDAY", "+MO")],
    [("FREQ", "DAILY"), ("BYDAY", "MO\n")],
    [("FREQ", "DAILY"), ("BYDAY", "00MO")],
    [("FREQ", "DAILY"), ("BYDAY", "123MO")],
    [("FREQ", "DAILY"), ("BYDAY", "M0")],
    [("FREQ", "DAILY"), ("BYDAY", "XX")],
    [("FREQ", "DAILY"), ("BYDAY", "1_MO")],
    [("FREQ", "DAILY"), ("COUNT", 0)],
    [("FREQ", "DAILY"), ("COUNT", -3)],
    [("FREQ", "DAILY"), ("SKIP", "omit")],
    [("FREQ", "NEVER")],
    [("FREQ", "DAILY"), ("X-FOO", "bar")],
    [("FREQ", "DAILY"), ("X-FOO", "a,b;c")],
    [("FREQ", "DAILY"), ("RSCALE", "a=b")],
    [("FREQ", "DAILY"), ("BYMONTH", "5X")],
    [("FREQ", "DAILY"), ("BYMONTH", "L")],
    [("FREQ", "DAILY"), ("BYMONTH", "05")],
    [("FREQ", "DAILY"), ("BYMONTH", "-5L")],
    [("FREQ", "DAILY"), ("UNTIL", "20200101")],
    [("FREQ", "DAILY"), ("COUNT", "7")],
    [("FREQ", "DAILY"), ("COUNT", "+7")],
    [("FREQ", "DAILY"), ("COUNT", "x")],
    [],
]

MALFORMED_PIECES = ["FREQ=DAILY", "freq=weekly", "COUNT=3", "COUNT=+3", "COUNT=x", "COUNT=", "COUNT", "=", "", "A=B=C",
                    "BYDAY=MO,-1SU", "BYDAY=8mo", "BYDAY=MOO", "BYDAY=+MO", "BYDAY=1", "BYDAY=,", "byday=tu",
                    "UNTIL=20200230", "UNTIL=20200229", "UNTIL=20200101T000000", "UNTIL=20200101T000000Z",
                    "UNTIL=20200101T000000X", "UNTIL=20200101X000000", "UNTIL=2020010", "UNTIL=00000101",
                    "UNTIL=20201301", "UNTIL=20200101T240000", "UNTIL=20200101T236000", "UNTIL=2020-1-1", "UNTIL=abcdefgh",
                    "UNTIL=P1D", "UNTIL=120000", "BYMONTH=5L", "BYMONTH=5X", "BYMONTH=L", "BYMONTH=13", "BYMONTH=-1",
                    "BYMONTH=05", "SKIP=OMIT", "SKIP=omit", "RSCALE=CHINESE", "X-A=b\\,c", "WKST=SU", "WKST=1SU",
                    "INTERVAL=02", "BYSETPOS=-1,1", "BYHOUR=1,,2", "BYWEEKDAY=FR", "FREQ=daily,weekly", "FREQ="]


def gen_cases(ctx):
    from icalendar.prop import vMonth
    rng = common.rng_for(ctx.seed, "c19")
    cases = []
    corpus = [
        [("FREQ", "DAILY"), ("COUNT", 10)],
        [("freq", "weekly"), ("byday", ["mo", "-1su", "+2FR"]), ("until", dt.datetime(2025, 1, 1, 12, 0, 0, tzinfo=UTC))],
        [("BYMONTH", [1, "5L", vMonth("13L")]), ("FREQ", "YEARLY"), ("RSCALE", "CHINESE"), ("SKIP", "FORWARD")],
        [("INTERVAL", 2), ("BYSETPOS", [-1, 1]), ("FREQ", "MONTHLY"), ("WKST", "su"), ("UNTIL", dt.date(2030, 2, 28))],
        [("FREQ", "YEARLY"), ("BYYEARDAY", [-366, 366, 1]), ("BYWEEKNO", [-53, 53]), ("BYMONTHDAY", (-31, 31)),
         ("BYHOUR", [0, 23]), ("BYMINUTE", [0, 59]), ("BYSECOND", [0, 60]), ("UNTIL", dt.datetime(9999, 12, 31, 23, 59, 59))],
    ]
    for c in corpus:
        for kw in (False, True):
            cases.append(("corpus", c, kw))
    # every FREQ in several spellings, alone and with every other single part
    for f in FREQS:
        for spell in (f, f.lower(), f.capitalize()):
            cases.append(("freq", [("FREQ", spell)], False))
    for p in ORDER:
        if p == "FREQ":
            continue
        for _ in range(40 if ctx.big else 12):
            for first in (True, False):
                part = (cased(rng, p), gen_part(rng, p))
                fr = (cased(rng, "FREQ"), cased(rng, rng.choice(FREQS)))
                cases.append(("single-part:" + p, [fr, part] if first else [part, fr], rng.random() < 0.5))
    # every ordinal weekday
    for d in DAYS:
        for n in list(range(1, 54)) if ctx.big else (1, 2, 9, 10, 53):
            for sign in ("", "+", "-"):
                cases.append(("weekdaynum", [("FREQ", "MONTHLY"), ("BYDAY", [f"{sign}{n}{d}", d.lower()])], False))
    for _ in range(30000 if ctx.big else 2500 * (1 + 3 * ctx.level)):
        cases.append(("random-rfc", gen_rule(rng, True), rng.random() < 0.5))
    for _ in range(6000 if ctx.big else 500 * (1 + 3 * ctx.level)):
        cases.append(("random-loose", gen_rule(rng, False), rng.random() < 0.5))
    for o in ODD:
        cases.append(("odd", o, False))
    return cases


def gen_malformed(ctx):
    rng = common.rng_for(ctx.seed, "c19-malformed")
    out = list(MALFORMED_PIECES)
    for _ in range(6000 if ctx.big else 700 * (1 + 3 * ctx.level)):
        out.append(";".join(rng.choice(MALFORMED_PIECES) for _ in range(rng.randrange(1, 5))))
    return out


# ---------------------------------------------------------------------------- running
def build(items, kwform):
    from icalendar.prop import vRecur
    if kwform:
        return vRecur(**dict(items)) if len({k for k, _ in items}) == len(items) else None
    return vRecur(list(items))


def outcome(fn):
    try:
        return fn()
    except Exception as e:  # noqa: BLE001
        return ["err", common.exc_class(e)]


def impl_roundtrip(items, kwform):
    from icalendar.prop import vRecur
    r = build(items, kwform)
    txt = outcome(lambda: r.to_ical().decode("utf-8"))
    if isinstance(txt, list):
        return txt, ["none"], ["none"]
    back = outcome(lambda: vRecur.from_ical(txt))
    if isinstance(back, list):
        return txt, back, ["none"]
    txt2 = outcome(lambda: back.to_ical().decode("utf-8"))
    return txt, obs_rule(back), txt2


def dateutil_kwargs(items):
    """the supplied rule as keyword arguments of dateutil.rrule.rrule (None if dateutil has no such part)"""
    from dateutil import rrule as R
    d = {}
    for k, v in items:
        d[k.upper()] = v
    if "FREQ" not in d or "RSCALE" in d or "SKIP" in d or "BYWEEKDAY" in d:
        return None
    kw = {"freq": getattr(R, str(d["FREQ"]).upper())}
    wd = dict(zip(DAYS, (R.SU, R.MO, R.TU, R.WE, R.TH, R.FR, R.SA)))

    def lst(x):
        return list(x) if isinstance(x, (list, tuple)) else [x]

    def day(s):
        s = str(s).upper()
        w = wd[s[-2:]]
        return w(int(s[:-2])) if s[:-2] else w
    for k, v in d.items():
        if k == "FREQ":
            continue
        if k == "COUNT":
            kw["count"] = int(v)
        elif k == "UNTIL":
            kw["until"] = v if isinstance(v, dt.datetime) else dt.datetime.combine(v, dt.time())
        elif k == "INTERVAL":
            kw["interval"] = int(v)
        elif k == "WKST":
            kw["wkst"] = wd[str(v).upper()]
        elif k == "BYDAY":
            kw["byweekday"] = [day(x) for x in lst(v)]
        elif k == "BYMONTH":
            ms = []
            for x in lst(v):
                w = wire_val(x)
                if w[0] == "str" and w[1].endswith("L") or w[0] == "month" and w[2]:
                    return None
                ms.append(int(w[1]))
            kw["bymonth"] = ms
        else:
            name = {"BYSECOND": "bysecond", "BYMINUTE": "byminute", "BYHOUR": "byhour", "BYMONTHDAY": "bymonthday",
                    "BYYEARDAY": "byyearday", "BYWEEKNO": "byweekno", "BYSETPOS": "bysetpos"}[k]
            kw[name] = [int(x) for x in lst(v)]
    return kw


def dateutil_agree(items, txt):
    """None if not applicable, else (occurrences from the text, occurrences from the supplied rule)"""
    from dateutil import rrule as R
    kw = dateutil_kwargs(items)
    if kw is None:
        return None
    until = kw.get("until")
    start = dt.datetime(2021, 1, 4, 9, 30, 15, tzinfo=UTC if (until is not None and until.tzinfo) else None)
    if kw["freq"] in (R.SECONDLY, R.MINUTELY) and (len(kw) > 3):
        return None                      # dateutil can search for a very long time on sparse sub-daily rules
    import signal

    class Slow(Exception):
        pass

    def on_alarm(*_):
        raise Slow()
    old = signal.signal(signal.SIGALRM, on_alarm)
    signal.setitimer(signal.ITIMER_REAL, 0.25)      # dateutil searches without bound on unsatisfiable combinations
    try:
        try:
            a = list(itertools.islice(R.rrule(dtstart=start, **kw), 12))
        except Slow:
            return None
        except Exception:  # noqa: BLE001  (a combination dateutil rejects)
            return None
        signal.setitimer(signal.ITIMER_REAL, 2.0)
        try:
            b = list(itertools.islice(R.rrulestr(txt, dtstart=start), 12))
        except Slow:
            return None
        except Exception as e:  # noqa: BLE001
            b = ["err", type(e).__name__, str(e)[:80]]
    finally:
        signal.setitimer(signal.ITIMER_REAL, 0)
        signal.signal(signal.SIGALRM, old)
    return b, a


def run(ctx, res):
    from icalendar.prop import vRecur
    M = ctx.model
    cases = gen_cases(ctx)
    res.rule = ("recurrence rules built as vRecur from a mapping or from keywords: every FREQ in 3 spellings; FREQ plus "
                "each other part (COUNT, UNTIL as date / floating / UTC date-time incl. years 1 and 9999 and month ends, "
                "INTERVAL, every BYxxx with single or multiple, positive or negative boundary and random values, ordinal "
                "weekdays with and without sign, WKST, BYMONTH as int / 'NL' text / vMonth incl. leap months and 13, "
                "SKIP, RSCALE) in both orders; random combinations of 1-16 parts with names in random letter case, "
                "scalars, lists and tuples; 'loose' rules (no FREQ, COUNT with UNTIL, BYWEEKDAY, the same name twice in "
                "different case) and a table of out-of-domain values; a malformed-text stream for from_ical; "
                "non-trivial = the rule has at least two parts or a multi-valued part; distinct by rule content")
    reqs, meta = [], []
    n_du = 0
    du_budget = 4000 if ctx.big else 400
    for kind, items, kwform in cases:
        r = build(items, kwform)
        if r is None:
            kwform = False
        w = wire_rule(items, kwform)
        res.dist(kind)
        res.count(w, nontrivial=len(items) >= 2 or any(isinstance(v, (list, tuple)) and len(v) > 1 for _, v in items))
        txt, back, txt2 = impl_roundtrip(items, kwform)
        reqs.append(("recur_roundtrip", w))
        meta.append((kind, items, kwform, w, txt, back, txt2))
    outs = M.batch(reqs) if M else [None] * len(reqs)
    n_guard = n_rfc = 0
    for (kind, items, kwform, w, txt, back, txt2), m in zip(meta, outs):
        inp = {"rule": w, "keywords": kwform}
        in_guard = in_rfc = None
        if m is not None and m[:1] != ["unsupported"]:
            m_txt, m_back, m_canon, g_rt, g_rfc, m_gram, m_txt2 = m
            in_guard, in_rfc = bool(g_rt), bool(g_rfc)
            # the theorem's domain (the extracted guard) must contain every rule generated as in-domain
            if kind in ("corpus", "freq", "weekdaynum", "random-rfc") or kind.startswith("single-part"):
                res.corr("guard-covers-generated-domain", inp, [1, int(kind != "single-part:BYWEEKDAY")], [g_rt, g_rfc])
                if g_rfc:
                    res.corr("recur_grammar-accepts-in-domain", inp, 1, m_gram)
            ok = res.corr("vRecur.to_ical", inp, txt, m_txt)
            if ok and m_txt[:1] != ["unsupported"] and not isinstance(txt, list):
                res.corr("vRecur.from_ical.to_ical", inp, back, m_back)
                if m_back[:1] not in (["unsupported"], ["err"]):
                    res.corr("vRecur.to_ical.from_ical.to_ical", inp, txt2, m_txt2)
                res.corr("recur_grammar-vs-regex", inp, int(regex_grammar(txt)), m_gram)
        elif m is not None:
            res.corr("vRecur.to_ical", inp, txt, m)
        if kind == "odd":
            # values of unusual Python types (numbers given as text ...): no claim about typed equality, but where the faithful
            # model's text is in the grammar the implementation's must be too, and it must be a fixed point of decode + encode
            if m is not None and m[:1] != ["unsupported"] and m_gram == 1 and not isinstance(txt, list):
                if not regex_grammar(txt) or (txt2 != txt and not isinstance(txt2, list)):
                    res.fail("C19 (unusual value types): the encoded text is outside the RECUR grammar or is not stable under "
                             "decode + encode", inp, observed=[txt, txt2])
            continue
        # ---- the property on the implementation (direct oracle, independent of the model)
        if in_guard is None:
            in_guard = kind in ("corpus", "freq", "weekdaynum", "random-rfc") or kind.startswith("single-part")
            in_rfc = in_guard and kind != "single-part:BYWEEKDAY"
        if in_guard:
            n_guard += 1
            exp = canon_expected(items)
            if isinstance(txt, list):
                res.fail("C19 to_ical: an in-domain rule cannot be encoded", inp, observed=txt)
                continue
            if back != exp:
                res.fail("C19 round trip: decoded parts differ from the supplied rule (names, typed values, order)",
                         inp, observed=back, expected=exp)
            if txt2 != txt:
                res.fail("C19 round trip: encoding the decoded rule gives a different text", inp, observed=txt2, expected=txt)
        if in_rfc:
            n_rfc += 1
            if not regex_grammar(txt):
                res.fail("C19 grammar: encoded text does not match the RECUR grammar with FREQ first", inp, observed=txt)
            if n_du < du_budget and not isinstance(txt, list):
                ag = dateutil_agree(items, txt)
                if ag is not None:
                    n_du += 1
                    if ag[0] != ag[1]:
                        res.fail("C19 expander: dateutil computes different occurrences from the text and from the rule",
                                 inp, observed=[str(x) for x in ag[0]][:6], expected=[str(x) for x in ag[1]][:6])
    res.extra["in_guard_cases"] = n_guard
    res.extra["rfc_grammar_cases"] = n_rfc
    res.extra["dateutil_comparisons"] = n_du

    # ---- a decoded rule belongs to the caller: editing its part lists in place does not change what the same text decodes to later
    seen_txt = set()
    for kind, items, kwform in cases:
        txt = impl_roundtrip(items, kwform)[0]
        if not isinstance(txt, str) or txt in seen_txt or len(seen_txt) >= (3000 if ctx.big else 300):
            continue
        seen_txt.add(txt)
        first = outcome(lambda: vRecur.from_ical(txt))
        if isinstance(first, list):
            continue
        want = obs_rule(first)
        for v in list(first.values()):
            if isinstance(v, list):
                v.append(v[0] if v else 1)
                v.reverse()
        first["X-ADDED"] = ["1"]
        res.evaluations += 1
        again = outcome(lambda: vRecur.from_ical(txt))
        got = again if isinstance(again, list) and again[:1] == ["err"] else obs_rule(again)
        if got != want:
            res.fail("C19: decoding the same rule text again gives another rule after the caller edited the first decoded "
                     "rule in place", txt, observed=got, expected=want)
    # ---- malformed / foreign text through from_ical
    texts = gen_malformed(ctx)
    impl = []
    for t in texts:
        res.dist("from_ical-text")
        res.evaluations += 1
        b = outcome(lambda: vRecur.from_ical(t))
        impl.append(b if isinstance(b, list) and b[:1] == ["err"] else obs_rule(b))
    if M:
        for t, b, m in zip(texts, impl, M.batch([("recur_from_ical", t) for t in texts])):
            res.corr("vRecur.from_ical", t, b, m)
        # leaf decoders
        leaf = []
        for p in MALFORMED_PIECES:
            if p.count("=") == 1:
                k, v = p.split("=")
                for x in v.split(","):
                    leaf.append((k, x))
        lres = M.batch([("recur_dec_val", [k, x]) for k, x in leaf])
        for (k, x), m in zip(leaf, lres):
            got = outcome(lambda: wire_val(vRecur.parse_type(k, x)[0]))
            res.corr("vRecur.parse_type", [k, x], got, m)
    i = len(meta) // 2
    res.sample({"rule": meta[1][3], "text": meta[1][4], "decoded": meta[1][5]})
    res.sample({"rule": meta[i][3], "text": meta[i][4], "decoded": meta[i][5]})


def replay(ctx, data):
    inp = data["input"]
    if isinstance(inp, dict) and "rule" in inp:
        print("rule :", inp["rule"])
        if ctx.model:
            print("model:", ctx.model.call("recur_roundtrip", inp["rule"]))
        items = []
        from icalendar.prop import vMonth

        def unwire(w):
            if w[0] == "int":
                return w[1]
            if w[0] == "str":
                return w[1]
            if w[0] == "month":
                return vMonth(f"{w[1]}L" if w[2] else w[1])
            if w[0] == "date":
                return dt.date(*w[1:4])
            return dt.datetime(*w[1:7], tzinfo=UTC if w[7] else None)
        for k, v in inp["rule"]:
            items.append((k, unwire(v[1]) if v[0] == "one" else [unwire(x) for x in v[1]]))
        print("impl :", impl_roundtrip(items, False))
    else:
        from icalendar.prop import vRecur
        print("impl :", outcome(lambda: obs_rule(vRecur.from_ical(inp))))
        if ctx.model:
            print("model:", ctx.model.call("recur_from_ical", inp))
