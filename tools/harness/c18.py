"""C18 -- used-timezone discovery is complete; adding missing timezones closes it."""
from datetime import datetime, timedelta

from . import common
from . import treelib as T

FINGERPRINTS = ["cal.Calendar.get_used_tzids", "cal.Calendar.get_missing_tzids", "cal.Calendar.add_missing_timezones",
                "cal.Component.property_items", "cal.Component.walk", "cal.Component._walk"]
GEN = ["Gen_parser", "Gen_cal"]
ASSUMPTIONS = [
    "Timezone.from_tzid (the provider's generator, C13) is an oracle: known ids yield a VTIMEZONE with that TZID whose own "
    "values carry no TZID parameter; the iteration order of the Python set is a parameter of the model",
    "generated VTIMEZONEs are memoised per id by the harness (generation is slow); the memo wraps the real function, and "
    "every 6th use of a memoised entry calls the real function again and compares",
]
TRUSTED = []

KNOWN_IDS = ["Europe/Berlin", "America/New_York", "Asia/Tokyo", "Europe/London", "Australia/Sydney",
             # other spellings the provider resolves to the same zone objects: each is an id of its own
             "/Europe/Berlin", "W. Europe Standard Time", "Eastern Standard Time", "GMT Standard Time"]
UNKNOWN_IDS = ["X/Unknown", "Custom/Zone", "Mars/Olympus"]
PROPS = ["DTSTART", "DTEND", "DUE", "RECURRENCE-ID", "RDATE", "EXDATE", "FREEBUSY", "X-WHEN"]


def line_for(rng, ids):
    p = rng.choice(PROPS)
    z = rng.choice(ids + [None, "UTC"])
    if p == "FREEBUSY":
        v = "20200101T000000/PT1H" + (",20200102T000000/PT2H" if rng.random() < 0.5 else "")
        return f"FREEBUSY;TZID={z}:{v}" if z and z != "UTC" else "FREEBUSY:20200101T000000Z/PT1H"
    if p in ("RDATE", "EXDATE"):
        v = "20200109T100000" + (",20200116T100000" if rng.random() < 0.5 else "")
    else:
        v = "20200102T100000"
    if z is None:
        return f"{p}:{v}"
    if z == "UTC":
        return f"{p}:{v.replace(',', 'Z,')}Z"
    return f"{p};TZID={z}:{v}"


def gen_calendar(rng):
    ids = rng.sample(KNOWN_IDS, rng.randrange(0, 4)) + rng.sample(UNKNOWN_IDS, rng.choice((0, 0, 1, 2)))
    lines = ["BEGIN:VCALENDAR", "VERSION:2.0"]
    present = []

    def comp(depth):
        name = rng.choice(["VEVENT", "VTODO", "VJOURNAL", "VFREEBUSY", "X-BOX"])
        out = ["BEGIN:" + name]
        for _ in range(rng.randrange(0, 4)):
            out.append(line_for(rng, ids or ["Europe/Berlin"]))
        if depth < 4:
            for _ in range(rng.choice((0, 0, 1, 2))):
                out += comp(depth + 1) if rng.random() < 0.8 else ["BEGIN:VALARM", line_for(rng, ids or ["Asia/Tokyo"]).replace("FREEBUSY", "X-FB"), "END:VALARM"]
        out.append("END:" + name)
        return out
    for _ in range(rng.randrange(0, 4)):
        lines += comp(1)
    # VTIMEZONEs already present: some used, some unused, some unknown, sometimes twice
    for z in rng.sample(KNOWN_IDS + UNKNOWN_IDS, rng.choice((0, 0, 1, 2, 3))):
        for _ in range(2 if rng.random() < 0.1 else 1):
            present.append(z)
            # zoned values may also sit on a VTIMEZONE itself and on anything nested below it ("any property of any nested component")
            inner = [line_for(rng, ids or ["Europe/London"]).replace("FREEBUSY", "X-FB")] if rng.random() < 0.3 else []
            onvtz = ["LAST-MODIFIED;TZID=%s:20200101T000000" % rng.choice(ids or ["Asia/Tokyo"])] if rng.random() < 0.15 else []
            lines += ["BEGIN:VTIMEZONE", "TZID:" + z] + onvtz + ["BEGIN:STANDARD", "DTSTART:19700101T000000", "TZOFFSETFROM:+0100",
                      "TZOFFSETTO:+0100"] + inner + ["END:STANDARD", "END:VTIMEZONE"]
    if rng.random() < 0.04:
        lines += ["BEGIN:VTIMEZONE", "BEGIN:STANDARD", "DTSTART:19700101T000000", "TZOFFSETFROM:+0100", "TZOFFSETTO:+0100",
                  "END:STANDARD", "END:VTIMEZONE"]            # no TZID (finding C18-F1)
    if rng.random() < 0.04:
        lines.insert(2, "BEGIN:VEVENT\r\nDTSTART;TZID=a,b:20200102T100000\r\nEND:VEVENT")   # list-valued TZID (C18-F2)
    lines.append("END:VCALENDAR")
    return "\r\n".join(lines) + "\r\n"


def py_all_tzids(c):
    """the specification: TZID parameter of every value of every property of every nested component"""
    out = []
    for k in c.keys():
        e = c[k]
        for v in (e if isinstance(e, list) else [e]):
            if hasattr(v, "params") and "TZID" in v.params:
                out.append(v.params["TZID"])
    for s in c.subcomponents:
        out += py_all_tzids(s)
    return out


def guard(f):
    try:
        r = f()
        return sorted(str(x) for x in r)
    except ValueError:
        return ["err", "ValueError"]
    except Exception as e:  # noqa: BLE001
        return ["err", type(e).__name__]


def run(ctx, res):
    import icalendar
    from icalendar import Timezone
    M = ctx.model
    known = ctx.known
    rng = common.rng_for(ctx.seed, "c18")
    # memoise the (slow) generator; it is the real one
    orig = Timezone.from_tzid.__func__
    memo = {}
    uses = {}

    def cached(cls, tzid, *a, **kw):
        key = (tzid, repr(a), repr(sorted(kw.items())))
        if key not in memo:
            # only successes are memoised: an unknown id can become known later in the process, when a parsed
            # calendar defines it (process-wide time-zone cache, see C12)
            memo[key] = orig(cls, tzid, *a, **kw).to_ical()
            uses[key] = 0
        uses[key] += 1
        if uses[key] % 6 == 0:
            again = orig(cls, tzid, *a, **kw).to_ical()
            res.evaluations += 1
            if again != memo[key]:
                res.fail("C18 oracle: Timezone.from_tzid is not a function of its arguments (a later call for the same id "
                         "gives another component)", tzid, observed=again.decode()[:300], expected=memo[key].decode()[:300])
        return cls.from_ical(memo[key])
    Timezone.from_tzid = classmethod(cached)

    def knows(z):
        """the provider oracle [gen]: does Timezone.from_tzid produce a component for this id?"""
        try:
            Timezone.from_tzid(z)
            return True
        except ValueError:
            return False
    try:
        n = 2500 if ctx.big else 220 * (1 + 3 * ctx.level)
        res.rule = ("generated calendars: zoned values (known, unknown and UTC ids) in DTSTART/DTEND/DUE/RECURRENCE-ID/RDATE/EXDATE/"
                    "FREEBUSY/X- properties at nesting depth <= 5 incl. VALARM, with any subset of used / unused / unknown / repeated "
                    "VTIMEZONEs present (rarely one without TZID, rarely a list-valued TZID parameter); 2 repeated calls of "
                    "add_missing_timezones; non-trivial = at least one TZID parameter in the tree; distinct by text")
        reqs, rows = [], []
        for i in range(n):
            text = gen_calendar(rng)
            try:
                cal = icalendar.Calendar.from_ical(text)
            except ValueError:
                res.dist("rejected by the parser (e.g. dateutil refuses a zoned DTSTART inside a custom VTIMEZONE)")
                continue
            o = T.obs_comp(cal)
            spec = py_all_tzids(cal)
            res.count(text, nontrivial=bool(spec))
            hashable = all(isinstance(x, str) for x in spec)
            used = guard(cal.get_used_tzids)
            missing = guard(cal.get_missing_tzids)
            row = {"text": text, "used": used, "missing": missing}
            # ---- direct oracle
            if hashable:
                want_used = sorted(set(str(x) for x in spec))
                if used != want_used:
                    res.fail("C18 used: get_used_tzids differs from the TZID parameters present in the tree", text, observed=used, expected=want_used)
                tzs = cal.walk("VTIMEZONE")
                if all("TZID" in t and not isinstance(t["TZID"], list) for t in tzs):
                    want_missing = sorted(set(want_used) - {str(t["TZID"]) for t in tzs})
                    if missing != want_missing:
                        res.fail("C18 missing: get_missing_tzids differs from used minus defined", text, observed=missing, expected=want_missing)
                elif missing[:1] == ["err"]:
                    if "C18-F1" in known:
                        res.known("C18-F1", {"missing": missing}, known["C18-F1"]["summary"])
                    else:
                        res.fail("C18: get_missing_tzids raised", text, observed=missing)
            else:
                if used[:1] == ["err"] and "C18-F2" in known:
                    res.known("C18-F2", {"used": used}, known["C18-F2"]["summary"])
                elif used[:1] == ["err"]:
                    res.fail("C18: get_used_tzids raised", text, observed=used)
            # ---- add_missing_timezones twice
            after = None
            if missing[:1] != ["err"]:
                before = len(cal.subcomponents)
                kn = [z for z in KNOWN_IDS + UNKNOWN_IDS if knows(z)]      # the provider oracle as it is now
                try:
                    cal.add_missing_timezones()
                    used1, miss1, n1 = guard(cal.get_used_tzids), guard(cal.get_missing_tzids), len(cal.subcomponents) - before
                    cal.add_missing_timezones()
                    miss2, n2 = guard(cal.get_missing_tzids), len(cal.subcomponents) - before - n1
                    after = [used1, miss1, n1, [miss2, n2]]
                    names = [str(t["TZID"]) for t in cal.walk("VTIMEZONE") if "TZID" in t]
                    if used1 != used:
                        res.fail("C18 add_missing: the used ids changed", text, observed=used1, expected=used)
                    want_m = sorted(z for z in missing if z not in kn)
                    if miss1 != want_m:
                        res.fail("C18 add_missing: missing afterwards is not exactly the ids the provider does not know", text,
                                 observed=miss1, expected=want_m)
                    if n2 != 0 or miss2 != miss1:
                        res.fail("C18 add_missing: a repeated call changed the calendar", text, observed=[miss2, n2])
                    for z in used:
                        if z in kn and z in missing and names.count(z) != 1:
                            res.fail("C18 add_missing: a known used id does not have exactly one VTIMEZONE", text, observed=[z, names.count(z)])
                except Exception as e:  # noqa: BLE001
                    after = ["err", common.exc_class(e)]
                    res.fail("C18 add_missing_timezones raised " + type(e).__name__, text)
            row["after"] = after
            rows.append(row)
            reqs += [("tree_used_set", o), ("tree_missing", o)]
            if after is not None:
                reqs.append(("tree_add_missing", [o, kn, sorted(missing, reverse=bool(i % 2))]))
        # ---- API-built calendars: a property added several times, the earlier entries without any TZID (UTC, floating, dates)
        import zoneinfo
        from datetime import date, timezone
        for i in range(120 if ctx.big else 30):
            cal = icalendar.Calendar()
            ev = icalendar.Event()
            cal.add_component(ev)
            want = set()
            for name in rng.sample(["rdate", "exdate", "rdate", "comment"], rng.randrange(1, 4)):
                for _k in range(rng.randrange(1, 4)):
                    kind = rng.choice(["utc", "naive", "date", "zoned", "zoned"])
                    if name == "comment":
                        ev.add(name, "c", encode=rng.random() < 0.7)
                        continue
                    d0 = datetime(2020, rng.randrange(1, 13), rng.randrange(1, 28), 10)
                    if kind == "utc":
                        v = [d0.replace(tzinfo=timezone.utc)]
                    elif kind == "naive":
                        v = [d0]
                    elif kind == "date":
                        v = [d0.date()]
                    else:
                        z = rng.choice(KNOWN_IDS[:5])
                        v = [d0.replace(tzinfo=zoneinfo.ZoneInfo(z))]
                        want.add(z)
                    ev.add(name, v)
            res.evaluations += 1
            res.dist("API-built")
            used = guard(cal.get_used_tzids)
            if used != sorted(want):
                res.fail("C18 used (API-built calendar): get_used_tzids differs from the zones of the values added",
                         T.impl_ser(cal), observed=used, expected=sorted(want))
        outs = M.batch(reqs) if M else None
        if outs is not None:
            pos = 0
            for row in rows:
                m_used, m_missing = outs[pos], outs[pos + 1]
                pos += 2
                res.corr("Calendar.get_used_tzids", row["text"], row["used"], sorted(m_used) if m_used[:1] != ["err"] else m_used)
                res.corr("Calendar.get_missing_tzids", row["text"], row["missing"], sorted(m_missing) if m_missing[:1] != ["err"] else m_missing)
                if row["after"] is not None:
                    m = outs[pos]
                    pos += 1
                    if isinstance(m, list) and len(m) == 4 and isinstance(m[3], list):
                        m = [sorted(m[0]), sorted(m[1]), m[2], [sorted(m[3][0]), m[3][1]]]
                    res.corr("Calendar.add_missing_timezones", row["text"], row["after"], m)
        res.sample({"calendar": rows[0]["text"][:500], "used": rows[0]["used"], "missing": rows[0]["missing"], "after add_missing x2": rows[0]["after"]})
    finally:
        Timezone.from_tzid = classmethod(orig)


def replay(ctx, data):
    import icalendar
    cal = icalendar.Calendar.from_ical(data["input"])
    print("used   :", guard(cal.get_used_tzids))
    print("missing:", guard(cal.get_missing_tzids))
