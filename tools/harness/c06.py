"""C06 -- folding.  Correspondence of Model/Fold.v with parser.foldline / Contentline and the
direct property oracle on the implementation."""
from . import common

FINGERPRINTS = ["parser.foldline", "parser.Contentline.to_ical", "parser.Contentline.from_ical",
                "parser.Contentlines.to_ical"]
ASSUMPTIONS = [
    "strings are sequences of Unicode scalar values (no lone surrogates: the UTF-8 encoder rejects them)",
    "content lines contain no LF (Contentline.__new__ refuses them by assert; default interpreter mode, not -O)",
]
TRUSTED = ["model of the regex uFOLD=(\\r?\\n)+[ \\t] as the scanner Model.Fold.unfold (literal pinned by the translator)"]


def gen_lines(ctx):
    rng = common.rng_for(ctx.seed, "c06")
    big = ctx.big
    out = []
    # lengths of pure ASCII
    for n in (range(0, 401) if big else list(range(0, 160)) + list(range(160, 401, 7))):
        out.append(("ascii-len", "x" * n))
    # one multi-octet character at every alignment against the boundary
    # (U+FEFF is the code point codecs treat specially: "utf-8-sig" drops it at the start of a decoded chunk;
    #  U+2028 / U+0085 are line separators for str.splitlines)
    #  combining marks, joiners and variation selectors are the code points text-shaping-aware code treats specially)
    for ch in ("é", "€", "\U0001F600", "\ufeff", "\u2028", "\x85", "\u0301", "\u05b0", "\u20d7", "\u200d", "\ufe0f", "\u200f"):
        for pre in range(0, 160 if big else 82):
            out.append(("align", "a" * pre + ch + "b" * 5))
            out.append(("align-run", "a" * pre + ch * 40))
            if pre % 3 == 0:
                out.append(("align-2octet-pad", "ä" * (pre // 2) + "e" + ch + ch + "b" * 90))
    # runs of multi-octet characters
    for ch in ("é", "€", "\U0001F600", "é\U0001F600", "a€"):
        for n in (1, 18, 19, 24, 25, 36, 37, 38, 74, 75, 76, 150):
            out.append(("run", ch * n))
    # SP / TAB / CR at and around the fold point
    for ws in (" ", "\t", "\r", "\r\r", " \t", "\r ", "\r\t"):
        for pre in range(70, 78):
            out.append(("ws-at-fold", "a" * pre + ws + "b" * 80))
            out.append(("ws-at-fold-u", "é" + "a" * (pre - 2) + ws + "b" * 80))
    # random mixes
    alphabet = ["a", "b", " ", "\t", "\r", ":", ";", "é", "ü", "€", "中", "\U0001F600", "\U00010348", "\x7f", "\x01",
                "\ufeff", "\u2028", "\x85", "\x0b", "\x0c", "\x1c"]
    for _ in range(20000 if big else 1500 * (1 + 4 * ctx.level)):
        n = rng.choice((0, 1, 10, 70, 74, 75, 76, 100, 149, 150, 151, 300, rng.randrange(0, 500)))
        k = rng.choice((1, 2, 4, len(alphabet)))
        sub = rng.sample(alphabet, k)
        out.append(("random", "".join(rng.choice(sub) for _ in range(n))))
    return out


def oracle(s, folded):
    """The property itself, on the implementation's output.  Returns None or a description."""
    if not folded.endswith(b"") or b"\n" in folded.replace(b"\r\n", b""):
        return "stray LF"
    lines = folded.split(b"\r\n")
    segs = []
    for i, ln in enumerate(lines):
        if len(ln) > 75:
            return f"physical line {i} has {len(ln)} octets"
        try:
            t = ln.decode("utf-8")
        except UnicodeDecodeError:
            return f"physical line {i} is not valid UTF-8 on its own"
        if i > 0:
            if not t.startswith(" "):
                return f"continuation line {i} does not start with a space"
            t = t[1:]
            if t == "":
                return f"continuation line {i} is empty"
        segs.append(t)
    if "".join(segs) != s:
        return "removing CRLF+space does not restore the line"
    return None


def run(ctx, res):
    from icalendar.parser import Contentline, Contentlines, foldline
    import icalendar
    cases = gen_lines(ctx)
    res.rule = ("content lines: every ASCII length 0-400, one 2/3/4-octet character at every alignment against the "
                "75-octet boundary, runs, SP/TAB/CR at the fold point, random mixes over a 15-symbol alphabet; "
                "non-trivial = the line needs at least one fold (more than 74 octets); distinct by content")
    reqs = []
    impl = []
    n_refused = 0
    for ci, (kind, s) in enumerate(cases):
        res.dist(kind)
        if ci % 7 == 3:
            # a fold that fails in the middle (a lone surrogate cannot be encoded) must leave nothing behind for the next one
            try:
                Contentline("X-BROKEN:" + "\u00e9" * (ci % 40) + "abc\ud800tail" + "z" * 80).to_ical()
            except UnicodeError:
                n_refused += 1
        if ci % 3 == 1:
            # the optional arguments of foldline: another width / another separator fold the same text accordingly, and leave
            # nothing behind for the default route below
            for L, sep in ((40, "\r\n "), (120, "\r\n\t"), (75, "\n ")):
                try:
                    f = foldline(s, limit=L, fold_sep=sep)
                except (AssertionError, UnicodeError):
                    continue
                res.evaluations += 1
                segs = f.split(sep)
                if f.replace(sep, "") != s or any(len(x.encode("utf-8")) > L for x in segs):
                    res.fail("C06 oracle: foldline(line, limit=%d, fold_sep=%r) does not fold to that width or does not unfold "
                             "to the line" % (L, sep), s, observed=f[:300])
        folded = Contentline(s).to_ical()
        impl.append(folded)
        res.count(s, nontrivial=len(s.encode("utf-8")) > 74)
        why = oracle(s, folded)
        if why is None:
            # a byte string that begins with EF BB BF is read as text with a byte-order mark (C09: a leading BOM is
            # insignificant), so for a line that itself begins with U+FEFF the unfolding clause is checked on str input
            back = Contentline.from_ical(folded.decode("utf-8") if s.startswith("\ufeff") else folded)
            if str(back) != s:
                why = "Contentline.from_ical(to_ical(s)) != s"
        if why:
            res.fail("C06 oracle: " + why, s, observed=folded.decode("utf-8", "replace"))
        reqs.append(("foldline", s))
    res.dist("refused folds interleaved (lone surrogate)", n_refused)
    # the same lines through the list of content lines (what a component serialises with): each line folded exactly as alone
    for lo in range(0, len(cases), 40):
        chunk = [(s, f) for (_, s), f in zip(cases[lo:lo + 40], impl[lo:lo + 40]) if s]
        want = b"".join(f + b"\r\n" for _, f in chunk)
        res.evaluations += 1
        try:
            got = Contentlines([Contentline(s) for s, _ in chunk]).to_ical()
        except Exception as e:  # noqa: BLE001
            got = (type(e).__name__ + ": " + str(e)).encode()
        if got != want and chunk:
            bad = next((s for s, f in chunk if Contentlines([Contentline(s)]).to_ical() != f + b"\r\n"), chunk[0][0])
            res.fail("C06 oracle: Contentlines.to_ical folds a line differently from Contentline.to_ical", bad,
                     observed=Contentlines([Contentline(bad)]).to_ical().decode("utf-8", "replace"))
    # model correspondence: foldline, unfold on the implementation's own output
    if ctx.model:
        outs = ctx.model.batch(reqs)
        for (kind, s), folded, m in zip(cases, impl, outs):
            res.corr("foldline", s, folded.decode("utf-8"), m)
        reqs2 = [("unfold", f.decode("utf-8")) for f in impl]
        # also unfolding of texts that were not produced by the folder (LF-only folds, tabs, blank lines)
        rng = common.rng_for(ctx.seed, "c06-unfold")
        extra = []
        pieces = ["a", "b", " ", "\t", "\r", "\n", "\r\n", "\r\n ", "\n\t", "\r\n\r\n ", "\n\n", "\r\r\n "]
        for _ in range(5000 if ctx.big else 800):
            extra.append("".join(rng.choice(pieces) for _ in range(rng.randrange(0, 12))))
        import re as _re
        from icalendar.parser import uFOLD
        outs = ctx.model.batch(reqs2 + [("unfold", e) for e in extra])
        for f, m in zip(impl, outs[:len(impl)]):
            res.corr("unfold", f.decode("utf-8"), uFOLD.sub("", f.decode("utf-8")), m)
        for e, m in zip(extra, outs[len(impl):]):
            res.evaluations += 1
            res.corr("unfold", e, uFOLD.sub("", e), m)
    # every line of a serialised component
    rng = common.rng_for(ctx.seed, "c06-comp")
    n_comp = 300 if ctx.big else 60
    for i in range(n_comp):
        ev = icalendar.Event()
        ev.add("summary", "".join(rng.choice(["a", "é", "\U0001F600", ",", ";", " ", "\n"]) for _ in range(rng.randrange(0, 300))))
        ev.add("description", "x" * rng.randrange(0, 200) + "€" * rng.randrange(0, 60))
        ev.add("attendee", "mailto:" + "y" * rng.randrange(0, 120) + "@example.com",
               parameters={"CN": "N" * rng.randrange(0, 90) + "é" * rng.randrange(0, 30)})
        ev.add(rng.choice(["x-e", "x", "x-emoji"]), rng.choice(["\U0001F600", "\U00010348", "€", "é"]) * rng.randrange(0, 40))
        cal = icalendar.Calendar()
        cal.add_component(ev)
        data = cal.to_ical()
        res.evaluations += 1
        if not data.endswith(b"\r\n"):
            res.fail("C06 component: output does not end in CRLF", data.decode("utf-8", "replace"))
            continue
        for ln in data[:-2].split(b"\r\n"):
            if len(ln) > 75:
                res.fail("C06 component: physical line longer than 75 octets", data.decode("utf-8", "replace"), observed=len(ln))
                break
            try:
                ln.decode("utf-8")
            except UnicodeDecodeError:
                res.fail("C06 component: physical line not valid UTF-8", data.decode("utf-8", "replace"))
                break
    res.sample({"line": cases[len(cases) // 3][1][:120], "folded": impl[len(cases) // 3].decode("utf-8")[:160]})
    res.sample({"line": cases[-1][1][:120], "folded": impl[-1].decode("utf-8")[:160]})


def replay(ctx, data):
    from icalendar.parser import Contentline
    s = data["input"]
    folded = Contentline(s).to_ical()
    print("impl :", folded)
    print("oracle:", oracle(s, folded))
    if ctx.model:
        print("model:", ctx.model.call("foldline", s).encode("utf-8"))
