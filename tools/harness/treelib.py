"""Shared machinery for the tree-level properties (C01 C02 C04 C09 C10 C18 C20):
observation of implementation trees, the decoder / cache oracles handed to the model, generators."""
import glob
import os

from . import common

REPO = os.environ.get("VERIF_REPO", "/repo")
UNSER = "<unserialisable>"


def exc(e):
    return ["err", common.exc_class(e)]


# ---------------------------------------------------------------------------- observation
def obs_params(p):
    out = []
    for k, v in p.items():
        if isinstance(v, (list, tuple)):
            out.append([k, [str(x) for x in v]])
        else:
            out.append([k, str(v)])
    return out


def value_text(v):
    try:
        t = v.to_ical()
    except Exception as e:  # noqa: BLE001
        return UNSER + type(e).__name__
    return t.decode("utf-8", "replace") if isinstance(t, bytes) else str(t)


def obs_value(v):
    return [type(v).__name__, obs_params(getattr(v, "params", {})), value_text(v)]


def obs_comp(c):
    props = []
    for k in c.keys():
        e = c[k]
        if isinstance(e, list):
            props.append([k, 1, [obs_value(v) for v in e]])
        else:
            props.append([k, 0, [obs_value(e)]])
    errs = [(n if n is not None else []) for n, _ in c.errors]
    return [c.name if c.name is not None else "", props, [obs_comp(s) for s in c.subcomponents], errs]


def py_value(v):
    """the decoded Python value of a property value, canonically (kind + wall fields + UTC offset; never a repr with
    addresses): what "the same typed values" means beyond the wire text"""
    import datetime as _d

    def one(x):
        x = getattr(x, "dt", x)
        if isinstance(x, _d.datetime):
            off = x.utcoffset()
            return ["datetime", x.replace(tzinfo=None).isoformat(), None if off is None else int(off.total_seconds())]
        if isinstance(x, _d.date):
            return ["date", x.isoformat()]
        if isinstance(x, _d.timedelta):
            return ["timedelta", x.days, x.seconds, x.microseconds]
        if isinstance(x, _d.time):
            return ["time", x.isoformat()]
        if isinstance(x, tuple):
            return ["tuple"] + [one(y) for y in x]
        return None
    try:
        if isinstance(v, dict):           # a recurrence rule: its parts and their decoded values
            return ["rule"] + [[str(k), [one(x) if one(x) is not None else str(x) for x in (v[k] if isinstance(v[k], (list, tuple)) else [v[k]])]]
                               for k in sorted(v.keys())]
        if hasattr(v, "dts"):
            return ["list"] + [one(x) for x in v.dts]
        if hasattr(v, "dt"):
            return one(v.dt)
        if hasattr(v, "td"):
            return one(v.td)
        if hasattr(v, "start") and hasattr(v, "end"):
            return ["period", one(v.start), one(v.end)]
    except Exception as e:  # noqa: BLE001
        return ["err", type(e).__name__]
    return None


def obs_py(c):
    """per component, per property: the decoded Python values (see py_value)"""
    return [c.name or "", [[k, [py_value(v) for v in (c[k] if isinstance(c[k], list) else [c[k]])]] for k in sorted(c.keys())],
            [obs_py(s) for s in c.subcomponents]]           # a mapping: insertion order of names is not part of it


def has_unser(o):
    return any(v[2].startswith(UNSER) for _, _, vs in o[1] for v in vs) or any(has_unser(s) for s in o[2])


def tree_size(o):
    return 1 + sum(tree_size(s) for s in o[2])


# ---------------------------------------------------------------------------- oracles
def build_oracle(text):
    """Decoder oracle for every content line of [text]: ((type key, value text, TZID or none) -> wire text of
    the decoded value | exception class), computed with the implementation's own leaf decoders."""
    from icalendar.parser import Contentlines
    from icalendar.cal import types_factory
    entries = {}
    try:
        lines = Contentlines.from_ical(text)
    except ValueError:
        return []
    for line in lines:
        if not line:
            continue
        try:
            name, params, vals = line.parts()
        except ValueError:
            continue
        except Exception:  # noqa: BLE001
            continue
        key = types_factory.types_map.get(name, "text")
        try:
            factory = types_factory[key]
        except KeyError:
            continue
        cands = [vals]
        if name.upper() == "FREEBUSY":
            cands += vals.split(",")
        tzs = [None]
        if "TZID" in params:
            tzs.append(params["TZID"])
        for val in cands:
            for tz in tzs:
                tzk = None if tz is None else (tuple(tz) if isinstance(tz, (list, tuple)) else str(tz))
                k = (key, val, tzk)
                if k in entries:
                    continue
                try:
                    dec = factory.from_ical(val, tz) if tz is not None else factory.from_ical(val)
                    obj = factory(dec)
                    r = value_text(obj)
                except ValueError:
                    r = ["err", "ValueError"]
                except Exception as e:  # noqa: BLE001
                    r = ["err", type(e).__name__]
                entries[k] = r
    out = []
    for (key, val, tzk), r in entries.items():
        tzw = [] if tzk is None else [list(tzk) if isinstance(tzk, tuple) else tzk]
        out.append([key, val, tzw, r])
    return out


class CacheRecorder:
    """Records the outcome of every tzp.cache_timezone_component call made while parsing."""

    def __enter__(self):
        from icalendar.timezone import tzp as tzp_obj
        self.tzp = tzp_obj
        self.orig = type(tzp_obj).cache_timezone_component
        self.log = []
        rec = self

        def wrapper(self_, comp):
            try:
                r = rec.orig(self_, comp)
            except ValueError:
                rec.log.append(["err", "ValueError"])
                raise
            except Exception as e:  # noqa: BLE001
                rec.log.append(["err", type(e).__name__])
                raise
            rec.log.append(0)
            return r
        type(tzp_obj).cache_timezone_component = wrapper
        return self

    def __exit__(self, *a):
        type(self.tzp).cache_timezone_component = self.orig
        return False


def fresh_cache():
    """empty the provider's process-wide time-zone cache (C12-F4/F5: what an earlier parse left there changes how a
    later text is read, which is not what the tree properties are about)"""
    from icalendar.timezone import tzp
    tzp.use_default()


def impl_parse(text, multiple=True, cls=None):
    """(observation | ['err', class], cache log, components or None)"""
    import icalendar
    cls = cls or icalendar.Calendar
    with CacheRecorder() as rec:
        try:
            comps = cls.from_ical(text, multiple=multiple)
            if not multiple:
                comps = [comps]
            o = [obs_comp(c) for c in comps]
        except ValueError:
            return ["err", "ValueError"], rec.log, None
        except Exception as e:  # noqa: BLE001
            return ["err", type(e).__name__], rec.log, None
    return o, rec.log, comps


def scramble(comp):
    """what a caller who owns a parsed tree may do to it: every list reachable from it is edited in place"""
    for c in list(comp.walk()):
        for k in list(c.keys()):
            vals = c[k] if isinstance(c[k], list) else [c[k]]
            for v in vals:
                ps = getattr(v, "params", None)
                if ps is not None:
                    for pv in list(ps.values()):
                        if isinstance(pv, list):
                            pv.append("zz")
                            pv.reverse()
                    ps["X-ADDED"] = "1"
                if isinstance(v, dict):
                    for pv in list(v.values()):
                        if isinstance(pv, list):
                            pv.append(pv[0] if pv else 1)
                            pv.reverse()
                for attr in ("dts", "cats"):
                    lst = getattr(v, attr, None)
                    if isinstance(lst, list) and lst:
                        lst.append(lst[0])
                        lst.reverse()
            if isinstance(c[k], list):
                c[k].reverse()
        c["X-ADDED"] = "1"
        if isinstance(getattr(c, "errors", None), list):
            c.errors.append(("X", "added"))
    for c in list(comp.walk()):
        c.subcomponents.reverse()


def impl_ser(comp, sorted=True):
    try:
        return comp.to_ical(sorted=sorted).decode("utf-8")
    except ValueError:
        return ["err", "ValueError"]
    except Exception as e:  # noqa: BLE001
        return ["err", type(e).__name__]


def parse_req(text, multiple, cache_log):
    if isinstance(text, bytes):
        text = text.decode("utf-8-sig", "replace")
    return ("tree_parse", [text, 1 if multiple else 0, build_oracle(text), cache_log])


# ---------------------------------------------------------------------------- generators
def fixtures():
    base = os.path.join(REPO, "src", "icalendar", "tests")
    out = []
    for sub in ("calendars", "events", "timezones", "alarms"):
        for f in sorted(glob.glob(os.path.join(base, sub, "*.ics"))):
            with open(f, "rb") as fh:
                out.append((sub + "/" + os.path.basename(f), fh.read()))
    return out


def fuzz_corpus():
    base = os.path.join(REPO, "src", "icalendar", "fuzzing", "corpus")
    out = []
    for f in sorted(glob.glob(os.path.join(base, "**", "*"), recursive=True)):
        if os.path.isfile(f):
            with open(f, "rb") as fh:
                out.append(("fuzz/" + os.path.basename(f), fh.read()))
    return out


TEXT_NAMES = ["SUMMARY", "DESCRIPTION", "LOCATION", "COMMENT", "X-FOO", "x-lower", "CONTACT"]
CRIT = ["\\", "n", "N", ";", ",", ":", '"', "%", "2", "C", "5", "\r", " ", "a", "="]

PROP_MENU = [
    ("SUMMARY", "Team meeting"), ("SUMMARY", "a\\, b\\; c\\nd"), ("DESCRIPTION", "x" * 90), ("LOCATION", "Zürich é€😀"),
    ("UID", "uid-1@example.com"), ("DTSTAMP", "20200101T000000Z"), ("DTSTART", "20200102T100000"),
    ("DTSTART;VALUE=DATE", "20200102"), ("DTSTART;TZID=Europe/Berlin", "20200102T100000"),
    # a VALUE parameter that disagrees with the value text (accepted input: the text decides), multi-valued VALUE
    ("DTSTART;VALUE=DATE", "20240102T103000"), ("DTEND;VALUE=DATE;TZID=Europe/Berlin", "20240103T000000"),
    ("DUE;VALUE=DATE-TIME", "20240102"), ("DTSTART;VALUE=date", "20240102T103000Z"), ("X-WHEN;VALUE=DATE-TIME", "20240102T103000Z"),
    ("X-FOO;VALUE=DATE,TEXT", "20200101"), ('X-FOO;VALUE="DATE","DATE-TIME"', "20200101"), ("COMPLETED;VALUE=DATE", "20240102T103000Z"),
    ("RDATE;VALUE=DATE", "20240102T103000"), ("TRIGGER;VALUE=DURATION", "20200102T090000Z"),
    # characters outside the BMP in parameter values (bare and quoted); date lists mixing value kinds
    ("ATTENDEE;CN=Bob\U0001F600", "mailto:bob@example.com"), ('ORGANIZER;CN="\U00020000 x, y";X-E=\U0001F600\U0001F600', "mailto:o@example.com"),
    ("RRULE", "RSCALE=GREGORIAN;FREQ=YEARLY;SKIP=OMIT"), ("RRULE", "FREQ=MONTHLY;BYMONTHDAY=1,-1;WKST=MO;INTERVAL=1"),
    ("FREEBUSY", "20240102T100000Z/PT1H,20240102T1500Z/PT1H"), ("FREEBUSY;FBTYPE=BUSY", "20240102T100000Z/PT1H,20240103T100000Z/PT1H,x"),
    ("RDATE", "20240101T000000,2024"), ("EXDATE;TZID=Europe/Berlin", "20240109T100000,20240116T1"), ("CATEGORIES", "a,b\\,c,"),
    ("EXDATE", "20240103,20240104T100000"), ("RDATE", "20240201T100000,20240202T100000Z"), ("EXDATE", "20240104T100000Z,20240103"),
    ("RDATE;VALUE=PERIOD", "20240101T000000Z/PT1H,20240105T000000Z/20240105T010000Z"),
    ("DTEND", "20200102T110000Z"), ("DURATION", "PT1H"), ("DURATION", "-P1DT2H3M4S"), ("DUE", "20200105T000000Z"),
    ("RRULE", "FREQ=WEEKLY;BYDAY=MO,WE;COUNT=10"), ("RRULE", "FREQ=YEARLY;BYMONTH=3;BYDAY=-1SU;UNTIL=20300101T000000Z"),
    ("EXDATE", "20200109T100000,20200116T100000"), ("RDATE;VALUE=DATE", "20200301,20200401"),
    ("RDATE;VALUE=PERIOD", "20200101T000000Z/PT1H"), ("EXDATE;TZID=Europe/Berlin", "20200109T100000"),
    ("CATEGORIES", "a,b,c"), ("CATEGORIES", "one\\, two,three"), ("ATTENDEE;CN=\"Doe, J\";ROLE=CHAIR", "mailto:j@example.com"),
    ("ATTENDEE;MEMBER=\"mailto:a@x\",\"mailto:b@x\"", "mailto:c@x"), ("ORGANIZER;CN=Boss", "mailto:boss@example.com"),
    ("URL", "http://example.com/a?b=c;d"), ("ATTACH", "http://example.com/x.pdf"), ("GEO", "37.386013;-122.082932"),
    ("PRIORITY", "5"), ("SEQUENCE", "0"), ("PERCENT-COMPLETE", "39"), ("STATUS", "CONFIRMED"), ("TRANSP", "OPAQUE"),
    ("CLASS", "PUBLIC"), ("CREATED", "20191231T235959Z"), ("LAST-MODIFIED", "20200101T010101Z"),
    ("RECURRENCE-ID", "20200109T100000"), ("FREEBUSY;FBTYPE=BUSY", "20200101T000000Z/20200101T010000Z,20200102T000000Z/PT2H"),
    ("TRIGGER", "-PT15M"), ("TRIGGER;RELATED=END", "PT5M"), ("TRIGGER;VALUE=DATE-TIME", "20200102T090000Z"),
    ("ACTION", "DISPLAY"), ("REPEAT", "2"), ("TZID", "Custom/Zone"), ("TZOFFSETFROM", "+0100"), ("TZOFFSETTO", "+0200"),
    ("TZNAME", "CEST"), ("X-WR-CALNAME", "My calendar"), ("X-EMPTY", ""), ("x-mixed-Case;x-p=1", "v"),
    ("VERSION", "2.0"), ("PRODID", "-//verif//EN"), ("CALSCALE", "GREGORIAN"), ("METHOD", "PUBLISH"),
    ("REQUEST-STATUS", "2.0;Success"), ("RELATED-TO", "other-uid"), ("COMPLETED", "20200103T000000Z"),
    ("TZURL", "http://tz.example/x"), ("RESOURCES", "beamer,room"), ("EXRULE", "FREQ=DAILY"),
    ("ACKNOWLEDGED", "20200102T090500Z"),
    # boundary values of the value codecs (year 1 / 999 / 9999, midnight, end of day, zero / negative durations)
    ("DTSTART", "00010101T000000"), ("DTEND", "09990102T030405Z"), ("DUE", "99991231T235959"), ("DTSTART;VALUE=DATE", "00010101"),
    ("CREATED", "00011231T235959Z"), ("EXDATE", "00010101T000000,09991231T000000"), ("DURATION", "PT0S"), ("TRIGGER", "-P0D"),
    ("RRULE", "FREQ=DAILY;UNTIL=09990101T000000Z"), ("FREEBUSY", "00010101T000000Z/00010101T010000Z"),
    ("SUMMARY", "\ufeffstarts with U+FEFF"), ("DESCRIPTION", "x" * 70 + "\ufeff" + "y" * 10), ("LOCATION", "a\u2028b\x85c"),
    ("ATTENDEE;DELEGATED-TO=a@example.com,b@example.com;DELEGATED-FROM=c@example.com", "mailto:d@example.com"),
    ("ATTENDEE;MEMBER=team-a,\"mailto:b@example.com\";SENT-BY=\"mailto:s@example.com\"", "mailto:e@example.com"),
    ("DESCRIPTION;ALTREP=\"http://x/y\";LANGUAGE=en", "with altrep"), ("ATTACH;FMTTYPE=text/plain;ENCODING=BASE64;VALUE=BINARY", "QUJD"),
    # payloads that are not text in any encoding: a PNG header, a byte-order mark, a lone continuation byte, zero bytes
    ("ATTACH;FMTTYPE=image/png;ENCODING=BASE64;VALUE=BINARY", "iVBORw0KGgo="), ("ATTACH;ENCODING=BASE64;VALUE=BINARY", "77u/QQ=="),
    ("ATTACH;ENCODING=BASE64;VALUE=BINARY", "gA=="), ("ATTACH;ENCODING=BASE64;VALUE=BINARY", "AAAA"),
    # the same wall-clock digits as UTC, in zones that are at +00:00 then, and floating (an offset does not identify a zone)
    ("DTSTAMP", "20240110T120000Z"), ("DTSTART;TZID=Europe/London", "20240110T120000"), ("DUE", "20240110T120000"),
    ("DTEND;TZID=Africa/Abidjan", "20240110T120000"), ("CREATED", "20240220T070000Z"),
    ("RECURRENCE-ID;TZID=Europe/Lisbon", "20240220T070000"), ("EXDATE;TZID=Europe/London", "20240220T070000"),
    ("LAST-MODIFIED", "20240110T120000Z"),
    ("CATEGORIES", "work,errand,family,work,home"),
    ("PRIORITY", "0"), ("SEQUENCE", "2147483647"), ("GEO", "0;0"), ("TZOFFSETFROM", "-0000"), ("TZOFFSETTO", "+235959"),
]
# lines that are already in the form the library writes: whatever else the text or the process holds, they come out as they went in
SELF_CANONICAL = ["DTSTAMP:20240110T120000Z", "DTSTART;TZID=Europe/London:20240110T120000", "DUE:20240110T120000",
                  "DTEND;TZID=Africa/Abidjan:20240110T120000", "CREATED:20240220T070000Z",
                  "RECURRENCE-ID;TZID=Europe/Lisbon:20240220T070000", "EXDATE;TZID=Europe/London:20240220T070000",
                  "LAST-MODIFIED:20240110T120000Z"]
COMP_NAMES = ["VEVENT", "VTODO", "VJOURNAL", "VFREEBUSY", "VALARM", "X-CUSTOM", "vevent", "VVENUE"]


def gen_component(rng, depth=0, name=None):
    name = name or rng.choice(COMP_NAMES)
    lines = ["BEGIN:" + name]
    for _ in range(rng.randrange(0, 7)):
        n, v = rng.choice(PROP_MENU)
        if rng.random() < 0.15:
            n = n.lower() if rng.random() < 0.5 else n.title()
        lines.append(n + ":" + v)
    if depth < 4:
        for _ in range(rng.choice((0, 0, 0, 1, 1, 2))):
            lines += gen_component(rng, depth + 1)
    lines.append("END:" + name)
    return lines


def gen_vtimezone(rng):
    """a well-formed VTIMEZONE under an id no provider knows and no earlier text of this process has used (so that this
    text is the first sighting: the provider builds the zone while the component is being parsed), with X- properties on
    the VTIMEZONE and inside its observances, and an event that uses the id"""
    tzid = "Verif-%d/Zone" % rng.randrange(10 ** 9)
    x = lambda: (["X-NOTE-%d:%s" % (rng.randrange(3), rng.choice(["winter", "a;b", "x" * 70]))] if rng.random() < 0.5 else [])  # noqa: E731
    std = ["BEGIN:STANDARD", "DTSTART:19701025T030000", "TZOFFSETFROM:+0200", "TZOFFSETTO:+0100", "TZNAME:VST"] + x() + \
          (["RRULE:FREQ=YEARLY;BYMONTH=10;BYDAY=-1SU"] if rng.random() < 0.7 else ["RDATE:19711031T030000,19721029T030000"]) + \
          ["END:STANDARD"]
    dst = ["BEGIN:DAYLIGHT", "DTSTART:19700329T020000", "TZOFFSETFROM:+0100", "TZOFFSETTO:+0200", "TZNAME:VDT"] + x() + \
          ["RRULE:FREQ=YEARLY;BYMONTH=3;BYDAY=-1SU", "END:DAYLIGHT"]
    obs = [std, dst] if rng.random() < 0.8 else [std]
    if rng.random() < 0.5:
        obs.reverse()
    tz = ["BEGIN:VTIMEZONE", "TZID:" + tzid] + (["X-LIC-LOCATION:Nowhere"] if rng.random() < 0.5 else []) + x()
    for o in obs:
        tz += o
    tz.append("END:VTIMEZONE")
    ev = ["BEGIN:VEVENT", "UID:tz-%d" % rng.randrange(1000), "DTSTART;TZID=%s:2021%02d15T120000" % (tzid, rng.randrange(1, 13)),
          "RDATE;TZID=%s:20210701T120000,20211201T120000" % tzid, "END:VEVENT"]
    return (tz + ev) if rng.random() < 0.8 else (ev + tz)


def gen_calendar(rng):
    lines = ["BEGIN:VCALENDAR", "VERSION:2.0", "PRODID:-//verif//EN"]
    if rng.random() < 0.3:
        lines += gen_vtimezone(rng)
    for _ in range(rng.randrange(0, 4)):
        lines += gen_component(rng, 1)
    lines.append("END:VCALENDAR")
    nl = "\r\n" if rng.random() < 0.8 else "\n"
    return nl.join(lines) + nl


def splice_cases(strings):
    """one calendar per (slot, s): s spliced raw into a text value, a URL, an unquoted and a quoted parameter, a
    CATEGORIES item, an X- property, a component name"""
    out = []
    for s in strings:
        for slot, line in (("text", "SUMMARY:" + s), ("url", "URL:" + s), ("param", "ATTENDEE;CN=" + s + ":mailto:a@b"),
                           ("qparam", 'ATTENDEE;CN="' + s + '":mailto:a@b'), ("cat", "CATEGORIES:x," + s + ",y"),
                           ("xprop", "X-P;X-Q=1:" + s), ("compname", None)):
            if slot == "compname":
                body = "BEGIN:" + s + "\r\nSUMMARY:x\r\nEND:" + s
            else:
                body = "BEGIN:VEVENT\r\nUID:u\r\n" + line + "\r\nEND:VEVENT"
            out.append((slot, s, "BEGIN:VCALENDAR\r\n" + body + "\r\nEND:VCALENDAR\r\n"))
    return out


TOKENS = ["BEGIN:", "END:", "VEVENT", "VCALENDAR", "VTIMEZONE", "STANDARD", "DAYLIGHT", "VALARM", "\r\n", "\n", ":", ";", ",",
          "=", '"', "\\", "TZID=", "TZID", "Europe/Berlin", "Europe", "DTSTART", "RRULE", "FREQ=", "FREQ=YEARLY", "X-COMMENT",
          "20200101T000000", "Z", "/", "PT1H", " ", "\t", "a", "FREEBUSY", "TZOFFSETFROM", "+0100", "RDATE", "EXDATE", "%2C",
          "\x00", "é", "BYDAY=MO", "UNTIL=", "COUNT=3", "DTEND", "DURATION", "VALUE=DATE", "TRIGGER", "-", "P", "19700101T000000"]


def mutate(rng, text):
    """structure-aware mutation of a calendar text (str)"""
    lines = text.replace("\r\n", "\n").split("\n")
    for _ in range(rng.choice((1, 1, 2, 3))):
        op = rng.randrange(9)
        if not lines:
            lines = [""]
        i = rng.randrange(len(lines))
        if op == 0:
            del lines[i]
        elif op == 1:
            lines.insert(i, lines[rng.randrange(len(lines))])
        elif op == 2:
            j = rng.randrange(len(lines))
            lines[i], lines[j] = lines[j], lines[i]
        elif op == 3 and lines[i]:
            k = rng.randrange(len(lines[i]))
            lines[i] = lines[i][:k] + rng.choice(TOKENS) + lines[i][k:]
        elif op == 4 and lines[i]:
            k = rng.randrange(len(lines[i]))
            lines[i] = lines[i][:k]
        elif op == 5:
            lines.insert(i, "".join(rng.choice(TOKENS) for _ in range(rng.randrange(1, 6))))
        elif op == 6 and lines[i]:
            k = rng.randrange(len(lines[i]))
            m = rng.randrange(k, len(lines[i]) + 1)
            lines[i] = lines[i][:k] + lines[i][m:]
        elif op == 7 and ":" in lines[i]:
            n, v = lines[i].split(":", 1)
            lines[i] = n + rng.choice([";TZID=Europe", ";TZID=a,b", ";TZID=/x", ";VALUE=DATE", ";X=\"", ";TZID=Europe/Berlin"]) + ":" + v
        else:
            lines[i] = rng.choice(["BEGIN:VEVENT", "END:VEVENT", "END:VTIMEZONE", "BEGIN:VTIMEZONE", "END:VCALENDAR",
                                   "BEGIN:STANDARD", "END:DAYLIGHT", "TZID:x", "X-COMMENT:done"])
    return "\r\n".join(lines)


def token_soup(rng):
    return "".join(rng.choice(TOKENS) for _ in range(rng.randrange(1, 40)))
