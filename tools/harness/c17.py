"""C17 -- components and parameter maps are dicts keyed by upper-cased names.

Operation sequences are run on the real CaselessDict / Parameters / Event (all CaselessDicts), on the
extracted model (Model/Caseless.v: step, the reference machine rstep and the guard op_ok) and on a
plain Python dict keyed by the upper-cased name (the direct oracle).  canonsort_keys is compared on
random key lists with the canonical_order tuples found on the real component classes."""
import itertools

from . import common

FINGERPRINTS = ["caselessdict.canonsort_keys", "caselessdict.canonsort_items"] + \
               ["caselessdict.CaselessDict." + m for m in
                ("__init__", "__getitem__", "__setitem__", "__delitem__", "__contains__", "get", "setdefault", "pop",
                 "popitem", "has_key", "update", "copy", "__eq__", "__ne__", "sorted_keys", "sorted_items")]
ASSUMPTIONS = [
    "keys are ASCII str or bytes (str.upper and UTF-8 decoding are modelled on ASCII only; the model declines others)",
    "CPython 3.12 OrderedDict: __init__, __or__, __ior__, __ror__, fromkeys, copy and setdefault store through the "
    "subclass __setitem__ (checked by the correspondence on every run, not by proof)",
    "values are compared with ==; the harness uses distinct integers",
    "Component.__eq__ (which adds subcomponents) belongs to C20; ==/!= are exercised on CaselessDict and Parameters",
    "move_to_end is outside the property's operation list; it is modelled (it bypasses the key folding) and "
    "compared with the model only",
]
TRUSTED = ["the plain-dict reference machine in this module (py_ref_step) used as the direct oracle"]

# key set: case variants of the same names, as str and as bytes.  A key is [0, text] (str) or [1, text] (bytes)
KEYS = [[0, "a"], [0, "A"], [1, "a"], [0, "ab"], [0, "Ab"], [0, "aB"], [1, "AB"], [0, "x-y"], [0, "X-Y"],
        [0, "\ufeffa"], [0, "a "], [0, "\u00a0A"]]          # a name with an invisible character at an end is another name
ARGS = [
    [],
    [[[0, "a"], 1], [[0, "A"], 2], [[0, "ab"], 3]],
    [[[1, "AB"], 4], [[0, "x-y"], 5], [[0, "Ab"], 6], [[0, "A"], 7]],
]
RAW_EQ = [
    [],
    [["A", 1]],
    [["a", 1]],
    [["A", 1], ["AB", 2]],
    [["AB", 2], ["A", 1]],
    [["A", 1], ["ab", 2]],
]
KEYED = ["getitem", "setitem", "delitem", "contains", "has_key", "get", "get_d", "setdefault", "pop", "pop_d",
         "move_to_end", "move_to_front"]
NULLARY = ["popitem", "copy", "clear", "len", "keys", "reversed", "eq_nonmapping"]
WITH_ITEMS = ["init", "fromkeys", "update", "or", "ror", "ior"]
WITH_RAW = ["eq", "ne"]
SCOPE_EXCLUDED = {"move_to_end"}      # not an operation the property lists


def pykey(k):
    return k[1].encode("ascii") if k[0] else k[1]


def ukey(k):
    return k[1].upper()


def all_single_ops():
    ops = []
    for name in KEYED:
        for k in KEYS:
            ops.append({"op": name, "k": k})
    for name in NULLARY:
        ops.append({"op": name})
    for name in WITH_ITEMS:
        for a in ARGS:
            ops.append({"op": name, "items": a, "form": 0})
    for name in WITH_RAW:
        for a in RAW_EQ[:3]:
            ops.append({"op": name, "raw": a})
    return ops


def number(ops):
    """give every stored value a distinct integer (so overwrites and order are visible)"""
    out = []
    c = 100
    for o in ops:
        o = dict(o)
        c += 1
        if o["op"] in ("setitem", "setdefault", "fromkeys"):
            o["v"] = c
        if o["op"] in ("get_d", "pop_d"):
            o["d"] = -c
        out.append(o)
    return out


def random_op(rng):
    r = rng.random()
    if r < 0.62:
        name = rng.choice(KEYED + ["setitem", "setitem", "setdefault", "delitem", "pop", "pop_d"])
        return {"op": name, "k": rng.choice(KEYS)}
    if r < 0.74:
        return {"op": rng.choice(NULLARY)}
    if r < 0.92:
        n = rng.randrange(0, 5)
        items = [[rng.choice(KEYS), rng.randrange(1, 99)] for _ in range(n)]
        return {"op": rng.choice(WITH_ITEMS + ["update", "update"]), "items": items, "form": rng.randrange(0, 4)}
    n = rng.randrange(0, 4)
    ks = rng.sample(["A", "AB", "X-Y", "a", "Ab", "x-y"], n)
    return {"op": rng.choice(WITH_RAW), "raw": [[k, rng.randrange(1, 4)] for k in ks], "caseless_other": rng.random() < 0.3}


# ---------------------------------------------------------------------------- argument shapes
def arg_parts(o):
    """How the items of a constructing/updating call are passed: a list of (kind, pairs) in call order.
    form 0: one list of pairs; 1: one mapping; 2: keywords (str keys only) ; 3: mapping + keywords.
    Returns (positional args, kwargs, the flattened item sequence the callee sees)."""
    items = [(pykey(k), v) for k, v in o["items"]]
    form = o.get("form", 0)
    if o["op"] in ("or", "ror", "ior", "fromkeys"):
        form = 1 if o["op"] in ("or", "ror") else form % 2     # d | pairs is a TypeError for every dict
    if form == 2 and any(isinstance(k, bytes) for k, _ in items):
        form = 0
    if form == 3:
        cut = len(items) // 2
        head, tail = items[:cut], items[cut:]
        if any(isinstance(k, bytes) for k, _ in tail):
            head, tail = items, []
        m = dict(head)
        kw = dict(tail)
        return [m], kw, list(m.items()) + list(kw.items())
    if form == 2:
        kw = dict(items)
        return [], kw, list(kw.items())
    if form == 1:
        m = dict(items)
        return [m], {}, list(m.items())
    return [list(items)], {}, items


def wire_key(pk):
    return [1, pk.decode("ascii")] if isinstance(pk, bytes) else [0, pk]


def wire_op(o, seen_items=None):
    """the operation as the model sees it"""
    name = o["op"]
    if name in ("getitem", "delitem", "contains", "has_key"):
        return [name, o["k"]]
    if name == "setitem" or name == "setdefault":
        return [name, o["k"], o["v"]]
    if name == "get":
        return ["get", o["k"], []]
    if name == "get_d":
        return ["get", o["k"], [o["d"]]]
    if name == "pop":
        return ["pop", o["k"], []]
    if name == "pop_d":
        return ["pop", o["k"], [o["d"]]]
    if name == "move_to_end":
        return ["move_to_end", o["k"], 1]
    if name == "move_to_front":
        return ["move_to_end", o["k"], 0]
    if name in NULLARY:
        return [name]
    if name == "fromkeys":
        _, _, seq = arg_parts(o)
        return ["fromkeys", [wire_key(k) for k, _ in seq], o["v"]]
    if name in WITH_ITEMS:
        _, _, seq = arg_parts(o)
        return [name, [[wire_key(k), v] for k, v in seq]]
    if name in WITH_RAW:
        return [name, raw_items(o)]
    raise ValueError(name)


def raw_items(o):
    """items of the mapping a dict is compared with"""
    raw = list(dict((k, v) for k, v in o["raw"]).items())
    if o.get("caseless_other"):
        d = {}
        for k, v in raw:
            d[k.upper()] = v
        raw = list(d.items())
    return [[k, v] for k, v in raw]


# ---------------------------------------------------------------------------- running one operation
def outcome(fn):
    try:
        return fn()
    except KeyError:
        return ["err", "KeyError"]
    except Exception as e:  # noqa: BLE001
        return ["err", type(e).__name__]


def val(v):
    return ["none"] if v is None else ["val", v]


def dict_obs(d):
    return [[k, v] for k, v in d.items()]


def impl_step(cls, d, o):
    """apply o to the real object d; returns (object afterwards, canonical result)"""
    name = o["op"]
    k = pykey(o["k"]) if "k" in o else None

    def do():
        nonlocal d
        if name == "getitem":
            return ["val", d[k]]
        if name == "setitem":
            d[k] = o["v"]
            return ["none"]
        if name == "delitem":
            del d[k]
            return ["none"]
        if name == "contains":
            return ["bool", int(k in d)]
        if name == "has_key":
            return ["bool", int(d.has_key(k))]
        if name == "get":
            return val(d.get(k))
        if name == "get_d":
            return val(d.get(k, o["d"]))
        if name == "setdefault":
            return val(d.setdefault(k, o["v"]))
        if name == "pop":
            return val(d.pop(k))
        if name == "pop_d":
            return val(d.pop(k, o["d"]))
        if name == "popitem":
            kk, vv = d.popitem()
            return ["item", kk, vv]
        if name == "move_to_end":
            d.move_to_end(k)
            return ["none"]
        if name == "move_to_front":
            d.move_to_end(k, last=False)
            return ["none"]
        if name == "copy":
            c = d.copy()
            return ["dict", dict_obs(c)] if type(c) is type(d) else ["err", "copy-type"]
        if name == "clear":
            d.clear()
            return ["none"]
        if name == "len":
            return ["len", len(d)]
        if name == "keys":
            return ["keys", list(d.keys())] if list(d) == list(d.keys()) else ["err", "iter"]
        if name == "reversed":
            return ["keys", list(reversed(d))]
        if name == "eq_nonmapping":
            return ["bool", int(d == 5)]
        if name in ("init", "update", "fromkeys", "or", "ror", "ior"):
            args, kw, _ = arg_parts(o)
            if name == "init":
                d = cls(*args, **kw)
                return ["none"]
            if name == "update":
                d.update(*args, **kw)
                return ["none"]
            if name == "fromkeys":
                d = cls.fromkeys([kk for kk, _ in (args[0].items() if isinstance(args[0], dict) else args[0])], o["v"])
                return ["none"] if type(d) is cls else ["err", "fromkeys-type"]
            if name == "or":
                c = d | args[0]
                return ["dict", dict_obs(c)] if type(c) is type(d) else ["err", "or-type"]
            if name == "ror":
                c = args[0] | d
                return ["dict", dict_obs(c)] if type(c) is type(d) else ["err", "ror-type"]
            d |= args[0]
            return ["none"]
        if name in ("eq", "ne"):
            from icalendar.caselessdict import CaselessDict
            raw = raw_items(o)
            other = dict((kk, vv) for kk, vv in raw)
            if o.get("caseless_other"):
                other = CaselessDict(other)
            if name == "eq":
                a, b = (d == other), (other == d)
            else:
                a, b = (d != other), (other != d)
            return ["bool", int(a)] if a == b else ["err", "asymmetric"]
        raise ValueError(name)

    r = outcome(do)
    return d, r


def ref_step(ref, o):
    """the same operation on a plain dict keyed by the upper-cased name (what the property promises)"""
    name = o["op"]
    k = ukey(o["k"]) if "k" in o else None

    def fold(seq):
        return [(kk.decode("ascii").upper() if isinstance(kk, bytes) else kk.upper(), vv) for kk, vv in seq]

    def do():
        nonlocal ref
        if name == "getitem":
            return ["val", ref[k]]
        if name == "setitem":
            ref[k] = o["v"]
            return ["none"]
        if name == "delitem":
            del ref[k]
            return ["none"]
        if name in ("contains", "has_key"):
            return ["bool", int(k in ref)]
        if name == "get":
            return val(ref.get(k))
        if name == "get_d":
            return val(ref.get(k, o["d"]))
        if name == "setdefault":
            return val(ref.setdefault(k, o["v"]))
        if name == "pop":
            return val(ref.pop(k))
        if name == "pop_d":
            return val(ref.pop(k, o["d"]))
        if name == "popitem":
            kk, vv = ref.popitem()
            return ["item", kk, vv]
        if name in ("move_to_end", "move_to_front"):
            v = ref.pop(k)
            if name == "move_to_end":
                ref[k] = v
            else:
                ref = {k: v, **ref}
            return ["none"]
        if name == "copy":
            return ["dict", dict_obs(dict(ref))]
        if name == "clear":
            ref.clear()
            return ["none"]
        if name == "len":
            return ["len", len(ref)]
        if name == "keys":
            return ["keys", list(ref.keys())]
        if name == "reversed":
            return ["keys", list(reversed(ref))]
        if name == "eq_nonmapping":
            return ["bool", int(ref == 5)]
        if name in ("init", "update", "fromkeys", "or", "ror", "ior"):
            _, _, seq = arg_parts(o)
            seq = fold(seq)
            if name == "init":
                ref = dict(seq)
            elif name in ("update", "ior"):
                ref.update(seq)
            elif name == "fromkeys":
                ref = dict.fromkeys([kk for kk, _ in seq], o["v"])
            elif name == "or":
                return ["dict", dict_obs(ref | dict(seq))]
            elif name == "ror":
                return ["dict", dict_obs(dict(seq) | ref)]
            return ["none"]
        if name in ("eq", "ne"):
            other = dict((kk.upper(), vv) for kk, vv in raw_items(o))
            return ["bool", int((ref == other) if name == "eq" else (ref != other))]
        raise ValueError(name)

    r = outcome(do)
    return ref, r


def finding_of(o):
    name = o["op"]
    if name == "pop":
        return "C17-F1"
    if name in ("eq", "ne", "eq_nonmapping"):
        return "C17-F2"
    return None


# ---------------------------------------------------------------------------- sequences
def gen_sequences(ctx):
    rng = common.rng_for(ctx.seed, "c17")
    singles = all_single_ops()
    pre = {"op": "init", "items": [[[0, "a"], 1], [[0, "Ab"], 2], [[0, "x-y"], 3]], "form": 0}
    seqs = []
    # corpus: the finding witnesses and constructions in every argument shape
    seqs.append(("corpus", [{"op": "init", "items": [[[0, "a"], 1]], "form": 2}, {"op": "pop", "k": [0, "zz"]}]))
    seqs.append(("corpus", [{"op": "init", "items": [[[0, "a"], 1]], "form": 2}, {"op": "eq", "raw": [["a", 1]]},
                            {"op": "eq", "raw": [["A", 1]]}, {"op": "eq_nonmapping"}]))
    for form in range(4):
        seqs.append(("corpus", [{"op": "init", "items": ARGS[1] + ARGS[2], "form": form},
                                {"op": "update", "items": ARGS[2] + ARGS[1], "form": form}, {"op": "copy"}]))
    for o in singles:
        seqs.append(("exh-1", [o]))
        seqs.append(("exh-1-pre", [pre, o]))
    pairs = list(itertools.product(singles, repeat=2))
    if ctx.level >= 2:
        for a, b in pairs:
            seqs.append(("exh-2", [a, b]))
            seqs.append(("exh-2-pre", [pre, a, b]))
        for n, cnt in ((3, 60000), (4, 30000), (5, 30000)):
            for _ in range(cnt):
                seqs.append((f"sampled-{n}", [rng.choice(singles) for _ in range(n)]))
    else:
        for a, b in pairs:       # every pair once, from the empty map or after the constructor (coin flip)
            seqs.append(("exh-2-pre", [pre, a, b]) if rng.random() < 0.5 else ("exh-2", [a, b]))
        mult = 1 + 3 * ctx.level
        for n, cnt in ((3, 2500), (4, 1500), (5, 1500)):
            for _ in range(cnt * mult):
                seqs.append((f"sampled-{n}", [rng.choice(singles) for _ in range(n)]))
    for _ in range(20000 if ctx.level >= 2 else 400 * (1 + 3 * ctx.level)):
        seqs.append(("random-40", [random_op(rng) for _ in range(40)]))
    return [(kind, number(ops)) for kind, ops in seqs]


def classes(ctx):
    from icalendar.caselessdict import CaselessDict
    from icalendar.parser import Parameters
    from icalendar import Event
    return [("CaselessDict", CaselessDict), ("Parameters", Parameters), ("Event", Event)]


def sorted_view(d):
    """sorted_keys() / sorted_items() of the real object"""
    try:
        return [list(d.sorted_keys()), [[k, v] for k, v in d.sorted_items()]]
    except Exception as e:  # noqa: BLE001
        return ["err", type(e).__name__]


def sorted_spec(d):
    """what they must be, from the mapping's own content: canonical names first in canonical order, the rest sorted"""
    ks = list(d.keys())
    order = list(getattr(d, "canonical_order", None) or ())
    head = [k for k in order if k in ks]
    try:
        keys = head + sorted(k for k in ks if k not in head)
    except TypeError:                       # a broken mapping may hold keys of mixed types
        return ["err", "keys of mixed types: " + repr(ks)[:80]]
    items = dict.items(d)            # the stored pairs themselves (a broken mapping may not find its own keys)
    return [keys, [[k, v] for k in keys for kk, v in items if kk == k]]


def run_sequence(cls, clsname, ops, watch=False):
    """real object and plain-dict reference side by side; returns per-step observations.  [watch]: the sorted
    views are read between the operations too (a sequence is run both ways, so that reading them is shown to
    neither change nor stale anything)"""
    d = cls()
    ref = {}
    rows = []
    stale = None
    for n, o in enumerate(ops):
        if clsname == "Event" and o["op"] in ("eq", "ne", "eq_nonmapping"):
            o = {"op": "len"}
        d, r = impl_step(cls, d, o)
        ref, rr = ref_step(ref, o)
        state = dict_obs(d)
        rstate = dict_obs(ref)
        rows.append((o, r, state, rr, rstate))
        if state != rstate:
            ref = dict(d.items())          # resynchronise after a (classified) deviation
        if (watch or n == len(ops) - 1) and stale is None and isinstance(d, dict):
            got, want = sorted_view(d), sorted_spec(d)
            if got != want:
                stale = (n, got, want)
    SORTED_PROBLEMS.append(stale)
    return rows


SORTED_PROBLEMS = []


def run(ctx, res):
    from icalendar.caselessdict import CaselessDict, canonsort_keys, canonsort_items
    del SORTED_PROBLEMS[:]
    M = ctx.model
    known = ctx.known
    seqs = gen_sequences(ctx)
    res.rule = ("operation sequences on an initially empty map over 9 keys (case variants of 3 names, str and bytes): every "
                "single operation (28 operation forms: 12 keyed x 9 keys, 7 nullary, 6 bulk x 3 argument lists, ==/!= x 3 "
                "mappings), every pair of them (each from the empty map or after a 3-item constructor), sampled "
                "sequences of length 3-5, random sequences of length 40 with random bulk arguments in all argument "
                "shapes (pairs, mapping, keywords, mapping+keywords); run on CaselessDict, and the sampled/random ones "
                "also on Parameters and Event; non-trivial = at least one operation uses a key that is not its own "
                "upper-case form; distinct by (class, operations)")
    cls_list = classes(ctx)
    reqs, meta = [], []
    for kind, ops in seqs:
        which = cls_list if (kind.startswith("random") or kind.startswith("sampled") or kind == "corpus") else cls_list[:1]
        for clsname, cls in which:
            # half of the sequences are run with the sorted views read after every operation
            watch = (len(meta) % 2 == 0)
            rows = run_sequence(cls, clsname, ops, watch)
            eff_ops = [r[0] for r in rows]
            stale = SORTED_PROBLEMS[-1]
            if stale is not None:
                res.fail("C17 sorted_keys/sorted_items are not the canonical ordering of the mapping's present content",
                         {"class": clsname, "ops": eff_ops[:stale[0] + 1], "views read between operations": watch},
                         observed=stale[1], expected=stale[2])
            res.dist(kind + ":" + clsname)
            res.dist("sorted views " + ("watched" if watch else "read at the end"))
            nontriv = any(("k" in o and (o["k"][0] == 1 or o["k"][1] != o["k"][1].upper())) or
                          any(kk[0] == 1 or kk[1] != kk[1].upper() for kk, _ in o.get("items", []))
                          for o in eff_ops)
            res.count((clsname, [wire_op(o) for o in eff_ops]), nontrivial=nontriv)
            reqs.append(("c17_trace", [wire_op(o) for o in eff_ops]))
            meta.append((kind, clsname, eff_ops, rows))
    outs = M.batch(reqs) if M else [None] * len(reqs)
    n_steps = 0
    for (kind, clsname, ops, rows), tr in zip(meta, outs):
        if tr is not None and tr[:1] == ["unsupported"]:
            # the model declines (a key outside ASCII): counted, and the sequence is still compared with the plain-dict
            # reference below
            res.corr("CaselessDict.step", [wire_op(o) for o in ops], None, tr)
            tr = None
        for i, (o, r, state, rr, rstate) in enumerate(rows):
            n_steps += 1
            inp = {"class": clsname, "ops": ops[:i + 1]}
            # stored keys are str and upper-case whatever happened
            if any(type(k) is not str or k != k.upper() for k, _ in state):
                res.fail("C17 keys_upper: a stored key is not an upper-case str", inp, observed=state)
            if tr is not None:
                m_out, m_ref, ok, m_state, m_rstate = tr[i]
                res.corr("CaselessDict.step", inp, [r, state], [m_out, m_state])
                # the Coq reference machine is a plain dict: same result and state as Python's dict from the same state
                res.corr("rstep-vs-python-dict", inp, [rr, rstate], [m_ref, m_rstate])
            else:
                ok = 1 if finding_of(o) is None else 0
                m_out = None
            if o["op"] in ("move_to_end", "move_to_front"):
                continue
            if r == rr and state == rstate:
                continue
            fid = finding_of(o)
            as_model = (m_out is None) or (r == m_out)
            if fid and fid in known and not ok and as_model and state == rstate:
                res.known(fid, {"class": clsname, "ops": [wire_op(x) for x in ops[:i + 1]][-3:], "got": r, "dict gives": rr},
                          known[fid]["summary"])
            else:
                res.fail("C17 refinement: result or state differs from a dict keyed by the upper-cased name"
                         + ("" if ok else " (outside the guard but not as the recorded finding predicts)"),
                         inp, observed=[r, state], expected=[rr, rstate])
    res.extra["steps_compared"] = n_steps

    # ------------------------------------------------------------------ canonical ordering
    import icalendar.cal as cal
    from icalendar.prop import vRecur
    orders = {}
    for name in dir(cal):
        c = getattr(cal, name)
        if isinstance(c, type) and issubclass(c, CaselessDict) and getattr(c, "canonical_order", None):
            orders[name] = list(c.canonical_order)
    orders["vRecur"] = list(vRecur.canonical_order)
    orders["none"] = []
    orders["dup"] = ["B", "A", "B", "C", "A"]
    res.extra["canonical_orders"] = {k: len(v) for k, v in orders.items()}
    rng = common.rng_for(ctx.seed, "c17-canon")
    extra = ["ATTENDEE", "X-B", "X-A", "CLASS", "A", "B", "C", "Z", "uid", "Summary", "", "LOCATION", "a",
             "X-ITEM-2", "X-ITEM-10", "X-ITEM-01", "X-ITEM-1", "X-7", "X-10", "X-007"]      # digit runs sort as characters
    creqs, cmeta = [], []
    for oname, order in sorted(orders.items()):
        pool = order + extra
        for _ in range(3000 if ctx.big else 250 * (1 + 3 * ctx.level)):
            n = rng.randrange(0, 12)
            ks = [rng.choice(pool) for _ in range(n)] if rng.random() < 0.3 else rng.sample(pool, min(n, len(pool)))
            got = canonsort_keys(ks, order if (order or rng.random() < 0.5) else None)
            res.count(("canon", oname, ks), nontrivial=len(ks) >= 2)
            res.dist("canonsort:" + oname)
            # direct oracle
            pri = [k for k in ks if k in order]
            rest = [k for k in ks if k not in order]
            if sorted(got) != sorted(ks):
                res.fail("C17 canonsort: output is not a permutation of the input", [ks, order], observed=got)
            head, tail = got[:len(pri)], got[len(pri):]
            if len(set(order)) == len(order):
                exp_head = [k for c in order for k in pri if k == c]
                if head != exp_head:
                    res.fail("C17 canonsort: priority names are not first in declared order", [ks, order], observed=got)
            if tail != sorted(rest):
                res.fail("C17 canonsort: other names are not sorted after the priority names", [ks, order], observed=got)
            sh = list(ks)
            rng.shuffle(sh)
            if canonsort_keys(sh, order) != got:
                res.fail("C17 canonsort: result depends on the input order", [ks, sh, order], observed=got)
            creqs.append(("canonsort_keys", [ks, order]))
            cmeta.append(([ks, order], got))
            # through an instance: sorted_keys / sorted_items of a class with this canonical_order
            if ks and len(set(ks)) == len(ks) and all(k == k.upper() for k in ks):
                T = type("T", (CaselessDict,), {"canonical_order": tuple(order) or None})
                t = T((k, i) for i, k in enumerate(ks))
                if t.sorted_keys() != got or t.sorted_items() != [(k, t[k]) for k in got]:
                    res.fail("C17 sorted_keys/sorted_items differ from canonsort_keys", [ks, order], observed=t.sorted_items())
                creqs.append(("canonsort_items", [[[k, i] for i, k in enumerate(ks)], order]))
                cmeta.append(([ks, order, "items"], [[k, v] for k, v in canonsort_items(t, order)]))
    if M:
        for (inp, got), m in zip(cmeta, M.batch(creqs)):
            res.corr("canonsort_keys+items", inp, got, m)
    # an update() that fails part-way behaves as dict.update does: the pairs before the bad one are stored
    rng = common.rng_for(ctx.seed, "c17-bad-update")
    for clsname, cls in classes(ctx):
        for t in range(24 if ctx.tier == "quick" else 160):
            first = [(rng.choice(KEYS[:12]), rng.randrange(1, 9)) for _ in range(rng.randrange(0, 3))]
            good = [(rng.choice(KEYS[:12]), rng.randrange(10, 99)) for _ in range(rng.randrange(1, 4))]
            bad = rng.choice([("zz",), ("a", 1, 2), 7, None])
            try:
                d = cls([(pykey(k), v) for k, v in first])
            except Exception:
                continue
            ref = {}
            for k, v in first + good:
                ref[ukey(k)] = v
            res.count((clsname, "update-bad", len(first), len(good), repr(bad)), nontrivial=True)
            try:
                d.update([(pykey(k), v) for k, v in good] + [bad])
                res.fail("C17 update: a malformed pair was accepted", {"class": clsname, "first": first, "good": good,
                                                                      "bad": repr(bad)}, observed=list(d.items()))
            except (ValueError, TypeError):
                if dict(d.items()) != ref:
                    res.fail("C17 update: a failing update() does not leave the pairs before the bad one stored, as "
                             "dict.update does", {"class": clsname, "first": first, "good": good, "bad": repr(bad)},
                             expected=ref, observed=dict(d.items()))
    res.sample({"ops": [wire_op(o) for o in meta[0][2]], "impl": [[r[1], r[2]] for r in meta[0][3]]})
    res.sample({"ops": [wire_op(o) for o in meta[-1][2]][:6], "impl": [[r[1], r[2]] for r in meta[-1][3]][:6]})
    res.sample({"canonsort": cmeta[len(cmeta) // 2][0], "result": cmeta[len(cmeta) // 2][1]})


def replay(ctx, data):
    inp = data["input"]
    if isinstance(inp, dict) and "ops" in inp:
        cls = dict(classes(ctx))[inp["class"]]
        rows = run_sequence(cls, inp["class"], inp["ops"], bool(inp.get("views read between operations")))
        print("sorted views:", SORTED_PROBLEMS[-1])
        for o, r, state, rr, rstate in rows:
            print("op", wire_op(o), "\n  impl:", r, state, "\n  dict:", rr, rstate)
        if ctx.model:
            print("model:", ctx.model.call("c17_trace", [wire_op(o) for o in inp["ops"]]))
    elif isinstance(inp, dict) and "good" in inp:
        cls = dict(classes(ctx))[inp["class"]]
        d = cls([(pykey(k), v) for k, v in inp["first"]])
        bad = eval(inp["bad"])       # one of ("zz",), ("a", 1, 2), 7, None: written by this harness
        print("before:", list(d.items()))
        try:
            d.update([(pykey(k), v) for k, v in inp["good"]] + [bad])
            print("update() accepted the malformed pair", bad)
        except (ValueError, TypeError) as e:
            print("update(", inp["good"], "+ [", bad, "]) raised", type(e).__name__)
        print("after :", list(d.items()), "\ndict.update leaves:", data.get("expected"))
    else:
        from icalendar.caselessdict import canonsort_keys
        print("impl :", canonsort_keys(inp[0], inp[-1] if isinstance(inp[-1], list) else inp[1]))
        if ctx.model:
            print("model:", ctx.model.call("canonsort_keys", [inp[0], inp[1]]))
