"""C15 -- an alarm is active iff not acknowledged at/after its (snoozed) trigger.
The exhaustive decision table over all weak orderings (ties included) of {trigger, alarm
ACKNOWLEDGED, component acknowledgement, snooze}, each of the last three optionally absent,
x trigger kinds (zoned, UTC, floating, date) x local zone set/unset, driven through three API
paths (Alarms by hand, component with DTSTAMP, parsed Thunderbird component); random components
with several alarms; correspondence with Model/Alarm.v; the direct property oracle; monotonicity
and sub-list checks; known-finding classification by the extracted guards."""
import itertools
from datetime import datetime, timedelta, timezone

from . import common
from . import sched_common as S
from . import c14 as C14

FINGERPRINTS = S.FINGERPRINTS_ALARM + S.FINGERPRINTS_C16
GEN = ["Gen_sched"]
ASSUMPTIONS = [
    "times are whole seconds between 2019-06 and 2022-06; acknowledgement and snooze values are UTC instants "
    "(localize_utc of whatever was stored)",
    "the local zone is a zoneinfo zone (wall clock kept) or a pytz zone object (first-period offset + normalize)",
]
TRUSTED = ["Python comparison of aware datetimes by instant, TypeError for naive/aware and date/datetime mixes, "
           "as modelled in Model/Alarm.v (cmp_instant, tzinfo_is_none)"]

LOCAL = "Europe/Berlin"
TRIGGERS = [("z", "Europe/Berlin", 2020, 6, 10, 12, 0, 0), ("z", "America/New_York", 2020, 6, 10, 6, 0, 0),
            ("u", 2020, 6, 10, 10, 0, 0), ("n", 2020, 6, 10, 12, 0, 0), ("d", 2020, 6, 10),
            ("z", "Europe/Berlin", 2020, 10, 25, 2, 30, 0),
            # inside the repeated hour at the end of daylight saving time, with the other instants 20 minutes apart:
            # a later instant then has an EARLIER wall clock reading in the same zone
            ("z", "Europe/Berlin", 2020, 10, 25, 2, 40, 0), ("z", "America/New_York", 2020, 11, 1, 1, 30, 0)]
UNIT_MINUTES = {("z", "Europe/Berlin", 2020, 10, 25, 2, 40, 0): 20, ("z", "America/New_York", 2020, 11, 1, 1, 30, 0): 20}
DOC = ("LocalTimezoneMissing",)


def weak_orderings(items):
    """all assignments of ranks (ties allowed, ranks contiguous from 0) to the items"""
    n = len(items)
    out = []
    for ranks in itertools.product(range(n), repeat=n):
        used = sorted(set(ranks))
        if used == list(range(len(used))):
            out.append(dict(zip(items, ranks)))
    return out


def table_cases():
    cases = []
    for present in itertools.product([False, True], repeat=3):
        items = ["T"] + [nm for nm, p in zip("ACS", present) if p]
        for ranks in weak_orderings(items):
            cases.append(ranks)
    return cases


def true_instant(tdesc, provider, local):
    """the UTC datetime of the trigger as the property understands it (a floating time is local)"""
    if tdesc[0] == "d":
        base = datetime(*tdesc[1:])
    elif tdesc[0] == "n":
        base = datetime(*tdesc[1:])
    else:
        return S.mk_dt(tdesc, provider).astimezone(timezone.utc)
    from zoneinfo import ZoneInfo
    return base.replace(tzinfo=ZoneInfo(LOCAL)).astimezone(timezone.utc)


def instants_for(tdesc, ranks, provider="zoneinfo"):
    """UTC datetimes of A, C, S placed around the trigger's instant according to the ranks"""
    t = true_instant(tdesc, provider, True)
    out = {}
    for k in "ACS":
        if k in ranks:
            out[k] = t + timedelta(minutes=UNIT_MINUTES.get(tuple(tdesc), 60) * (ranks[k] - ranks["T"]))
        else:
            out[k] = None
    return t, out


def rule(t, a, c, s):
    """the property's decision rule on instants"""
    ack = max([x for x in (a, c) if x is not None], default=None)
    if ack is None:
        return True
    if s is not None and s > ack:
        return True
    return t > ack


def needs(a, c, s):
    ack = max([x for x in (a, c) if x is not None], default=None)
    return ack is not None and not (s is not None and s > ack)


def obs_alarm_times(al):
    """observation of an Alarms object: per alarm time [.trigger, .acknowledged, .is_active()], and .active"""
    def times():
        out = []
        for x in al.times:
            out.append([S.observe(lambda: x.trigger, S.c_time),
                        S.observe(lambda: x.acknowledged, lambda v: S.NONE if v is None else S.utc_instant(v)),
                        S.observe(lambda: x.is_active(), int)])
        return out
    return [S.observe(times, lambda v: v),
            S.observe(lambda: [S.observe(lambda: x.trigger, S.c_time) for x in al.active], lambda v: v)]


def model_view(m):
    """[times -> [.trigger, ack, is_active] per alarm time, active] from the model's c15_component answer, and guards"""
    mt, ma = m
    guards = None
    if mt[:1] != ["err"]:
        guards = [(x[4], x[5]) for x in mt]
        mt = [[x[1], x[2], x[3]] for x in mt]
    return [mt, ma], guards


def build_paths(tdesc, inst, provider, local):
    """the three ways to drive the same situation; yields (path name, Alarms object)"""
    import icalendar
    from icalendar import Alarms
    A, C, Sn = inst["A"], inst["C"], inst["S"]
    start = S.mk_dt(tdesc, provider)

    def mk_alarm():
        al = icalendar.Alarm()
        al.TRIGGER = timedelta(0)
        if A is not None:
            al.ACKNOWLEDGED = A
        return al
    # 1. by hand
    x = Alarms()
    x.add_alarm(mk_alarm())
    x.set_start(start)
    if C is not None:
        x.acknowledge_until(C)
    if Sn is not None:
        x.snooze_until(Sn)
    if local:
        x.set_local_timezone(LOCAL)
    yield "by-hand", x
    # 2. component with DTSTAMP (no snooze possible on this path)
    if Sn is None:
        ev = icalendar.Event()
        ev.start = start
        if C is not None:
            ev.add("DTSTAMP", C)
        ev.add_component(mk_alarm())
        x = Alarms(ev)
        if local:
            x.set_local_timezone(LOCAL)
        yield "dtstamp", x
    # 3. parsed Thunderbird component: X-MOZ-LASTACK / X-MOZ-SNOOZE-TIME
    fmt = lambda d: d.strftime("%Y%m%dT%H%M%SZ")       # noqa: E731
    p, v = S.ical_dt(tdesc)
    lines = ["BEGIN:VTODO", f"DTSTART{p}:{v}", "DTSTAMP:20300101T000000Z", "X-MOZ-GENERATION:1"]
    if C is not None:
        lines.append("X-MOZ-LASTACK:" + fmt(C))
    if Sn is not None:
        lines.append("X-MOZ-SNOOZE-TIME:" + fmt(Sn))
    lines += ["BEGIN:VALARM", "ACTION:DISPLAY", "TRIGGER:PT0S"]
    if A is not None:
        lines.append("ACKNOWLEDGED:" + fmt(A))
    lines += ["END:VALARM", "END:VTODO"]
    td = icalendar.Todo.from_ical("\r\n".join(lines) + "\r\n")
    x = Alarms(td)
    if local:
        x.set_local_timezone(LOCAL)
    yield "thunderbird-text", x


def local_key(provider, local):
    if not local:
        return S.NONE
    zid = S.ZONES.index(LOCAL) + 1
    if provider == "pytz":
        import pytz
        return [zid, [S.td_s(datetime(2020, 6, 10, 12).replace(tzinfo=pytz.timezone(LOCAL)).utcoffset())]]
    return [zid, []]


def run_table(ctx, res, provider):
    S.use_provider(provider)
    M = ctx.model
    rows, reqs = [], []
    cases = table_cases()
    for tdesc in TRIGGERS:
        kind = {"z": "zoned", "u": "utc", "n": "floating", "d": "date"}[tdesc[0]]
        for ranks in cases:
            for local in (False, True):
                t, inst = instants_for(tdesc, ranks, provider)
                key = (provider, tdesc, tuple(sorted(ranks.items())), local)
                res.count(key, nontrivial=len(ranks) >= 2)
                res.dist(f"{provider}:table:{kind}:{'local' if local else 'nolocal'}")
                wi = {k: (S.NONE if v is None else S.utc_instant(v)) for k, v in inst.items()}
                # model input: a parent whose acknowledgement fields are the given instants, one alarm with TRIGGER 0
                start = S.mk_dt(tdesc, provider)
                ent = ["one", S.w_pyval(start)]
                walarm = [["one", ["td", 0]], S.NONE, S.NONE, S.NONE, wi["A"]]
                wparent = [0, [ent, ["absent"], ["absent"]], S.NONE, 1, wi["C"], wi["S"]]
                arg = [wparent, [walarm]]
                req = ("c15_component", arg + [S.oracle_for(S.zids_in(arg) | {S.ZONES.index(LOCAL) + 1}, provider),
                                                local_key(provider, local)])
                wparent2 = [0, [ent, ["absent"], ["absent"]], wi["C"], 0, S.NONE, S.NONE]
                req2 = ("c15_component", [wparent2, [walarm], req[1][2], req[1][3]])
                paths = [(name, obs_alarm_times(x)) for name, x in build_paths(tdesc, inst, provider, local)]
                # monotonicity probe on the implementation: the same situation with C (or A) one hour and a day later
                mono = []
                for who in "CA":
                    if inst[who] is not None:
                        for shift in (timedelta(hours=1), timedelta(days=1)):
                            later = dict(inst)
                            later[who] = inst[who] + shift
                            name, x = next(build_paths(tdesc, later, provider, local))
                            mono.append((who, obs_alarm_times(x)))
                rows.append((tdesc, ranks, local, t, inst, paths, mono))
                reqs.append(req)
                reqs.append(req2)
    outs = M.batch(reqs) if M else [None] * len(reqs)
    known = ctx.known
    for (tdesc, ranks, local, t, inst, paths, mono), m, m2 in zip(rows, outs[0::2], outs[1::2]):
        inp = {"provider": provider, "trigger": list(tdesc), "ranks": ranks, "local_zone": LOCAL if local else None}
        mobs = guards = None
        if m is not None and m[:1] != ["unsupported"]:
            mobs, guards = model_view(m)
            for name, o in paths:
                res.corr(f"c15_component({name})", inp, o, model_view(m2)[0] if name == "dtstamp" else mobs)
        elif m is not None:
            res.corr("c15_component(by-hand)", inp, paths[0][1], m)
        # ---- the property, directly
        floating_now = tdesc[0] == "n" and not local
        want_active = rule(t, inst["A"], inst["C"], inst["S"])
        if floating_now and needs(inst["A"], inst["C"], inst["S"]):
            want = ("err", "LocalTimezoneMissing")
        else:
            want = want_active
        for name, (o_times, o_active) in paths:
            problems = []
            if o_times[:1] == ["err"]:
                problems.append(("times raises " + o_times[1], o_times))
            else:
                trig, ack, act = o_times[0]
                if want == ("err", "LocalTimezoneMissing"):
                    if act != ["err", "LocalTimezoneMissing"]:
                        problems.append(("is_active: expected LocalTimezoneMissing", act))
                elif act != int(want):
                    problems.append((f"is_active: expected {want}", act))
                # the reported trigger
                if inst["S"] is not None and inst["S"] > t and not floating_now:
                    if trig != ["u", S.utc_instant(inst["S"])] and trig[:1] != ["err"]:
                        problems.append(("trigger not moved to the snooze time", trig))
                    if trig[:1] == ["err"]:
                        problems.append(("trigger raises " + trig[1], trig))
                elif trig[:1] == ["err"]:
                    problems.append(("trigger raises " + trig[1], trig))
                # sub-list: active is [] or [that one]
                if o_active[:1] != ["err"]:
                    if len(o_active) > 1 or (len(o_active) == 1 and act != 1) or (len(o_active) == 0 and act == 1):
                        problems.append(("active is not the sub-list of active times", o_active))
                elif not (isinstance(act, list) and act[:1] == ["err"]):
                    problems.append(("active raises " + o_active[1], o_active))
            # monotonicity
            if name == "by-hand" and o_times[:1] != ["err"] and o_times[0][2] == 0:
                for who, (l_times, _) in mono:
                    if l_times[:1] != ["err"] and l_times[0][2] == 1:
                        problems.append((f"moving {who} later activated the alarm", l_times))
            if not problems:
                continue
            # classification
            fid = None
            if tdesc[0] == "d":
                fid = "C15-F1"
            elif tdesc[0] == "n" and not local and inst["S"] is not None:
                fid = "C15-F2"
            elif tdesc[0] == "n" and local and provider == "pytz":
                fid = "C15-F3"
            in_guard = True
            if guards is not None and guards:
                in_guard = bool(guards[0][0]) and bool(guards[0][1])
            elif mobs is not None and mobs[0][:1] == ["err"]:
                in_guard = tdesc[0] != "d"
            if fid == "C15-F3":
                in_guard = False         # the class is on the local zone object, not on the alarm time
            agrees = mobs is None or [o_times, o_active] == mobs
            if fid and fid in known and agrees and not in_guard:
                res.known(fid, {"case": inp, "path": name, "what": problems[0][0], "observed": problems[0][1]},
                          known[fid]["summary"])
            else:
                res.fail(f"C15 ({name}): " + "; ".join(p[0] for p in problems), inp, observed=[o_times, o_active],
                         expected={"is_active": want if isinstance(want, bool) else list(want)})


def run_components(ctx, res, provider):
    """random events/todos with several alarms, acknowledgement fields and a local zone or none"""
    import icalendar
    from icalendar import Alarms
    S.use_provider(provider)
    rng = common.rng_for(ctx.seed, "c15-comp")
    M = ctx.model
    rows, reqs = [], []
    for _ in range(4000 if ctx.big else 700 * (1 + 2 * ctx.level)):
        st = rng.choice(C14.STARTS[1:]) if rng.random() < 0.9 else None      # sometimes no DTSTART at all (absolute alarms only make sense then)
        en, du = rng.choice(C14.end_variants(st))
        als = []
        for _k in range(rng.choice([1, 2, 3])):
            a = C14.gen_alarm(rng)
            a["ack"] = rng.choice([None, None, -3, 0, 2, 30, -0.5, -0.3, 0.2, 0.6])     # also between two repetitions of one alarm
            als.append(a)
        C14.relate_alarms(rng, als)
        case = (rng.randrange(2), st, en, du, als)
        if not C14.parseable(case):
            continue
        # acknowledgement / snooze instants are placed around the start (around the absolute triggers' day when there is none)
        base = true_instant(st if st is not None else ("u", 2020, 3, 29, 0, 30, 0), provider, True)
        c_h, s_h = rng.choice([None, -30, -2, 0, 1, 26, -0.4, 0.3]), rng.choice([None, None, -1, 1, 30])
        moz = rng.random() < 0.5
        local = rng.random() < 0.5
        hrs = lambda h: None if h is None else base + timedelta(hours=h)     # noqa: E731
        fmt = lambda d: d.strftime("%Y%m%dT%H%M%SZ")                        # noqa: E731
        text = C14.text_of(case)
        extra = []
        if moz:
            extra.append("X-MOZ-GENERATION:2")
            extra.append("DTSTAMP:20300101T000000Z")
            if c_h is not None:
                extra.append("X-MOZ-LASTACK:" + fmt(hrs(c_h)))
            if s_h is not None:
                extra.append("X-MOZ-SNOOZE-TIME:" + fmt(hrs(s_h)))
        elif c_h is not None:
            extra.append("DTSTAMP:" + fmt(hrs(c_h)))
        text = text.replace("UID:c14@example.com\r\n", "UID:c15@example.com\r\n" + "".join(e + "\r\n" for e in extra))
        k = 0
        for a in als:      # ACKNOWLEDGED inside each alarm
            if a["ack"] is not None:
                marker = "ACTION:DISPLAY\r\n"
                pos = -1
                for _i in range(k + 1):
                    pos = text.index(marker, pos + 1)
                text = text[:pos] + marker + "ACKNOWLEDGED:" + fmt(hrs(a["ack"])) + "\r\n" + text[pos + len(marker):]
            k += 1
        comp = (icalendar.Event if case[0] == 0 else icalendar.Todo).from_ical(text)
        try:
            x = Alarms(comp)
            if local:
                x.set_local_timezone(LOCAL)
            o = obs_alarm_times(x)
        except Exception as e:  # noqa: BLE001
            o = [S.c_err(e), S.c_err(e)]
        wp = C14.w_parent(case, provider)
        inst = lambda h: S.NONE if h is None else S.utc_instant(hrs(h))     # noqa: E731
        wp[2] = S.NONE if moz else inst(c_h)      # with X-MOZ- keys DTSTAMP is not consulted
        wp[3] = int(moz)
        wp[4] = inst(c_h) if moz else S.NONE
        wp[5] = inst(s_h) if moz else S.NONE
        wa = []
        for a in als:
            w = C14.w_alarm(a, provider)
            w[4] = inst(a["ack"])
            wa.append(w)
        arg = [wp, wa]
        # direct oracle: the acknowledged-until of every alarm time is at least the component's own acknowledgement
        # (DTSTAMP, or X-MOZ-LASTACK for a Thunderbird component), whatever else the component has or lacks
        c_inst = inst(c_h)
        if c_inst != S.NONE and isinstance(o[0], list) and o[0][:1] != ["err"]:
            for entry in o[0]:
                ack = entry[1]
                if isinstance(ack, list) and ack[:1] == ["err"]:
                    continue
                if ack == S.NONE or ack < c_inst:
                    res.fail("C15: an alarm time's acknowledged-until is earlier than the component's acknowledgement "
                             "(DTSTAMP / X-MOZ-LASTACK), or absent", {"provider": provider, "ical": text},
                             observed=ack, expected=[">=", c_inst])
                    break
        rows.append(({"provider": provider, "ical": text, "local_zone": LOCAL if local else None}, o, case))
        reqs.append(("c15_component", arg + [S.oracle_for(S.zids_in(arg) | {S.ZONES.index(LOCAL) + 1}, provider),
                                             local_key(provider, local)]))
        res.count((provider, text, local), nontrivial=len(als) >= 2)
        res.dist(f"{provider}:components")
    outs = M.batch(reqs) if M else [None] * len(reqs)
    known = ctx.known
    for (inp, o, case), m in zip(rows, outs):
        mobs = guards = None
        if m is not None and m[:1] != ["unsupported"]:
            mobs, guards = model_view(m)
            res.corr("c15_component(random-parsed)", inp, o, mobs)
        # direct checks: sub-list, and no error other than the documented ones
        o_times, o_active = o
        bad = []
        if o_times[:1] != ["err"] and o_active[:1] != ["err"]:
            act_trigs = [x[0] for x in o_times if x[2] == 1]
            if o_active != act_trigs:
                bad.append("active is not the sub-list of the times that are active")
        errs = []
        if o_times[:1] == ["err"]:
            errs.append(o_times[1])
        else:
            for x in o_times:
                for part in (x[0], x[2]):
                    if isinstance(part, list) and part[:1] == ["err"]:
                        errs.append(part[1])
        if o_active[:1] == ["err"]:
            errs.append(o_active[1])
        und = [e for e in errs if e not in ("LocalTimezoneMissing", "InvalidCalendar", "IncompleteComponent")]
        for b in bad:
            res.fail("C15 components: " + b, inp, observed=o)
        if und:
            # classify by the extracted guards of the alarm times (not_date_trigger, snooze_ok)
            fid = None
            if guards:
                if any(g[0] == 0 for g in guards):
                    fid = "C15-F1"
                elif any(g[1] == 0 for g in guards):
                    fid = "C15-F2"
            elif guards is None and case[1][0] == "d":
                fid = "C15-F1"          # times itself raises: a date trigger met the local zone
            agrees = mobs is None or o == mobs
            if fid and fid in known and agrees:
                res.known(fid, {"case": inp, "raises": sorted(set(und))}, known[fid]["summary"])
            else:
                res.fail("C15 components: undocumented error " + ",".join(sorted(set(und))), inp, observed=o, expected=mobs)


def run_histories(ctx, res, provider):
    """the same settings reached through different HISTORIES of one Alarms object (reads in between, settings changed
    several times) must answer like a fresh object given the final settings: acknowledged-until and snooze-until are
    component-level state applied to every alarm whenever it is asked"""
    import icalendar
    from icalendar import Alarms
    from datetime import datetime, timezone
    rng = common.rng_for(ctx.seed, "c15-hist-" + provider)
    utc = lambda h, m=0: datetime(2024, 10, 10, h, m, tzinfo=timezone.utc)  # noqa: E731
    n = 400 if ctx.big else 80 * (1 + 3 * ctx.level)
    for i in range(n):
        def mk():
            x = Alarms()
            for k in range(rng_k):
                al = icalendar.Alarm()
                al.TRIGGER = timedelta(minutes=-15 * (k + 1))
                if ack_flags[k]:
                    al.ACKNOWLEDGED = utc(9, 10 * k)
                if k == 0 and rep:
                    al.REPEAT = 2
                    al.DURATION = timedelta(minutes=5)
                x.add_alarm(al)
            x.set_start(utc(12))
            return x
        rng_k = rng.randrange(1, 4)
        ack_flags = [rng.random() < 0.3 for _ in range(rng_k)]
        rep = rng.random() < 0.5
        ops = [(rng.choice(["ack", "snooze", "read"]), utc(rng.randrange(8, 15), rng.choice([0, 15, 30, 45]))) for _ in range(rng.randrange(2, 7))]
        x = mk()
        obs_alarm_times(x)                       # a read before anything is set
        final = {"ack": None, "snooze": None}
        for op, t in ops:
            if op == "ack":
                x.acknowledge_until(t)
                final["ack"] = t
            elif op == "snooze":
                x.snooze_until(t)
                final["snooze"] = t
            else:
                obs_alarm_times(x)
        y = mk()
        if final["ack"] is not None:
            y.acknowledge_until(final["ack"])
        if final["snooze"] is not None:
            y.snooze_until(final["snooze"])
        a, b = obs_alarm_times(x), obs_alarm_times(y)
        res.count(("hist", provider, i, str(ops)), nontrivial=any(o != "read" for o, _ in ops))
        res.dist("history")
        if a != b:
            res.fail("C15 (%s): an Alarms object whose settings were reached through a history of reads and changes answers "
                     "differently from a fresh object with the same final settings" % provider,
                     {"alarms": rng_k, "ops": [[o, t.isoformat()] for o, t in ops]}, observed=a, expected=b)


def probe_moz_setters(ctx, res):
    """C15-F4: the X_MOZ_LASTACK / X_MOZ_SNOOZE_TIME setters store text their own getters cannot read"""
    import icalendar
    ev = icalendar.Event()
    ev.start = datetime(2020, 6, 10, 12, 0, tzinfo=timezone.utc)
    ev.X_MOZ_LASTACK = datetime(2020, 6, 10, 8, 0, tzinfo=timezone.utc)
    o = S.observe(lambda: ev.X_MOZ_LASTACK, lambda v: S.utc_instant(v))
    o2 = S.observe(lambda: len(icalendar.Alarms(ev).times), int)
    res.evaluations += 1
    if o[:1] == ["err"] if isinstance(o, list) else False:
        if "C15-F4" in ctx.known:
            res.known("C15-F4", {"set": "ev.X_MOZ_LASTACK = datetime(2020,6,10,8,tzinfo=utc)", "get raises": o[1],
                                 "Alarms(ev) raises": o2[1] if isinstance(o2, list) else None},
                      ctx.known["C15-F4"]["summary"])
        else:
            res.fail("C15: X_MOZ_LASTACK set through its setter cannot be read back", "ev.X_MOZ_LASTACK = utc datetime",
                     observed=[o, o2])
    elif "C15-F4" in ctx.known:
        res.notes.append("C15-F4 no longer reproduces: the X_MOZ_LASTACK setter/getter round trip works")
    elif o != S.utc_instant(datetime(2020, 6, 10, 8, 0, tzinfo=timezone.utc)) or isinstance(o2, list):
        res.fail("C15: X_MOZ_LASTACK set through its setter reads back as another instant, or Alarms(component) fails",
                 "ev.X_MOZ_LASTACK = utc datetime", observed=[o, o2])


def probe_utc_setters(ctx, res):
    """an acknowledgement given as a zoned wall clock (the second pass through a repeated hour, fractions of a second)
    is stored as the same instant by every UTC-property setter"""
    import icalendar
    from zoneinfo import ZoneInfo
    vals = []
    for zone, base in (("Europe/Berlin", datetime(2021, 10, 31, 0, 40, tzinfo=timezone.utc)),
                       ("America/New_York", datetime(2021, 11, 7, 5, 40, tzinfo=timezone.utc)),
                       ("Europe/Berlin", datetime(2021, 6, 1, 9, 0, tzinfo=timezone.utc))):
        for k in range(0, 5):
            for us in (0, 250000):
                vals.append((base + timedelta(minutes=20 * k, microseconds=us)).astimezone(ZoneInfo(zone)))
    targets = [("Alarm", "ACKNOWLEDGED"), ("Event", "DTSTAMP"), ("Event", "LAST_MODIFIED"), ("Todo", "X_MOZ_LASTACK"),
               ("Event", "X_MOZ_SNOOZE_TIME"), ("Journal", "DTSTAMP")]
    for v in vals:
        want = v.astimezone(timezone.utc)
        for clsname, attr in targets:
            c = getattr(icalendar, clsname)()
            res.count((clsname, attr, v.isoformat(), v.fold), nontrivial=bool(v.fold or v.microsecond))
            try:
                setattr(c, attr, v)
                got = getattr(c, attr)
            except Exception as e:
                res.fail("C15: a UTC-property setter refuses a zoned date-time", [clsname, attr, v.isoformat(), v.fold],
                         observed=type(e).__name__ + ": " + str(e))
                continue
            if got is None or got.utcoffset() != timedelta(0) or abs(got - want) >= timedelta(seconds=1):
                res.fail("C15: %s.%s set to a zoned date-time reads back as another instant (an acknowledgement in the "
                         "repeated hour would land an hour early)" % (clsname, attr),
                         {"set": v.isoformat(), "fold": v.fold, "zone": str(v.tzinfo), "class": clsname, "attr": attr},
                         expected=want.isoformat(), observed=str(got))


def run(ctx, res):
    _run_main(ctx, res)
    probe_utc_setters(ctx, res)
    import icalendar
    for provider in ("zoneinfo", "pytz"):
        getattr(icalendar, "use_" + provider)()
        try:
            run_histories(ctx, res, provider)
        finally:
            icalendar.use_zoneinfo()


def _run_main(ctx, res):
    n = len(table_cases())
    res.rule = (f"decision table: all {n} weak orderings (ties included) of trigger / alarm ACKNOWLEDGED / component "
                "acknowledgement / snooze with each of the last three optionally absent x 8 triggers (zoned Berlin, New "
                "York, Berlin in the DST overlap, UTC, floating, date; Berlin and New York in the repeated hour with the other "
                "instants 20 minutes apart, so that later instants read earlier on the wall clock) x local zone set/unset, each through Alarms by hand, "
                "a component with DTSTAMP and a parsed Thunderbird component, with two later-acknowledgement probes per "
                "case, under zoneinfo and pytz; random parsed components with 1-3 alarms; non-trivial = at least one of "
                "the three optional instants present (components: at least two alarms); distinct by content")
    try:
        run_table(ctx, res, "zoneinfo")
        run_table(ctx, res, "pytz")
        for provider in ("zoneinfo", "pytz"):
            run_components(ctx, res, provider)
        S.use_provider("zoneinfo")
        probe_moz_setters(ctx, res)
    finally:
        S.use_provider("zoneinfo")
    res.sample({"theorems": ["C15_acknowledged", "C15_active_table", "C15_local_zone_no_floating", "C15_active_defined",
                             "C15_active_sublist", "C15_component_active_sublist", "C15_active_members",
                             "C15_ack_monotone", "C15_snooze_moves_trigger", "C15_localize_keeps_wall"]})


def replay(ctx, data):
    inp = data["input"]
    provider = inp.get("provider", "zoneinfo")
    S.use_provider(provider)
    if isinstance(inp, dict) and "ranks" in inp:
        tdesc = tuple(inp["trigger"])
        t, inst = instants_for(tdesc, inp["ranks"], provider)
        local = inp.get("local_zone") is not None
        print("trigger instant:", t, "A/C/S:", inst)
        for name, x in build_paths(tdesc, inst, provider, local):
            print(name, "->", obs_alarm_times(x))
        print("property says is_active =", rule(t, inst["A"], inst["C"], inst["S"]))
    elif isinstance(inp, dict) and "attr" in inp:
        import icalendar
        from zoneinfo import ZoneInfo
        v = datetime.fromisoformat(inp["set"]).replace(tzinfo=ZoneInfo(inp["zone"]), fold=inp["fold"])
        c = getattr(icalendar, inp["class"])()
        setattr(c, inp["attr"], v)
        print("set   :", v.isoformat(), "fold", v.fold, "=", v.astimezone(timezone.utc).isoformat())
        print("stored:", getattr(c, inp["attr"]), c.to_ical().decode())
    elif isinstance(inp, dict) and "ical" in inp:
        import icalendar
        from icalendar import Alarms
        comp = icalendar.Component.from_ical(inp["ical"])
        x = Alarms(comp)
        if inp.get("local_zone"):
            x.set_local_timezone(inp["local_zone"])
        print(obs_alarm_times(x))
    S.use_provider("zoneinfo")
