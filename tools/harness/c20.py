"""C20 -- traversal is complete; equality is an order-insensitive equivalence."""
import copy
import pickle
from datetime import date, datetime, timedelta

from . import common
from . import treelib as T

FINGERPRINTS = ["cal.Component._walk", "cal.Component.walk", "cal.Component.__eq__", "cal.Component.add_component"]
GEN = ["Gen_parser", "Gen_cal"]
ASSUMPTIONS = [
    "value equality (each value class has its own __eq__) enters the model as a table computed with the implementation",
    "deep copy / pickle are identity in a value-semantic model: that clause is checked on the implementation only",
]
TRUSTED = []

KINDS = ["Calendar", "Event", "Todo", "Journal", "FreeBusy", "Alarm", "Timezone", "X-FOO", "x-bar", "VVENUE", "X-Wrap"]
VALUES = [("summary", "a"), ("summary", "b"), ("SUMMARY", "a"), ("description", "x,y;z"), ("uid", "u1"), ("uid", "u2"),
          ("dtstart", datetime(2020, 1, 2, 10, 0, 0)), ("dtstart", date(2020, 1, 2)), ("duration", timedelta(hours=1)),
          ("priority", 5), ("priority", 6), ("x-custom", "v"), ("X-Custom", "w"), ("categories", ["a", "b"]),
          ("attendee", "mailto:a@x"), ("attendee", "mailto:b@x"), ("comment", "c1"), ("comment", "c2"),
          ("location", "L"), ("url", "http://x"), ("sequence", 1),
          # numbered extension names: equal up to zero padding, and of different digit counts
          ("x-item-1", "a"), ("x-item-01", "b"), ("x-rev-7", "c"), ("x-rev-007", "d"), ("x-a-2", "e"), ("x-a-10", "f")]


def twin_values():
    """per value class two different values of the same shape (same list length, same type, same parameters): replacing
    one by the other is a single-value perturbation that only the value's own equality can see"""
    import zoneinfo
    import icalendar
    B = zoneinfo.ZoneInfo("Europe/Berlin")
    d = datetime
    return [
        ("rdate", [d(2020, 1, 2, 10), d(2020, 1, 3, 10)], [d(2020, 1, 2, 10), d(2020, 1, 4, 10)]),
        ("exdate", [date(2020, 1, 2)], [date(2020, 1, 3)]),
        ("exdate", [d(2020, 1, 2, 10, tzinfo=B), d(2020, 2, 2, 10, tzinfo=B)], [d(2020, 1, 2, 10, tzinfo=B), d(2020, 2, 2, 11, tzinfo=B)]),
        ("tzoffsetfrom", timedelta(hours=1), timedelta(hours=2)),
        ("tzoffsetto", timedelta(hours=-5), timedelta(hours=-5, minutes=-30)),
        ("geo", (1.0, 2.0), (1.0, 2.5)),
        ("attach", icalendar.vBinary("hello"), icalendar.vBinary("hellp")),
        ("freebusy", icalendar.vPeriod((d(2020, 1, 1, 8), d(2020, 1, 1, 9))), icalendar.vPeriod((d(2020, 1, 1, 8), d(2020, 1, 1, 10)))),
        ("freebusy", icalendar.vPeriod((d(2020, 1, 1, 8), timedelta(hours=1))), icalendar.vPeriod((d(2020, 1, 1, 8), timedelta(hours=2)))),
        ("rrule", {"freq": "daily", "count": 3}, {"freq": "daily", "count": 4}),
        ("rrule", {"freq": "weekly", "byday": ["MO", "TU"]}, {"freq": "weekly", "byday": ["MO", "WE"]}),
        ("trigger", timedelta(minutes=-15), timedelta(minutes=-20)),
        ("dtstart", d(2020, 1, 2, 10, tzinfo=B), d(2020, 1, 2, 11, tzinfo=B)),
        ("dtend", d(2020, 1, 2, 10, tzinfo=zoneinfo.ZoneInfo("UTC")), d(2020, 1, 2, 11, tzinfo=zoneinfo.ZoneInfo("UTC"))),
        ("due", date(2020, 1, 2), date(2020, 1, 3)),
        ("dtstart", d(2020, 1, 2, 10), d(2020, 1, 2, 10, 0, 1)),
        ("duration", timedelta(hours=1), timedelta(hours=1, seconds=1)),
        ("categories", ["a", "b"], ["a", "c"]),
        ("percent-complete", 10, 20),
        ("completed", d(2020, 1, 2, 10, tzinfo=zoneinfo.ZoneInfo("UTC")), d(2021, 1, 2, 10, tzinfo=zoneinfo.ZoneInfo("UTC"))),
        ("attendee", "mailto:a@x", "mailto:b@x"),
        ("url", "http://x", "http://y"),
        ("x-custom", "v", "w"),
        ("recurrence-id", d(2020, 1, 2, 10), d(2020, 1, 3, 10)),
    ]


def upper_names(s):
    """the text with the names of its BEGIN/END lines in upper case"""
    return "\r\n".join(l.upper() if l.upper().startswith(("BEGIN:", "END:")) else l for l in s.split("\r\n"))


def new_comp(kind):
    import icalendar
    cls = getattr(icalendar, kind, None)
    if cls is not None:
        return cls()
    c = icalendar.cal.Component()
    c.name = kind if kind in ("x-bar", "X-Wrap") else kind.upper()      # names the caller spelled in lower or mixed case
    return c


def gen_tree(rng, depth, maxdepth):
    c = new_comp(rng.choice(KINDS) if depth else rng.choice(["Calendar", "Calendar", "Event", "X-FOO"]))
    for _ in range(rng.randrange(0, 4)):
        if rng.random() < 0.3:
            n, v, _w = rng.choice(twin_values())
        else:
            n, v = rng.choice(VALUES)
        c.add(n, v)
    if depth < maxdepth:
        for _ in range(rng.choice((0, 1, 1, 2, 3)) if depth < 2 else rng.choice((0, 0, 1))):
            c.add_component(gen_tree(rng, depth + 1, maxdepth))
    if rng.random() < 0.12:
        c.add_component(tz_subtree(rng))
    if c.subcomponents and depth + 2 <= maxdepth and rng.random() < 0.3:
        # a sibling with exactly the properties of an existing child (a recurring event and its override, repeated
        # wrappers) but children of its own: such siblings can be told apart only through their subtrees
        src = rng.choice(c.subcomponents)
        twin = type(src)()
        twin.name = src.name
        for k in src.keys():
            twin[k] = copy.deepcopy(src[k])
        for _ in range(rng.choice((1, 2, 2, 3))):
            twin.add_component(gen_tree(rng, depth + 2, maxdepth))
        if not src.subcomponents:
            src.add_component(gen_tree(rng, depth + 2, maxdepth))
        c.add_component(twin)
    if depth == 0 and rng.random() < 0.15:
        # the same component OBJECT at two places of the tree (one alarm attached to two events, an event added twice)
        nodes = [n for n in py_preorder(c) if n is not c]
        if nodes:
            obj = rng.choice(nodes)
            host = rng.choice([n for n in py_preorder(c) if n is not obj and obj not in py_preorder(n)[0:0] and n not in py_preorder(obj)])
            host.add_component(obj)
    return c


def tz_subtree(rng):
    """a well-formed VTIMEZONE under an id used nowhere else in this process, with X- properties on it and inside its
    observances (parsing it makes the provider build a zone from it: that must leave the tree alone)"""
    import icalendar
    tz = icalendar.Timezone()
    tz.add("tzid", "Verif-%d/C20" % rng.randrange(10 ** 9))
    if rng.random() < 0.5:
        tz.add("x-lic-location", "Nowhere")
    for cls, month, a, b, nm in ((icalendar.TimezoneStandard, 10, 2, 1, "VST"), (icalendar.TimezoneDaylight, 3, 1, 2, "VDT")):
        o = cls()
        o.add("dtstart", datetime(1970, month, 25, 3, 0, 0))
        o.add("tzoffsetfrom", timedelta(hours=a))
        o.add("tzoffsetto", timedelta(hours=b))
        o.add("tzname", nm)
        o.add("rrule", {"FREQ": ["YEARLY"], "BYMONTH": [month], "BYDAY": ["-1SU"]})
        if rng.random() < 0.6:
            o.add("x-observance-note", rng.choice(["winter time", "a;b", "n"]))
        tz.add_component(o)
    return tz


def py_preorder(c):
    out = [c]
    for s in c.subcomponents:
        out += py_preorder(s)
    return out


def rebuild(c, rng, mode):
    """a structurally equal copy with: props inserted in another order / subcomponents permuted / names re-cased"""
    d = type(c)()
    d.name = c.name
    keys = list(c.keys())
    if mode in ("props", "both"):
        rng.shuffle(keys)
    for k in keys:
        kk = k.lower() if mode == "case" else k
        d[kk] = copy.deepcopy(c[k])
    subs = [rebuild(s, rng, mode) for s in c.subcomponents]
    if mode in ("subs", "both"):
        rng.shuffle(subs)
    d.subcomponents = subs
    return d


def perturb(c, rng):
    """copy with exactly one change; returns (copy, what) or None"""
    d = copy.deepcopy(c)
    nodes = py_preorder(d)
    node = rng.choice(nodes)
    op = rng.randrange(7)
    if op >= 5:
        # one value replaced by another of the same class and shape
        cands = []
        for nd in nodes:
            for n, v, w in twin_values():
                if n.upper() in nd and not isinstance(nd[n.upper()], list):
                    cands.append((nd, n, v, w))
        if not cands:
            return None
        nd, n, v, w = rng.choice(cands)
        import icalendar
        a, b = icalendar.cal.Component(), icalendar.cal.Component()
        a.add(n, v)
        b.add(n, w)
        key = n.upper()
        old = nd[key]
        if old == a[key] and type(old) is type(a[key]):
            nd[key] = b[key]
        elif old == b[key] and type(old) is type(b[key]):
            nd[key] = a[key]
        else:
            return None
        return d, "value replaced by another of the same class (%s: %s)" % (key, type(old).__name__)
    if op == 0 and len(node.keys()):
        k = rng.choice(list(node.keys()))
        v = node[k]
        if isinstance(v, list):
            v.pop()
            if len(v) == 1:
                node[k] = v[0]
        else:
            del node[k]
        return d, "value removed"
    if op == 1:
        node.add("x-extra", "e")
        return d, "property added"
    if op == 2 and node.subcomponents:
        node.subcomponents.pop(rng.randrange(len(node.subcomponents)))
        return d, "subcomponent removed"
    if op == 3 and node.subcomponents:
        i = rng.randrange(len(node.subcomponents))
        node.subcomponents[i] = copy.deepcopy(node.subcomponents[rng.randrange(len(node.subcomponents))])
        return d, "subcomponent replaced by a copy of a sibling (multiset changed unless identical)"
    if op == 4 and "SUMMARY" in node and not isinstance(node["SUMMARY"], list):
        node["SUMMARY"] = type(node["SUMMARY"])(str(node["SUMMARY"]) + "!")
        return d, "value changed"
    return None


KEY_OF = {}      # value id -> the property name it stands under (values are only ever compared under the same name)


def ids_obs(c, table):
    """observation with every value's text slot replaced by a fresh id; table: id -> value object"""
    props = []
    for k in c.keys():
        e = c[k]
        vs = e if isinstance(e, list) else [e]
        row = []
        for v in vs:
            i = "v%d" % len(table)
            table[i] = v
            KEY_OF[i] = k
            row.append([type(v).__name__, [], i])
        props.append([k, 1 if isinstance(e, list) else 0, row])
    return [c.name or "", props, [ids_obs(s, table) for s in c.subcomponents], []]


def reparse_diff(a, b):
    """for two trees that serialise identically: the recorded causes for which a value of [a] is not == its counterpart
    in [b]; None if some difference has no recorded cause (or the shapes differ)"""
    from icalendar.prop import vRecur, vBinary
    causes = []
    if sorted(a.keys()) != sorted(b.keys()) or len(a.subcomponents) != len(b.subcomponents):
        return None
    for k in a.keys():
        va, vb = a[k], b[k]
        la, lb = (va if isinstance(va, list) else [va]), (vb if isinstance(vb, list) else [vb])
        if len(la) != len(lb):
            return None
        for x, y in zip(la, lb):
            if safe_eq(x, y) == 1 and safe_eq(y, x) == 1:
                continue
            same_text = getattr(x, "to_ical", lambda: 1)() == getattr(y, "to_ical", lambda: 2)()
            if isinstance(x, vRecur) and isinstance(y, vRecur) and same_text:
                causes.append("C20-F4")       # stored scalars / lower-case names against the parser's upper-case lists
            elif isinstance(x, vBinary) and not isinstance(y, vBinary) and same_text:
                causes.append("C20-F5")       # ATTACH;VALUE=BINARY is read back as a URI value
            elif ambiguous_other_zone(x, y) and same_text:
                causes.append("C20-F7")       # PEP 495: a time in a repeated interval never equals one in another zone object
            else:
                return None
    for sa, sb in zip(a.subcomponents, b.subcomponents):
        c = reparse_diff(sa, sb)
        if c is None:
            return None
        causes += c
    return causes


def ambiguous_other_zone(x, y):
    """two date-time values with the same wall clock in distinct zone objects, the wall clock being one the zone repeats
    (its UTC offset depends on fold)"""
    a, b = getattr(x, "dt", None), getattr(y, "dt", None)
    if not (isinstance(a, datetime) and isinstance(b, datetime)) or a.tzinfo is None or b.tzinfo is None:
        return False
    if a.tzinfo is b.tzinfo or a.replace(tzinfo=None) != b.replace(tzinfo=None):
        return False
    return a.replace(fold=0).utcoffset() != a.replace(fold=1).utcoffset()


def custom_pytz_zone(c):
    """some value of the tree carries a pytz zone object that pytz itself cannot look up by name (built from a VTIMEZONE)"""
    import pytz
    for comp in py_preorder(c):
        for k in comp.keys():
            e = comp[k]
            for v in (e if isinstance(e, list) else [e]):
                for dt in [getattr(v, "dt", None)] + list(getattr(v, "dts", []) or []):
                    dt = getattr(dt, "dt", dt)
                    tz = getattr(dt, "tzinfo", None)
                    zone = getattr(tz, "zone", None)
                    if zone is not None:
                        try:
                            pytz.timezone(zone)
                        except Exception:  # noqa: BLE001
                            return True
    return False


def safe_eq(a, b):
    try:
        return 1 if a == b else 0
    except Exception as e:  # noqa: BLE001
        return ["err", type(e).__name__]


def run(ctx, res):
    import icalendar
    M = ctx.model
    known = ctx.known
    rng = common.rng_for(ctx.seed, "c20")
    ntrees = 1500 if ctx.big else 200 * (1 + 3 * ctx.level)
    res.rule = ("API-built trees (10 component kinds incl. unknown and lower-case names, depth <= %d, 21 property/value "
                "shapes incl. repeated and unknown names); per tree: walk(), walk(name) for every name in 3 spellings, "
                "walk(select), accessors; equality against itself, deep copy, pickle copy, serialise-and-parse copy, "
                "rebuilt copies (property order / subcomponent order / both / lower-case names), single perturbations, a "
                "component of another kind, non-components; non-trivial = tree with >= 2 components; distinct by "
                "serialisation" % (6 if ctx.big else 5))
    reqs, post = [], []
    for i in range(ntrees):
        t = gen_tree(rng, 0, 6 if ctx.big else 5)
        pre = py_preorder(t)
        key = T.impl_ser(t) if True else i
        res.count(key, nontrivial=len(pre) >= 2)
        res.dist("size %s" % ("1" if len(pre) == 1 else "2-5" if len(pre) <= 5 else "6-15" if len(pre) <= 15 else ">15"))
        o = T.obs_comp(t)
        # ---- traversal: direct oracle on the implementation
        w = t.walk()
        if [id(c) for c in w] != [id(c) for c in pre]:
            res.fail("C20 walk(): not every nested component exactly once in pre-order", key, observed=[c.name for c in w],
                     expected=[c.name for c in pre])
        names = sorted({c.name for c in pre if c.name})
        for n in names:
            for q in (n, n.lower(), n.title()):
                got = t.walk(q)
                want = [c for c in pre if c.name == q.upper()]
                if [id(c) for c in got] != [id(c) for c in want]:
                    res.fail("C20 walk(name): wrong components for a case-variant of the name", [key, q],
                             observed=[c.name for c in got], expected=[c.name for c in want])
        sel = lambda c: "SUMMARY" in c  # noqa: E731
        if [id(c) for c in t.walk(select=sel)] != [id(c) for c in pre if sel(c)]:
            res.fail("C20 walk(select): wrong components", key)
        if isinstance(t, icalendar.Calendar):
            for acc, nm in (("events", "VEVENT"), ("todos", "VTODO"), ("timezones", "VTIMEZONE")):
                if [id(c) for c in getattr(t, acc)] != [id(c) for c in pre if c.name == nm]:
                    res.fail("C20 accessor %s: not exactly the components of that kind" % acc, key)
        reqs.append(("tree_walk", [o, []]))
        post.append(("walk", key, [T.obs_comp(c) for c in w]))
        if names:
            q = rng.choice(names)
            q = rng.choice([q, q.lower(), q.title()])
            reqs.append(("tree_walk", [o, [q]]))
            post.append(("walk-name", [key, q], [T.obs_comp(c) for c in t.walk(q)]))
        reqs.append(("tree_paths", o))
        post.append(("paths-count", key, len(pre)))
        # ---- equality
        variants = [("self", t, True), ("deepcopy", copy.deepcopy(t), True)]
        try:
            variants.append(("pickle", pickle.loads(pickle.dumps(t)), True))
        except Exception as e:  # noqa: BLE001
            res.fail("C20 pickle of a component tree raised " + type(e).__name__, key)
        for mode in ("props", "subs", "both", "case"):
            variants.append(("rebuilt:" + mode, rebuild(t, rng, mode), True))
        for _ in range(2):
            p = perturb(t, rng)
            if p:
                variants.append(("perturbed: " + p[1], p[0], None))
        other_kind = new_comp("Todo" if t.name != "VTODO" else "Event")
        for k in t.keys():
            other_kind[k] = copy.deepcopy(t[k])
        other_kind.subcomponents = [copy.deepcopy(s) for s in t.subcomponents]
        variants.append(("other kind", other_kind, False))
        for what, u, expect in variants:
            ab, ba = safe_eq(t, u), safe_eq(u, t)
            ser_same = T.impl_ser(t) == T.impl_ser(u)
            # model
            table = {}
            KEY_OF.clear()
            oa, ob = ids_obs(t, table), ids_obs(u, table)
            ia = [i for i in table if table[i] is not None]
            pairs = []
            ida = [v[2] for c in _all(oa) for _, _, vs in c[1] for v in vs]
            idb = [v[2] for c in _all(ob) for _, _, vs in c[1] for v in vs]
            for x in ida:
                for y in idb:
                    if KEY_OF[x] != KEY_OF[y]:
                        continue            # the mapping comparison pairs values name by name
                    r = safe_eq(table[x], table[y])
                    pairs.append([x, y, r if isinstance(r, int) else 0])
                    r = safe_eq(table[y], table[x])
                    pairs.append([y, x, r if isinstance(r, int) else 0])
            reqs.append(("tree_eq", [oa, ob, pairs]))
            post.append(("eq", [key, what], ab))
            reqs.append(("tree_eq", [ob, oa, pairs]))
            post.append(("eq", [key, what, "reversed"], ba))
            res.evaluations += 1
            # direct oracle
            if isinstance(ab, list) or isinstance(ba, list):
                res.fail("C20 ==: comparing two components raised", [key, what], observed=[ab, ba])
                continue
            if ab != ba:
                if "C20-F1" in known:
                    res.known("C20-F1", {"what": what, "a==b": ab, "b==a": ba}, known["C20-F1"]["summary"])
                else:
                    res.fail("C20 ==: not symmetric", [key, what], observed=[ab, ba])
            if expect is True and not (ab and ba):
                res.fail("C20 ==: a copy that differs only in order/case/identity is not equal", [key, what], observed=[ab, ba])
            if expect is True and what in ("deepcopy", "pickle") and not ser_same:
                res.fail("C20: copy does not serialise identically", [key, what])
            if what == "other kind" and (ab or ba):
                if "C20-F3" in known:
                    res.known("C20-F3", {"a": t.name, "b": u.name}, known["C20-F3"]["summary"])
                else:
                    res.fail("C20 ==: components of different kinds compare equal", [key, what])
            if expect is None and not ser_same and ab and ba:
                # the containment test can be satisfied in both directions although the multisets differ ([x, y, y] vs
                # [x, x, y]; with the kind ignored also [A{p}, B{}] vs [A{}... ]): same root as C20-F1 / C20-F3, possible only
                # where some component has two or more subcomponents; the model reproduces it (correspondence below)
                if "C20-F1" in known and any(len(c.subcomponents) >= 2 for c in pre):
                    res.known("C20-F1", {"what": what, "equal both ways although the multisets of subcomponents differ": True}, known["C20-F1"]["summary"])
                else:
                    res.fail("C20 ==: trees that serialise differently after a single perturbation compare equal", [key, what])
        # non-components
        for other in (None, 5, "x", {}, []):
            r = safe_eq(t, other)
            if r == 0:
                continue
            if isinstance(r, list) and "C20-F2" in known:
                res.known("C20-F2", {"other": repr(other), "raised": r[1]}, known["C20-F2"]["summary"])
            else:
                res.fail("C20 ==: comparison with a non-component is not False", [key, repr(other)], observed=r)
        # serialise-and-parse copy
        s = T.impl_ser(t)
        if isinstance(s, str):
            try:
                back = type(t).from_ical(s)
                r1, r2 = safe_eq(t, back), safe_eq(back, t)
                if not (r1 == 1 and r2 == 1 and T.impl_ser(back) == s):
                    sb = T.impl_ser(back)
                    causes = reparse_diff(t, back) if sb in (s, upper_names(s)) else None
                    if sb != s and sb == upper_names(s):
                        # only the letter case of BEGIN/END names differs; that explains other bytes, never an unequal copy
                        causes = None if (not causes and not (r1 == 1 and r2 == 1)) else (causes or []) + ["C20-F8"]
                    if causes and all(c in known for c in causes):
                        for c in sorted(set(causes)):
                            res.known(c, {"tree": s[:200], "t==back": r1, "back==t": r2}, known[c]["summary"])
                    else:
                        res.fail("C20: serialise-and-parse copy is not equal to the original or serialises differently", key,
                                 observed=[r1, r2, T.impl_ser(back) == s, causes])
            except ValueError:
                pass
    # ---- copies of parsed calendars (values carry provider time zones, custom VTIMEZONEs, recurrence rules): deep copy,
    # pickle and serialise-and-parse must give an equal tree that serialises identically and assigns the same UTC offsets
    from icalendar.timezone import tzp
    from . import c09 as C09
    fx = [(n, dta) for n, dta in T.fixtures()]
    if not ctx.big:
        fx = [x for i, x in enumerate(fx) if i % 3 == ctx.seed % 3]
    for provider in ("zoneinfo", "pytz"):
        tzp.use(provider)
        try:
            for name, data in fx:
                try:
                    comps = icalendar.Calendar.from_ical(data, multiple=True)
                except Exception:  # noqa: BLE001
                    continue
                for c in comps:
                    ser = T.impl_ser(c)
                    if not isinstance(ser, str):
                        continue
                    res.evaluations += 1
                    res.dist("parsed corpus copies (%s)" % provider)
                    base = C09.obs_with_offsets([c])
                    for what, mk in (("deepcopy", copy.deepcopy), ("pickle", lambda x: pickle.loads(pickle.dumps(x)))):
                        try:
                            u = mk(c)
                        except Exception as e:  # noqa: BLE001
                            if (type(e).__name__ == "UnknownTimeZoneError" and provider == "pytz" and "C20-F6" in known
                                    and custom_pytz_zone(c)):
                                res.known("C20-F6", {"calendar": name, "copy": what}, known["C20-F6"]["summary"])
                            else:
                                res.fail("C20 %s of a parsed component raised %s" % (what, type(e).__name__), [name, provider])
                            continue
                        r1, r2 = safe_eq(c, u), safe_eq(u, c)
                        same_ser = T.impl_ser(u) == ser
                        same_obs = C09.obs_with_offsets([u]) == base
                        causes = reparse_diff(c, u) if (same_ser and same_obs and not (r1 == 1 and r2 == 1)) else None
                        if causes and all(x == "C20-F7" and x in known for x in causes):
                            res.known("C20-F7", {"calendar": name, "copy": what, "provider": provider}, known["C20-F7"]["summary"])
                        elif not (r1 == 1 and r2 == 1 and same_ser and same_obs):
                            res.fail("C20: %s of a parsed component is not equal to the original, serialises differently or "
                                     "assigns other UTC offsets" % what, [name, provider], observed=[r1, r2, same_ser, same_obs])
        finally:
            tzp.use_default()
    # ---- two trees whose custom zones carry the same TZID but other rules (calendars from two sources): each copy keeps the
    #      offsets of its own original, also while copies of the other tree are alive
    VTZ = ("BEGIN:VTIMEZONE\r\nTZID:%s\r\nBEGIN:STANDARD\r\nDTSTART:19701025T030000\r\nRRULE:FREQ=YEARLY;BYDAY=-1SU;BYMONTH=10\r\n"
           "TZOFFSETFROM:%s\r\nTZOFFSETTO:%s\r\nTZNAME:STD\r\nEND:STANDARD\r\nBEGIN:DAYLIGHT\r\nDTSTART:19700329T020000\r\n"
           "RRULE:FREQ=YEARLY;BYDAY=-1SU;BYMONTH=3\r\nTZOFFSETFROM:%s\r\nTZOFFSETTO:%s\r\nTZNAME:DST\r\nEND:DAYLIGHT\r\nEND:VTIMEZONE\r\n")
    for provider in ("zoneinfo",):
        tzp.use(provider)
        try:
            for tzid in ("Customized Time Zone", "Verif-Shared/C20"):
                trees = []
                for std, dst in (("+0100", "+0200"), ("-0500", "-0400"), ("+0530", "+0630")):
                    zone = icalendar.Timezone.from_ical(VTZ % (tzid, dst, std, std, dst)).to_tz(lookup_tzid=False)
                    cal = icalendar.Calendar()
                    ev = icalendar.Event()
                    ev.add("uid", "u" + std)
                    ev.add("dtstart", datetime(2024, 7, 1, 9, 0, tzinfo=zone))
                    ev.add("dtend", datetime(2024, 12, 1, 9, 0, tzinfo=zone))
                    ev.add("rdate", [datetime(2024, 8, 1, 9, 0, tzinfo=zone), datetime(2024, 11, 20, 9, 0, tzinfo=zone)])
                    cal.add_component(ev)
                    trees.append(cal)
                kept = []
                for what, mk in (("deepcopy", copy.deepcopy), ("pickle", lambda x: pickle.loads(pickle.dumps(x)))):
                    for i, c in enumerate(trees):
                        res.evaluations += 1
                        try:
                            u = mk(c)
                        except Exception as e:  # noqa: BLE001
                            res.fail("C20 %s of a tree with a custom zone raised %s" % (what, type(e).__name__), [tzid, i])
                            continue
                        kept.append(u)
                        r1, r2 = safe_eq(c, u), safe_eq(u, c)
                        same_obs = C09.obs_with_offsets([u]) == C09.obs_with_offsets([c])
                        if not (r1 == 1 and r2 == 1 and same_obs and T.impl_ser(u) == T.impl_ser(c)):
                            res.fail("C20: %s of a tree whose custom zone shares its TZID with another tree's zone is not equal "
                                     "to its original or assigns other UTC offsets" % what, [tzid, i],
                                     observed=[r1, r2, same_obs, C09.obs_with_offsets([u])[0][2]],
                                     expected=[1, 1, True, C09.obs_with_offsets([c])[0][2]])
        finally:
            tzp.use_default()
    outs = M.batch(reqs) if M else None
    if outs is not None:
        for (kind, inp, impl), m in zip(post, outs):
            if kind == "paths-count":
                res.corr("number of components (paths)", inp, impl, len(m) if isinstance(m, list) else m)
            elif kind == "eq":
                res.corr("Component.__eq__", inp, impl, m)
            else:
                res.corr("Component.walk", inp, impl, m)
    t = gen_tree(common.rng_for(1, "sample"), 0, 3)
    res.sample({"tree": T.impl_ser(t)[:400] if isinstance(T.impl_ser(t), str) else None, "walk": [c.name for c in t.walk()]})


def _all(o):
    yield o
    for s in o[2]:
        yield from _all(s)


def replay(ctx, data):
    print(data.get("input"))
