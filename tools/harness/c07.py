"""C07 -- TEXT escaping.  Correspondence of the chain models with parser.escape_char & co. and
with the three property paths (codec alone, as a property through to_ical/from_ical, as an
item of CATEGORIES); direct property oracle; known-finding classification by the extracted
guards."""
import itertools

from . import common

FINGERPRINTS = ["parser.escape_char", "parser.unescape_char", "parser.escape_string", "parser.unescape_string",
                "parser.Contentline.parts", "parser.Contentline.from_parts", "prop.vText.to_ical",
                "prop.vText.from_ical", "prop.vCategory.to_ical", "prop.vCategory.from_ical",
                "cal.Component.from_ical"]
ASSUMPTIONS = [
    "strings are sequences of Unicode scalar values",
    "norm = (backslash-N -> LF, then CRLF -> LF), the order escape_char itself applies",
    "str.replace modelled by the streaming stage machine Lib/Chain.v (differentially tested here on every case)",
]
TRUSTED = ["the unverified explorer only proposes certificates; Lib/Chain.check + Proofs/ChainProofs.bisim_sound decide"]

ALPHA14 = ["\\", "n", "N", ";", ",", ":", '"', "%", "2", "C", "\r", "\n", " ", "a"]
ALPHA10 = ["\\", "n", "N", ";", ",", "%", "2", "C", "\r", "\n"]


def norm_py(s):
    return s.replace("\\N", "\n").replace("\r\n", "\n")


def gen_strings(ctx):
    rng = common.rng_for(ctx.seed, "c07")
    out = []
    maxlen = 4 if ctx.big else 3
    for n in range(0, maxlen + 1):
        for t in itertools.product(ALPHA14, repeat=n):
            out.append(("exh14", "".join(t)))
    if ctx.big:
        for n in (5, 6):
            for t in itertools.product(ALPHA10, repeat=n):
                if rng.random() < (1.0 if n == 5 else 0.25):
                    out.append(("exh10", "".join(t)))
    else:
        for _ in range(4000 * (1 + 4 * ctx.level)):
            out.append(("rand14-4..8", "".join(rng.choice(ALPHA14) for _ in range(rng.randrange(4, 9)))))
    uni = ALPHA14 + ["é", "€", "\U0001F600", "\t", "3", "A", "B", "5", "=", "'", "\x00", "\x7f", "\u2028", "x" * 80, "\ufeff", "\x85"]
    for _ in range(300 if not ctx.big else 3000):
        # a special code point at every kind of alignment with the 75-octet fold boundary
        out.append(("fold-align", "é" * rng.randrange(0, 3) + "x" * rng.randrange(50, 80) + rng.choice(["\ufeff", "\u2028", "€", "\U0001F600"]) + "yz"))
    for _ in range(20000 if ctx.big else 1500 * (1 + 4 * ctx.level)):
        out.append(("random-long", "".join(rng.choice(uni) for _ in range(rng.randrange(0, 60)))))
    # every pair "ASCII punctuation, then a punctuation mark or a letter/digit that escape syntaxes use" (backslash, caret,
    # percent, ampersand ... conventions all have this shape), alone and embedded: a text codec must treat them all as data
    punct = [chr(c) for c in range(33, 127) if not chr(c).isalnum()]
    second = punct + list("nNtrTR0259CcAa ") + ["\n"]
    for a in punct:
        for b in second:
            out.append(("punct-pair", a + b))
            if rng.random() < 0.15:
                out.append(("punct-pair", "x" + a + b + "y" + a + a + b))
    # corpus: finding witnesses first in the evidence
    corpus = ["\\n", "\\,", "\\;", "\\\\", "%2C", "%3A", "%3B", "%5C", "a\\nb", "\\N", "\r\n", "\\\r\n", "a,b", "x\\",
              "\ufeffabc", "\ufeff", "a\ufeffb"]
    return [("corpus", s) for s in corpus] + out


def well_escaped(t):
    """no raw LF; every ';' and ',' preceded by an escaping backslash"""
    esc = False
    for ch in t:
        if esc:
            esc = False
        elif ch == "\\":
            esc = True
        elif ch in ";,\n":
            return False
    return True


def run(ctx, res):
    import icalendar
    from icalendar.parser import escape_char, unescape_char, escape_string, unescape_string
    from icalendar.prop import vText, vCategory
    cases = gen_strings(ctx)
    res.rule = ("TEXT strings: exhaustive over the 14-symbol critical alphabet up to length "
                f"{4 if ctx.big else 3}" + (", lengths 5-6 over 10 symbols (6 sampled 1/4)" if ctx.big else ", random length 4-8")
                + ", random long Unicode strings; each string goes through 3 paths (codec, property line, "
                  "CATEGORIES item); non-trivial = contains at least one of \\ ; , CR LF %; distinct by content")
    M = ctx.model

    def via_line(s):
        ev = icalendar.Event()
        ev.add("summary", s)
        back = icalendar.Event.from_ical(ev.to_ical())
        return str(back["summary"])

    def via_categories(items):
        ev = icalendar.Event()
        ev.add("categories", items)
        back = icalendar.Event.from_ical(ev.to_ical())
        return [str(c) for c in back["categories"].cats]

    impl = []
    for kind, s in cases:
        res.dist(kind)
        nontriv = any(c in s for c in "\\;,\r\n%")
        res.count(s, nontrivial=nontriv)
        row = {}
        row["esc"] = escape_char(s)
        row["unesc"] = unescape_char(s)
        row["escs"] = escape_string(s)
        row["unescs"] = unescape_string(s)
        # the encoding keyword: the same text written in another encoding first (it is the escaped text in that encoding) does
        # not change what the default route writes afterwards
        for other in ("latin-1", "utf-16-le"):
            try:
                want_o = row["esc"].encode(other)
            except UnicodeError:
                continue
            got_o = vText(s, encoding=other).to_ical()
            if got_o != want_o:
                res.fail("C07: vText(s, encoding=%r).to_ical() is not the escaped text in that encoding" % other, s,
                         observed=repr(got_o), expected=repr(want_o))
        enc = vText(s).to_ical()
        if enc != row["esc"].encode("utf-8"):
            res.fail("C07: vText(s).to_ical() is not the escaped text in UTF-8 (after the same text was written in another "
                     "encoding)", s, observed=repr(enc), expected=repr(row["esc"].encode("utf-8")))
        row["direct"] = str(vText.from_ical(enc.decode("utf-8", "replace")))
        row["direct_bytes"] = str(vText.from_ical(enc))
        try:
            row["line"] = via_line(s)
        except Exception as e:  # noqa: BLE001
            row["line"] = ["err", common.exc_class(e)]
        try:
            row["cat1"] = via_categories([s])
            row["cat2"] = via_categories(["x", s, "y"])
        except Exception as e:  # noqa: BLE001
            row["cat1"] = row["cat2"] = ["err", common.exc_class(e)]
        impl.append(row)
        if not well_escaped(row["esc"]):
            res.fail("C07 well-escaped: escape_char output has a raw LF or an unescaped ; or ,", s, observed=row["esc"])
        if row["direct_bytes"] != row["direct"]:
            res.fail("C07: bytes and str decoding of vText differ", s, observed=row["direct_bytes"], expected=row["direct"])

    reqs = []
    for kind, s in cases:
        reqs += [("escape_char", s), ("unescape_char", s), ("escape_string", s), ("unescape_string", s),
                 ("text_via_line", s), ("categories_via_line", [s]), ("categories_via_line", ["x", s, "y"]),
                 ("direct_safe", s), ("line_safe", s), ("norm", s), ("cat_items_ok", [s]), ("cat_items_ok", ["x", s, "y"])]
    outs = M.batch(reqs) if M else None
    known = ctx.known
    for i, ((kind, s), row) in enumerate(zip(cases, impl)):
        want = norm_py(s)
        if outs is not None:
            m_esc, m_unesc, m_escs, m_unescs, m_line, m_cat1, m_cat2, g_direct, g_line, m_norm, g_cat1, g_cat2 = outs[12 * i:12 * i + 12]
            res.corr("escape_char", s, row["esc"], m_esc)
            res.corr("unescape_char", s, row["unesc"], m_unesc)
            res.corr("escape_string", s, row["escs"], m_escs)
            res.corr("unescape_string", s, row["unescs"], m_unescs)
            res.corr("norm", s, want, m_norm)
            res.corr("property line path", s, row["line"], m_line)
            res.corr("categories path [s]", s, row["cat1"], m_cat1)
            res.corr("categories path [x,s,y]", s, row["cat2"], m_cat2)
        else:
            g_direct = int("\\n" not in s)
            g_line = int(not any(f in s for f in ("\\n", "\\\\", "\\,", "\\;", "%2C", "%3A", "%3B", "%5C")))
            m_line = m_cat1 = m_cat2 = None
            g_cat1 = g_cat2 = None
        # the property itself on the implementation
        checks = [("direct", row["direct"], want, g_direct, "C07-F1", None),
                  ("line", row["line"], want, g_line, "C07-F2", m_line)]
        comma_free = "," not in s
        g_list1 = g_line and comma_free
        g_list2 = g_line and comma_free and not s.endswith("\\")
        if g_cat1 is not None:
            # the guard of theorem C07_categories, evaluated by the extracted model (the Python lines above
            # are only the fallback without a model); the two must agree
            if bool(g_cat1) != bool(g_list1) or bool(g_cat2) != bool(g_list2):
                res.fail("C07 harness: the extracted guard cat_items_ok and its Python reading disagree", s,
                         observed=[g_cat1, g_cat2], expected=[int(bool(g_list1)), int(bool(g_list2))])
            g_list1, g_list2 = g_cat1, g_cat2
        checks.append(("cat1", row["cat1"], [want], g_list1, "C07-F3", m_cat1))
        checks.append(("cat2", row["cat2"], ["x", want, "y"], g_list2, "C07-F3", m_cat2))
        for path, got, exp, guard, fid, mval in checks:
            if got == exp:
                continue
            inside_guard = bool(guard)
            agrees_with_model = (mval is None and outs is None) or (path == "direct") or (got == mval)
            if (not inside_guard) and fid in known and agrees_with_model:
                res.known(fid, {"path": path, "s": s, "got": got, "want": exp}, known[fid]["summary"])
            else:
                res.fail(f"C07 {path}: value read back differs from norm(s)"
                         + ("" if inside_guard else " (outside the guard but not as the recorded finding predicts)"),
                         s, observed=got, expected=exp)
    if outs is not None:
        # direct path model = unescape_char(escape_char s): needs a second batch
        outs2 = M.batch([("unescape_char", row["esc"]) for row in impl])
        for (kind, s), row, m in zip(cases, impl, outs2):
            res.corr("vText codec path", s, row["direct"], m)
        # the explorer's verdicts (certificate candidates / counterexample words)
        ex = M.call("c07_explore", 0)
        res.extra["explorer"] = ex
        res.notes.append("explorer: direct %s, line %s; without guards the counterexample words are %r and %r"
                         % (ex[0], ex[1], ex[2][1:], ex[3][1:]))
    # ---- lists of several items over the critical alphabet (theorem C07_categories: any length, any number)
    rng = common.rng_for(ctx.seed, "c07-lists")
    alpha = ["\\", "n", "N", ";", ",", ":", '"', "%", "2", "C", "\r", "\n", " ", "a", "\u00e9", "\U0001F600"]
    lists = []
    for _ in range(4000 if ctx.big else 300 * (1 + ctx.level)):
        k = rng.choice([1, 2, 2, 3, 4, 6])
        no_comma = rng.random() < 0.7
        items = []
        for _i in range(k):
            a = [c for c in alpha if not (no_comma and c == ",")]
            items.append("".join(rng.choice(a) for _j in range(rng.choice([0, 1, 1, 2, 3, 5]))))
        lists.append(items)
    got_lists = []
    for items in lists:
        try:
            got_lists.append(via_categories(items))
        except Exception as e:  # noqa: BLE001
            got_lists.append(["err", common.exc_class(e)])
    if M:
        lreqs = []
        for items in lists:
            lreqs += [("categories_via_line", items), ("cat_items_ok", items)]
        louts = M.batch(lreqs)
        n_in = 0
        for i, (items, got) in enumerate(zip(lists, got_lists)):
            mval, guard = louts[2 * i], louts[2 * i + 1]
            res.count(("list", tuple(items)), nontrivial=len(items) > 1)
            res.corr("categories path [list]", items, got, mval)
            want = [norm_py(x) for x in items]
            n_in += bool(guard)
            if got == want:
                continue
            if not guard and "C07-F3" in known and got == mval:
                res.known("C07-F3", {"path": "list", "items": items, "got": got, "want": want}, known["C07-F3"]["summary"])
            else:
                res.fail("C07 categories: items read back differ from the normalised items"
                         + (" (inside the guard of C07_categories)" if guard else " (outside the guard, not as the model predicts)"),
                         items, observed=got, expected=want)
        res.dist("lists inside cat_items_ok", n_in)
        res.dist("lists outside cat_items_ok", len(lists) - n_in)
    # category lists with repeated entries (order and multiplicity must survive)
    for items in (["work", "errand", "family", "work", "home"], ["a", "a"], ["b", "a", "b", "c", "a"], ["x", "", "x"]):
        res.evaluations += 1
        got = via_categories(items)
        if got != items:
            res.fail("C07 categories: a list with repeated items is not read back as written", items, observed=got, expected=items)
    res.sample({"s": "a;b,c\\Nd\r\ne", "encoded": escape_char("a;b,c\\Nd\r\ne"), "read back through SUMMARY": via_line("a;b,c\\Nd\r\ne")})
    res.sample({"s": cases[len(cases) // 2][1], "row": impl[len(cases) // 2]})


def search_counterexample(ctx):
    """step 5(a): ask the model-side explorer for the word on which the chains differ."""
    if not ctx.model:
        return None
    return ctx.model.call("c07_explore", 0)


def replay(ctx, data):
    import icalendar
    from icalendar.prop import vText
    s = data["input"]
    print("input:", repr(s))
    print("impl direct:", repr(str(vText.from_ical(vText(s).to_ical()))))
    ev = icalendar.Event()
    ev.add("summary", s)
    print("impl line  :", repr(str(icalendar.Event.from_ical(ev.to_ical())["summary"])))
    print("norm(s)    :", repr(norm_py(s)))
    if ctx.model:
        print("model line :", repr(ctx.model.call("text_via_line", s)))
