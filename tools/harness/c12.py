"""C12 -- VTIMEZONE interpreted per the RFC 5545 onset rule, same in both providers.

Correspondence of Model/TzRules.v (get_transitions, pytz fromutc) and Model/TzCache.v (the
process-wide cache) with the implementation; direct property oracle (rfc_offset of the model =
the specification) on Timezone.from_ical(...).to_tz(tzp, lookup_tzid=False) under both providers.
The onsets of an observance of the common rule family (FREQ=YEARLY;BYMONTH=m;BYDAY=<n><weekday> with UNTIL, COUNT
or neither) are computed by the model itself (Model/TzOnsets.v, tz_yearly_onsets) and compared with
Timezone._extract_offsets and with the python calendar arithmetic below (three-way); every other RRULE / RDATE
expansion is taken from the implementation (Timezone._extract_offsets -> dateutil.rrule) and supplied to the
model as data.  The zoneinfo provider (dateutil.tz.tzical) has no model:
agreement with the RFC rule / with pytz is differential testing only."""
import datetime
import json
import os
import subprocess
import sys

from . import common

FINGERPRINTS = ["cal.Timezone._extract_offsets", "cal.Timezone._make_unique_tzname", "cal.Timezone.get_transitions",
                "cal.Timezone.to_tz", "timezone.tzp.TZP.cache_timezone_component", "timezone.tzp.TZP.timezone",
                "timezone.tzp.TZP.clean_timezone_id", "timezone.pytz.PYTZ.create_timezone",
                "timezone.zoneinfo.ZONEINFO.create_timezone", "timezone.zoneinfo.ZONEINFO._create_timezone",
                "cal.Component.from_ical", "prop.vDatetime.from_ical"]
GEN = []
ASSUMPTIONS = [
    "times are whole seconds; outside the yearly nth-weekday family (whose onsets the model computes, theorems "
    "C12_yearly_onsets_*) an observance's onsets are DTSTART plus the RRULE/RDATE expansion computed by the "
    "implementation (dateutil.rrule, cut at 2038-12-31 by fix_rrule_until) and handed to the model as data",
    "pytz.tzinfo.DstTzInfo.fromutc is modelled as bisect_right-1 over the transition list (read from pytz 's source); "
    "pytz's localize()/normalize() are not used by the check",
    "zoneinfo provider = dateutil.tz.tzical: no model; compared against the RFC rule and against pytz only by testing",
    "provider oracle of the cache model = (knows_timezone_id, timezone) tabulated on the ids used by the scenario",
]
TRUSTED = ["python re-statement of nothing: the specification side of the oracle is the extracted rfc_offset"]

EPOCH = datetime.datetime(1970, 1, 1)
UTC = datetime.timezone.utc
DAYS = ["MO", "TU", "WE", "TH", "FR", "SA", "SU"]
LIMIT = int((datetime.datetime(2037, 1, 1) - EPOCH).total_seconds())
LIMIT_LOCAL = int((datetime.datetime(2038, 12, 1) - EPOCH).total_seconds())   # onsets compared up to here (horizon 2038-12-31 minus a month)


def secs(dt):
    return int((dt - EPOCH).total_seconds())


def fmt_off(s):
    sign = "+" if s >= 0 else "-"
    s = abs(s)
    h, rem = divmod(s, 3600)
    m, sec = divmod(rem, 60)
    return f"{sign}{h:02}{m:02}" + (f"{sec:02}" if sec else "")


# ---------------------------------------------------------------------------- generators
def vtz_text(tzid, observances):
    """observances: list of dict(kind, dtstart, frm, to, name, rrule, rdates(list of lists))"""
    lines = ["BEGIN:VTIMEZONE", f"TZID:{tzid}"]
    for o in observances:
        lines.append(f"BEGIN:{o['kind']}")
        lines.append("DTSTART:" + o["dtstart"].strftime("%Y%m%dT%H%M%S"))
        lines.append("TZOFFSETFROM:" + fmt_off(o["frm"]))
        lines.append("TZOFFSETTO:" + fmt_off(o["to"]))
        if o.get("name") is not None:
            lines.append("TZNAME:" + o["name"])
        if o.get("rrule"):
            lines.append("RRULE:" + o["rrule"])
        for rd in o.get("rdates", []):
            lines.append("RDATE:" + ",".join(x.strftime("%Y%m%dT%H%M%S") for x in rd))
        lines.append(f"END:{o['kind']}")
    lines.append("END:VTIMEZONE")
    return "\r\n".join(lines) + "\r\n"


def D(y, mo, d, h=0, mi=0):
    return datetime.datetime(y, mo, d, h, mi)


def corpus():
    out = []
    out.append(("crossing", vtz_text("X-CROSS", [
        dict(kind="STANDARD", dtstart=D(2020, 1, 2, 1), frm=7200, to=18000, name="S"),
        dict(kind="DAYLIGHT", dtstart=D(2020, 1, 2, 0, 30), frm=-3600, to=25200, name="D")])))
    out.append(("dst-only", vtz_text("X-DONLY", [
        dict(kind="DAYLIGHT", dtstart=D(2020, 6, 1), frm=3600, to=7200, name="D")])))
    out.append(("same-name", vtz_text("X-SAME3", [
        dict(kind="STANDARD", dtstart=D(2020, 1, 1), frm=7200, to=3600, name="A"),
        dict(kind="DAYLIGHT", dtstart=D(2020, 6, 1), frm=3600, to=7200, name="A"),
        dict(kind="STANDARD", dtstart=D(2020, 11, 1), frm=7200, to=0, name="B")])))
    out.append(("same-name", vtz_text("X-SAME2", [
        dict(kind="STANDARD", dtstart=D(2020, 1, 1), frm=7200, to=3600, name="A"),
        dict(kind="DAYLIGHT", dtstart=D(2020, 6, 1), frm=3600, to=7200, name="A")])))
    out.append(("same-name-rev", vtz_text("X-SAME2R", [
        dict(kind="DAYLIGHT", dtstart=D(2020, 6, 1), frm=3600, to=7200, name="A"),
        dict(kind="STANDARD", dtstart=D(2020, 1, 1), frm=7200, to=3600, name="A")])))
    out.append(("no-name", vtz_text("X-NONAME", [
        dict(kind="STANDARD", dtstart=D(2020, 1, 1), frm=7200, to=3600),
        dict(kind="STANDARD", dtstart=D(2020, 1, 1), frm=7200, to=3600, rdates=[[D(2021, 1, 1)]]),
        dict(kind="DAYLIGHT", dtstart=D(2020, 6, 1), frm=3600, to=7200)])))
    out.append(("europe", vtz_text("X-EU", [
        dict(kind="DAYLIGHT", dtstart=D(1981, 3, 29, 2), frm=3600, to=7200, name="CEST",
             rrule="FREQ=YEARLY;BYMONTH=3;BYDAY=-1SU"),
        dict(kind="STANDARD", dtstart=D(1996, 10, 27, 3), frm=7200, to=3600, name="CET",
             rrule="FREQ=YEARLY;BYMONTH=10;BYDAY=-1SU")])))
    # siblings of the zone above: the same rules and the same UTC onset instants, other offsets and wall clocks (two
    # observances whose DTSTART - TZOFFSETFROM coincide are still two observances)
    out.append(("europe-east", vtz_text("X-EU-EAST", [
        dict(kind="DAYLIGHT", dtstart=D(1981, 3, 29, 3), frm=7200, to=10800, name="EEST",
             rrule="FREQ=YEARLY;BYMONTH=3;BYDAY=-1SU"),
        dict(kind="STANDARD", dtstart=D(1996, 10, 27, 4), frm=10800, to=7200, name="EET",
             rrule="FREQ=YEARLY;BYMONTH=10;BYDAY=-1SU")])))
    out.append(("europe-west", vtz_text("X-EU-WEST", [
        dict(kind="DAYLIGHT", dtstart=D(1981, 3, 29, 1), frm=0, to=3600, name="WEST",
             rrule="FREQ=YEARLY;BYMONTH=3;BYDAY=-1SU"),
        dict(kind="STANDARD", dtstart=D(1996, 10, 27, 2), frm=3600, to=0, name="WET",
             rrule="FREQ=YEARLY;BYMONTH=10;BYDAY=-1SU")])))
    out.append(("rdate-repeats-dtstart", vtz_text("X-RD", [
        dict(kind="STANDARD", dtstart=D(2000, 1, 1), frm=0, to=-18000, name="S",
             rdates=[[D(2000, 1, 1), D(2001, 1, 1)], [D(2001, 1, 1)]]),
        dict(kind="DAYLIGHT", dtstart=D(2000, 7, 1), frm=-18000, to=-14400, name="D", rdates=[[D(2001, 7, 1)]])])))
    out.append(("empty-rrule", vtz_text("X-EMPTY", [
        dict(kind="STANDARD", dtstart=D(2000, 1, 2), frm=0, to=3600, name="S",
             rrule="FREQ=YEARLY;BYMONTH=1;BYDAY=1SU;UNTIL=19990101T000000Z")])))
    out.append(("equal-local", vtz_text("X-EQL", [
        dict(kind="STANDARD", dtstart=D(2020, 1, 1), frm=7200, to=3600, name="S"),
        dict(kind="DAYLIGHT", dtstart=D(2020, 1, 1), frm=3600, to=7200, name="D")])))
    out.append(("seconds-offset", vtz_text("X-SEC", [
        dict(kind="STANDARD", dtstart=D(2020, 1, 1), frm=630, to=-1169, name="LMT")])))
    return out


def gen_obs(rng, kind, frm, to, name):
    import dateutil.rrule
    y = rng.randrange(1971, 2030) if rng.random() < 0.8 else rng.randrange(1921, 1970)     # some definitions start long before 1970
    mo = rng.randrange(1, 13)
    d = rng.randrange(1, 29)
    hh = rng.choice([0, 1, 2, 3, 23])
    mi = rng.choice([0, 0, 30])
    o = dict(kind=kind, dtstart=D(y, mo, d, hh, mi), frm=frm, to=to, name=name)
    mode = rng.choice(["single", "rrule", "rrule_until", "rrule_count", "rdate"])
    o["mode"] = mode
    if mode.startswith("rrule"):
        n = rng.choice([1, 2, 3, 4, -1, -2])
        wd = rng.randrange(7)
        r = dateutil.rrule.rrule(dateutil.rrule.YEARLY, dtstart=D(y, 1, 1, hh, mi), bymonth=mo,
                                 byweekday=dateutil.rrule.weekdays[wd](n), count=1)
        o["dtstart"] = list(r)[0]
        rule = f"FREQ=YEARLY;BYMONTH={mo};BYDAY={n}{DAYS[wd]}"
        if mode == "rrule_until":
            uy = y + rng.randrange(1, 12)      # UNTIL before DTSTART is not a well-formed rule (RFC 5545 3.3.10): never generated
            if rng.random() < 0.5:
                rule += f";UNTIL={uy}{rng.randrange(1, 13):02}{rng.randrange(1, 29):02}T{rng.randrange(24):02}0000Z"
            else:
                # the usual way producers write it: UNTIL = the last onset as a UTC instant (or a little around it)
                last = list(dateutil.rrule.rrule(dateutil.rrule.YEARLY, dtstart=D(uy, 1, 1, hh, mi), bymonth=mo,
                                                 byweekday=dateutil.rrule.weekdays[wd](n), count=1))[0]
                u = last - datetime.timedelta(seconds=frm) + datetime.timedelta(seconds=rng.choice([0, 0, 3600, 3 * 3600, -1, 1]))
                rule += ";UNTIL=" + u.strftime("%Y%m%dT%H%M%SZ")
        elif mode == "rrule_count":
            rule += f";COUNT={rng.randrange(1, 9)}"
        o["rrule"] = rule
    if mode == "rdate":
        rd = [o["dtstart"] + datetime.timedelta(days=rng.randrange(0, 3000), hours=rng.choice([0, 0, 1]))
              for _ in range(rng.randrange(1, 5))]
        o["rdates"] = [rd] if rng.random() < 0.5 else [[x] for x in rd]
    return o


def big_jump(text):
    """some observance of the definition changes the offset by 24 h or more"""
    import re
    def secs(x):
        sign = -1 if x[0] == "-" else 1
        return sign * (int(x[1:3]) * 3600 + int(x[3:5]) * 60 + (int(x[5:7]) if len(x) >= 7 else 0))
    fr = re.findall(r"TZOFFSETFROM:([+-]\d{4,6})", text)
    to = re.findall(r"TZOFFSETTO:([+-]\d{4,6})", text)
    if any(abs(secs(b) - secs(a)) >= 86400 for a, b in zip(fr, to)):
        return True
    # ... or two observances whose TZOFFSETTO are 24 h or more apart (the change happens between their onsets)
    vals = [secs(x) for x in to]
    return bool(vals) and max(vals) - min(vals) >= 86400


def gen_vtz(rng, i):
    nobs = rng.randrange(1, 5)
    base = rng.randrange(-12 * 60, 13 * 60 + 1) * 60
    if rng.random() < 0.7:
        base = (base // 900) * 900
    std = base
    dst = min(base + rng.choice([1800, 3600, 7200]), 14 * 3600)
    kinds = []
    for k in range(nobs):
        kind = "STANDARD" if (k % 2 == 0) else "DAYLIGHT"
        if rng.random() < 0.15:
            kind = rng.choice(["STANDARD", "DAYLIGHT"])
        kinds.append(kind)
    named = rng.random() < 0.7
    obs = []
    for k, kind in enumerate(kinds):
        f, t = (dst, std) if kind == "STANDARD" else (std, dst)
        if rng.random() < 0.2:
            f = rng.randrange(-12 * 60, 14 * 60 + 1) * 60
            t = rng.randrange(-12 * 60, 14 * 60 + 1) * 60
        name = (("S" if kind == "STANDARD" else "D") + (str(k) if rng.random() < 0.5 else "")) if named else None
        obs.append(gen_obs(rng, kind, f, t, name))
    if rng.random() < 0.08 and len(obs) >= 2:
        # force a crossing: two single onsets close in local time whose TZOFFSETFROM differ by more than the gap
        a, b = obs[0], obs[1]
        for o in (a, b):
            o.pop("rrule", None)
            o.pop("rdates", None)
        b["dtstart"] = a["dtstart"] + datetime.timedelta(minutes=rng.choice([10, 30, 60]))
        b["frm"] = min(a["frm"] + rng.choice([3600, 7200, 10800]), 14 * 3600)
    return vtz_text(f"X-GEN-{i}", obs)


# ---------------------------------------------------------------------------- independent onset oracle
MISREAD = {}      # VTIMEZONE text -> UTC instants of onsets on which "UNTIL as local time" and "UNTIL as UTC" disagree


def _blocks(text):
    """per STANDARD/DAYLIGHT block of the text, in order: None (not readable / seconds offsets / RDATE+RRULE / several
    RRULEs) or (dtstart, tzoffsetfrom seconds, properties)"""
    import re
    out = []
    for blk in re.findall(r"BEGIN:(?:STANDARD|DAYLIGHT)\r?\n(.*?)END:(?:STANDARD|DAYLIGHT)", text, re.S):
        props = {}
        for ln in blk.replace("\r\n", "\n").split("\n"):
            if ":" in ln:
                k, v = ln.split(":", 1)
                props.setdefault(k.split(";")[0].upper(), []).append(v)
        try:
            ds = datetime.datetime.strptime(props["DTSTART"][0], "%Y%m%dT%H%M%S")
            fo = props["TZOFFSETFROM"][0]
            frm = (1 if fo[0] == "+" else -1) * (int(fo[1:3]) * 3600 + int(fo[3:5]) * 60 + (int(fo[5:7]) if len(fo) > 5 else 0))
        except Exception:  # noqa: BLE001
            out.append(None)
            continue
        if frm % 60 or "RDATE" in props and "RRULE" in props or len(props.get("RRULE", [])) > 1:
            out.append(None)
            continue
        out.append((ds, frm, props))
    return out


def _yearly_rule(props):
    """the RRULE of a block as (n, weekday 0=MO, month, parts) when it is FREQ=YEARLY;BYMONTH=m;BYDAY=<n><weekday>
    [;UNTIL=...Z | ;COUNT=k], else None"""
    import re
    parts = dict(p.split("=", 1) for p in props["RRULE"][0].split(";") if "=" in p)
    m = re.fullmatch(r"([+-]?\d)(SU|MO|TU|WE|TH|FR|SA)", parts.get("BYDAY", ""))
    if parts.get("FREQ") != "YEARLY" or not m or not parts.get("BYMONTH", "").isdigit() or \
            set(parts) - {"FREQ", "BYMONTH", "BYDAY", "UNTIL", "COUNT"}:
        return None
    if "UNTIL" in parts and not parts["UNTIL"].endswith("Z"):
        return None
    return int(m.group(1)), ["MO", "TU", "WE", "TH", "FR", "SA", "SU"].index(m.group(2)), int(parts["BYMONTH"]), parts


def expected_onsets(text):
    """per STANDARD/DAYLIGHT block of the text, in order: the local onsets RFC 5545 assigns to it (seconds since the epoch,
    wall clock), computed with calendar arithmetic only -- or None where the block is outside the yearly nth-weekday
    family.  UNTIL is a UTC instant compared with onset - TZOFFSETFROM; an unbounded rule ends with 2038 (the providers'
    documented horizon, fix_rrule_until)."""
    import calendar
    out = []
    for b in _blocks(text):
        if b is None:
            out.append(None)
            continue
        ds, frm, props = b
        if "RRULE" not in props:
            if "RDATE" in props:
                out.append(None)          # RDATE lists are read by the value parser: compared through the tree elsewhere
            else:
                out.append([secs(ds)])
            continue
        rule = _yearly_rule(props)
        if rule is None:
            out.append(None)
            continue
        n, wd, mo, parts = rule
        until = None
        if "UNTIL" in parts:
            until = datetime.datetime.strptime(parts["UNTIL"], "%Y%m%dT%H%M%SZ")
        elif "COUNT" not in parts:
            until = datetime.datetime(2038, 12, 31)
        ons = []
        MISREAD.setdefault(text, [])
        for y in range(ds.year, 2041):
            days = [d for wk in calendar.monthcalendar(y, mo) for i, d in enumerate(wk) if d and i == wd]
            if abs(n) > len(days) or n == 0:
                continue
            t = datetime.datetime(y, mo, days[n - 1] if n > 0 else days[n], ds.hour, ds.minute, ds.second)
            if t < ds:
                continue
            if "UNTIL" in parts and (t <= until) != (t - datetime.timedelta(seconds=frm) <= until):
                # an onset that a reading of UNTIL as LOCAL time keeps or drops differently (finding C12-F8)
                MISREAD[text].append(secs(t) - frm)
            if until is not None and t - datetime.timedelta(seconds=frm) > until:
                if "UNTIL" in parts and t > until + datetime.timedelta(days=2):
                    break
                continue
            ons.append(secs(t))
            if "COUNT" in parts and len(ons) >= int(parts["COUNT"]):
                break
        if not ons or ons[0] != secs(ds):
            out.append(None)              # DTSTART is not an instance of its own rule: outside the family
            continue
        out.append(ons)
    return out


def family_rules(text):
    """per STANDARD/DAYLIGHT block of the text, in order: the argument of the model's tz_yearly_onsets
    [y, mo, d, h, mi, s, bymonth, n, weekday, bound, tzoffsetfrom] when the block has the shape of the yearly
    nth-weekday family (whether DTSTART is an instance of the rule is the model's decision: it answers ["outside"]),
    else None.  Only the text is read: nothing here comes from the implementation."""
    out = []
    for b in _blocks(text):
        if b is None or "RRULE" not in b[2]:
            out.append(None)
            continue
        ds, frm, props = b
        rule = _yearly_rule(props)
        if rule is None or not 1 <= rule[2] <= 12:
            out.append(None)
            continue
        n, wd, mo, parts = rule
        if "UNTIL" in parts and "COUNT" in parts:
            out.append(None)
            continue
        if "UNTIL" in parts:
            bound = ["until", secs(datetime.datetime.strptime(parts["UNTIL"], "%Y%m%dT%H%M%SZ"))]
        elif "COUNT" in parts:
            bound = ["count", int(parts["COUNT"])]
        else:
            bound = ["unbounded"]
        out.append([ds.year, ds.month, ds.day, ds.hour, ds.minute, ds.second, mo, n, wd, bound, frm])
    return out


def with_model_onsets(obs, answers):
    """the observances with the model's onsets in place of the implementation's wherever the model computed them"""
    out = []
    for o, a in zip(obs, answers):
        if isinstance(a, list) and (not a or isinstance(a[0], int)):
            o = [o[0], list(a)] + o[2:]
        out.append(o)
    return out


# ---------------------------------------------------------------------------- implementation side
def wire_obs(tzc):
    """the observances of a parsed VTIMEZONE as model input (onsets expanded by the implementation)"""
    from icalendar import Timezone
    zone = tzc.tz_name
    out = []
    for c in tzc.walk():
        if c.name not in ("STANDARD", "DAYLIGHT"):
            continue
        d, trans = Timezone._extract_offsets(c, "n")
        ons = sorted(secs(t[0]) for t in trans)
        f = int(c.TZOFFSETFROM.total_seconds())
        to = int(c.TZOFFSETTO.total_seconds())
        nm = [str(c["TZNAME"])] if "TZNAME" in c else []
        synth = (f"{zone}_{c['DTSTART'].to_ical().decode('utf-8')}_" + f"{c['TZOFFSETFROM'].to_ical()}_"
                 + f"{c['TZOFFSETTO'].to_ical()}")
        out.append([int(d), ons, f, to, nm, synth])
    return out


def impl_transitions(tzc):
    try:
        times, infos = tzc.get_transitions()
    except Exception as e:  # noqa: BLE001
        return ["err", common.exc_class(e)]
    return [[secs(t) for t in times],
            [[int(a.total_seconds()), int(b.total_seconds()), n] for a, b, n in infos]]


def sample(tz, s):
    t = EPOCH + datetime.timedelta(seconds=s)
    try:
        d = t.replace(tzinfo=UTC).astimezone(tz)
        return [int(d.utcoffset().total_seconds()), int(d.dst().total_seconds()), d.tzname()]
    except Exception as e:  # noqa: BLE001
        return ["err", common.exc_class(e)]


def instants(obs):
    utcs = sorted({l - o[2] for o in obs for l in o[1]})
    utcs = [u for u in utcs if u < LIMIT]
    out = set()
    for a in utcs:
        out |= {a - 1, a, a + 1}
    for a, b in zip(utcs, utcs[1:]):
        out.add((a + b) // 2)
    if utcs:
        out.add(utcs[-1] + 86400 * 200)
        out.add(utcs[0] - 86400)
    return sorted(out), utcs


# ---------------------------------------------------------------------------- cache experiments
CACHE_WORKER = r'''
import sys, json
from icalendar import Calendar
from icalendar.timezone import tzp
def vtz(tzid, d):
    off = "+00%02d" % d
    return "BEGIN:VTIMEZONE\r\nTZID:%s\r\nBEGIN:STANDARD\r\nDTSTART:19700101T000000\r\nTZOFFSETFROM:%s\r\nTZOFFSETTO:%s\r\nTZNAME:X%d\r\nEND:STANDARD\r\nEND:VTIMEZONE\r\n" % (tzid, off, off, d)
def ev(i, tzid):
    return "BEGIN:VEVENT\r\nUID:%d\r\nDTSTART;TZID=%s:20200601T120000\r\nEND:VEVENT\r\n" % (i, tzid)
def text(cal):
    parts = []
    for i, e in enumerate(cal):
        parts.append(vtz(e[1], e[2]) if e[0] == "def" else ev(i, e[1]))
    return "BEGIN:VCALENDAR\r\nVERSION:2.0\r\n" + "".join(parts) + "END:VCALENDAR\r\n"
def obs(c):
    out = []
    for e in c.walk("VEVENT"):
        d = e["DTSTART"].dt
        if d.tzinfo is None:
            out.append(["none"])
        else:
            o = int(d.utcoffset().total_seconds())
            out.append(["custom", o // 60] if 0 < o < 600 and o % 60 == 0 else ["prov", -1])
    return out
req = json.load(sys.stdin)
res = []
for sc in req["scenarios"]:
    tzp.use(req["provider"])          # a fresh provider object: empty cache
    try:
        res.append([obs(Calendar.from_ical(text(cal))) for cal in sc])
    except Exception as e:
        res.append(["err", type(e).__name__])
ids = {}
tzp.use(req["provider"])
from icalendar.timezone.windows_to_olson import WINDOWS_TO_OLSON
prov = tzp._TZP__provider
for i in req["ids"]:
    ids[i] = [bool(prov.knows_timezone_id(i)), prov.timezone(i) is not None, WINDOWS_TO_OLSON.get(i)]
    w = WINDOWS_TO_OLSON.get(i)
    if w is not None:
        ids[w] = [bool(prov.knows_timezone_id(w)), prov.timezone(w) is not None, None]
json.dump({"results": res, "ids": ids}, sys.stdout)
'''

CACHE_IDS = ["Custom/A", "/Custom/A/", "Custom/B", "Europe/Berlin", "/Europe/Berlin", "W. Europe Standard Time",
             "europe/berlin", "X-Y",
             # a provider-known name padded with blanks is an id of its own (only solidi are cleaned away)
             "Europe/Berlin ", " Europe/Berlin", " Custom/A"]


def clean(i):
    return i.strip("/")


def cache_scenarios(ctx):
    rng = common.rng_for(ctx.seed, "c12-cache")
    witnesses = [
        ("redefine", [[["def", "Custom/Z", 1], ["use", "Custom/Z"]], [["def", "Custom/Z", 2], ["use", "Custom/Z"]]]),
        ("late", [[["use", "Custom/L"], ["def", "Custom/L", 3]], [["use", "Custom/L"], ["def", "Custom/L", 3]]]),
        ("provider-knows", [[["def", "Europe/Berlin", 5], ["use", "Europe/Berlin"]]]),
        ("good", [[["def", "Custom/G", 4], ["use", "Custom/G"], ["use", "/Custom/G"]]]),
    ]
    rand = []
    n = 400 if ctx.big else 60 * (1 + ctx.level)
    for _ in range(n):
        cals = []
        dn = 1
        for _c in range(rng.randrange(1, 4)):
            evs = []
            ids = rng.sample(CACHE_IDS, rng.randrange(1, 4))
            for i in ids:
                if rng.random() < 0.75:
                    evs.append(["def", i, dn])
                    dn += 1
                for _u in range(rng.randrange(0, 3)):
                    evs.append(["use", rng.choice([i, i, clean(i), "/" + clean(i)])])
            rng.shuffle(evs)
            if not any(e[0] == "use" for e in evs):
                evs.append(["use", ids[0]])
            cals.append(evs)
        rand.append(("random", cals))
    return witnesses, rand


def run_worker(provider, scenarios, ids):
    env = dict(os.environ)
    p = subprocess.run([sys.executable, "-c", CACHE_WORKER], input=json.dumps(
        {"provider": provider, "scenarios": scenarios, "ids": ids}), capture_output=True, text=True, env=env, timeout=600)
    if p.returncode != 0:
        raise RuntimeError("cache worker failed: " + p.stderr[-500:])
    return json.loads(p.stdout)


def check_cache(ctx, res):
    witnesses, rand = cache_scenarios(ctx)
    known = ctx.known
    for provider in ("zoneinfo", "pytz"):
        outs = []
        ids_info = {}
        all_ids = {e[1] for _, sc in witnesses + rand for cal in sc for e in cal} | set(CACHE_IDS)
        all_ids = sorted(all_ids | {clean(i) for i in all_ids} | {"/" + clean(i) for i in all_ids})
        # every witness in its own fresh process; the random histories share one process per provider and get a
        # fresh provider object (tzp.use -> empty cache) each
        for _, sc in witnesses:
            r = run_worker(provider, [sc], all_ids)
            outs.append(r["results"][0])
            ids_info = r["ids"]
        r = run_worker(provider, [sc for _, sc in rand], all_ids)
        outs += r["results"]
        ids_info.update(r["ids"])
        knows = [i for i, v in ids_info.items() if v[0]]
        lookups = [[i, -1] for i, v in ids_info.items() if v[1]]
        wins = [[i, v[2]] for i, v in ids_info.items() if v[2]]
        reqs = [("tz_cache_run", [knows, lookups, wins, sc]) for _, sc in witnesses + rand]
        models = ctx.model.batch(reqs) if ctx.model else [None] * len(reqs)
        for (kind, sc), got, m in zip(witnesses + rand, outs, models):
            res.dist("cache-" + kind)
            res.count(("cache", provider, sc), nontrivial=sum(len(c) for c in sc) >= 3)
            if m is not None:
                res.corr(f"cache resolution ({provider})", sc, got, m)
            # the property: a reference to a custom TZID resolves to the definition in its own calendar
            seen_before = {}
            for ci, cal in enumerate(sc):
                own = {}
                for e in cal:
                    if e[0] == "def":
                        own.setdefault(clean(e[1]), e[2])
                ui = 0
                above = set()
                for e in cal:
                    if e[0] == "def":
                        above.add(clean(e[1]))
                        continue
                    k = clean(e[1])
                    g = got[ci][ui] if isinstance(got, list) and got[:1] != ["err"] else got
                    mm = m[ci][ui] if m is not None else None
                    ui += 1
                    info = ids_info.get(e[1], [False, False, None])
                    infok = ids_info.get(k, [False, False, None])
                    provider_resolves = info[1] or infok[1] or (infok[2] is not None)
                    if k not in own or provider_resolves:
                        continue            # not a reference to a custom TZID defined in this calendar
                    want = ["custom", own[k]]
                    if g == want:
                        continue
                    if k in seen_before and seen_before[k] != own[k]:
                        fid = "C12-F4"
                    elif k not in above:
                        fid = "C12-F5"
                    else:
                        fid = None
                    if fid and fid in known and (mm is None or g == mm):
                        res.known(fid, {"provider": provider, "calendars": sc, "calendar": ci, "tzid": e[1], "got": g,
                                        "want": want}, known[fid]["summary"])
                    else:
                        res.fail("C12 cache: TZID reference does not resolve to the definition in its own calendar"
                                 + ("" if fid is None else " (and not as the recorded finding predicts)"),
                                 {"provider": provider, "calendars": sc, "calendar": ci, "tzid": e[1]},
                                 observed=g, expected=want)
                for e in cal:
                    if e[0] == "def":
                        k = clean(e[1])
                        i0 = ids_info.get(e[1], [False])[0] or ids_info.get(k, [False])[0]
                        if not i0:
                            seen_before.setdefault(k, e[2])
        # re-parsing the same bytes (the second half of the `late` witness) is part of C12-F5: shown in the sample
    res.sample({"cache witness `late` (same bytes parsed twice)": outs[1] if len(outs) > 1 else None})


# ---------------------------------------------------------------------------- main
def run(ctx, res):
    from icalendar import Timezone
    from icalendar.timezone import tzp
    rng = common.rng_for(ctx.seed, "c12")
    cases = corpus()
    n = 1500 if ctx.big else 110 * (1 + 2 * ctx.level)
    for i in range(n):
        cases.append(("generated", gen_vtz(rng, i)))
    res.rule = ("VTIMEZONE texts: witnesses (crossing, DAYLIGHT only, shared TZNAME, no TZNAME, RDATE repeating "
                "DTSTART, empty RRULE, equal local onsets, seconds offsets) + generated (1-4 observances, whole-minute "
                "offsets -12h..+14h, yearly nth-weekday RRULE with/without UNTIL/COUNT, RDATE lists, single onsets, "
                "with/without TZNAME, 8% forced order crossings); each sampled at every UTC onset before 2037 -1s/0/+1s, "
                "interval midpoints, 200 days after the last onset, under both providers; non-trivial = at least two "
                "onsets; distinct by text.  Cache: 4 witnesses in fresh processes + random histories of 1-3 calendars")
    known = ctx.known
    M = ctx.model
    rows = []
    # the onsets of every observance of the yearly nth-weekday family, computed by the MODEL from the text alone
    # (Model/TzOnsets.v, theorems C12_yearly_onsets_*): one batch, before the implementation is asked anything
    rules = [family_rules(text) for _, text in cases]
    fam_out = iter(M.batch([("tz_yearly_onsets", r) for rs in rules for r in rs if r is not None])) if M else None
    fam = {"in": 0, "outside": 0, "other": 0, "onsets": 0}
    for (kind, text), rs in zip(cases, rules):
        res.dist(kind)
        tzc = Timezone.from_ical(text)
        obs = wire_obs(tzc)
        answers = [next(fam_out) if (M and r is not None) else None for r in rs]
        # the onsets the implementation expands from RRULE / DTSTART against the independent calendar arithmetic
        for oi, (o, want) in enumerate(zip(obs, expected_onsets(text))):
            if want is not None:
                res.evaluations += 1
                if [x for x in o[1] if x < LIMIT_LOCAL] != [x for x in want if x < LIMIT_LOCAL]:
                    res.fail("C12 onsets: the recurrence set expanded from an observance's RRULE differs from the RFC reading "
                             "(UNTIL is a UTC instant, compared with onset - TZOFFSETFROM)", text,
                             observed=[str(EPOCH + datetime.timedelta(seconds=x)) for x in o[1]][-4:],
                             expected=[str(EPOCH + datetime.timedelta(seconds=x)) for x in want][-4:])
            a = answers[oi] if oi < len(answers) else None
            if a is None:
                fam["other"] += 1
                continue
            # three-way agreement: model (proved) / implementation (_extract_offsets) / python calendar arithmetic
            if a == ["outside"]:
                fam["outside"] += 1
                res.corr("observance onsets: family membership", [text, oi], "outside" if want is None else "inside", "outside")
                continue
            fam["in"] += 1
            fam["onsets"] += len(a)
            res.corr("observance onsets", [text, oi], o[1], a)
            res.corr("observance onsets: family membership", [text, oi], "outside" if want is None else "inside", "inside")
            if want is not None:
                res.corr("observance onsets: python calendar arithmetic", [text, oi],
                         [x for x in want if x < LIMIT_LOCAL], [x for x in a if x < LIMIT_LOCAL])
        obs = with_model_onsets(obs, answers)      # from here on the model works on its own onsets for the family
        ts, utcs = instants(obs)
        row = dict(kind=kind, text=text, obs=obs, ts=ts, utcs=utcs, trans=impl_transitions(tzc), prov={})
        for provider in ("pytz", "zoneinfo"):
            tzp.use(provider)
            try:
                tz = Timezone.from_ical(text).to_tz(tzp, lookup_tzid=False)
                row["prov"][provider] = [sample(tz, s) for s in ts]
            except Exception as e:  # noqa: BLE001
                row["prov"][provider] = ["err", common.exc_class(e)]
        rows.append(row)
        res.count(text, nontrivial=len(utcs) >= 2)
    tzp.use_default()
    if M:
        reqs = []
        for r in rows:
            reqs += [("tz_get_transitions", r["obs"]), ("tz_pytz_path", [r["obs"], r["ts"]]),
                     ("tz_rfc_offset", [r["obs"], r["ts"]]), ("tz_guard", r["obs"])]
        outs = M.batch(reqs)
    stats = {"pytz": [0, 0], "zoneinfo": [0, 0], "agree": [0, 0], "zoneinfo_far": [0, 0]}
    for ri, r in enumerate(rows):
        if not M:
            break
        m_trans, m_path, m_rfc, m_guard = outs[4 * ri:4 * ri + 4]
        res.corr("get_transitions", r["text"], r["trans"], m_trans)
        pz = r["prov"]["pytz"]
        if pz[:1] == ["err"] or (isinstance(m_path, list) and m_path[:1] in (["err"], ["unsupported"])):
            res.corr("pytz to_tz", r["text"], pz, m_path)
        else:
            for s, g, m in zip(r["ts"], pz, m_path):
                res.corr("pytz to_tz", [r["text"], s], g, m)
        whole, order, names, has_std, first = m_guard
        guard = whole and order and names and has_std
        maxoff = max([abs(o[2]) for o in r["obs"]] + [abs(o[3]) for o in r["obs"]] + [0])
        window = 2 * maxoff + 1
        if not whole:
            continue                         # seconds offsets: outside the property's quantifier (rounding is modelled)
        for provider in ("pytz", "zoneinfo"):
            got_all = r["prov"][provider]
            whole_err = got_all[:1] == ["err"]
            for k, s in enumerate(r["ts"]):
                if not first or s < first[0]:
                    continue
                want = m_rfc[k]
                if want == ["none"]:
                    continue
                g = got_all if whole_err else got_all[k]
                ok = (g[:1] != ["err"] and g[0] == want[0] and (not want[1] or g[2] == want[1][0])
                      and (want[2] or g[1] == 0))
                stats[provider][0] += 1
                near = any(abs(s - u) <= window for u in r["utcs"])
                if provider == "zoneinfo" and not near:
                    stats["zoneinfo_far"][0] += 1
                    stats["zoneinfo_far"][1] += int(ok)
                if ok:
                    stats[provider][1] += 1
                    continue
                inp = {"vtimezone": r["text"], "instant": s, "provider": provider}
                if provider == "pytz":
                    mp = m_path if (isinstance(m_path, list) and m_path[:1] == ["err"]) else m_path[k]
                    fid = None if guard else ("C12-F1" if not order else "C12-F2" if not has_std else "C12-F3")
                    if fid and fid in known and g == mp:
                        res.known(fid, {"vtimezone": r["text"], "instant": s, "got": g, "rfc": want}, known[fid]["summary"])
                    elif "C12-F7" in known and g[:1] == ["err"] and big_jump(r["text"]):
                        res.known("C12-F7", {"vtimezone": r["text"], "instant": s, "got": g, "rfc": want, "provider": "pytz"}, known["C12-F7"]["summary"])
                    else:
                        res.fail("C12 pytz provider: offset/name/dst differ from the RFC onset rule"
                                 + (" inside the guard" if guard else " (not as the faithful model predicts)"),
                                 inp, observed=g, expected=want)
                else:
                    # dateutil has no model: deviations are accepted only close to an onset, or where the definition
                    # is itself outside the pytz guard (order crossing, DAYLIGHT only)
                    if "C12-F8" in known and any(u <= s for u in MISREAD.get(r["text"], [])):
                        res.known("C12-F8", {"vtimezone": r["text"], "instant": s, "got": g, "rfc": want}, known["C12-F8"]["summary"])
                    elif "C12-F6" in known and (near or not order or not has_std):
                        res.known("C12-F6", {"vtimezone": r["text"], "instant": s, "got": g, "rfc": want},
                                  known["C12-F6"]["summary"])
                    elif "C12-F7" in known and g[:1] == ["err"] and big_jump(r["text"]):
                        # an observance that moves the clock by 24 h or more (Kiritimati 1994: -1040 -> +1400): dateutil
                        # computes dst() = TZOFFSETTO - TZOFFSETFROM and datetime rejects a dst() of 24 h or more
                        res.known("C12-F7", {"vtimezone": r["text"], "instant": s, "got": g, "rfc": want}, known["C12-F7"]["summary"])
                    else:
                        res.fail("C12 zoneinfo provider (dateutil tzical): differs from the RFC onset rule far from "
                                 "every onset", inp, observed=g, expected=want)
        a, b = r["prov"]["pytz"], r["prov"]["zoneinfo"]
        if a[:1] != ["err"] and b[:1] != ["err"]:
            for k, s in enumerate(r["ts"]):
                if first and s >= first[0]:
                    stats["agree"][0] += 1
                    stats["agree"][1] += int(a[k][:1] == b[k][:1])
    res.notes.append("samples at/after the first onset where the provider's (offset, name if given, dst=0 in standard "
                     "time) equals the RFC rule: pytz %d/%d, zoneinfo %d/%d (zoneinfo, further than 2*max|offset| from "
                     "every onset: %d/%d); pytz and zoneinfo give the same utcoffset on %d/%d samples -- provider "
                     "agreement is differential testing only, dateutil's tzical has no model"
                     % (stats["pytz"][1], stats["pytz"][0], stats["zoneinfo"][1], stats["zoneinfo"][0],
                        stats["zoneinfo_far"][1], stats["zoneinfo_far"][0], stats["agree"][1], stats["agree"][0]))
    res.extra["provider_stats"] = stats
    res.extra["family"] = fam
    res.notes.append("observances of the yearly nth-weekday family: %d with %d onsets computed by the model "
                     "(tz_yearly_onsets) and compared with Timezone._extract_offsets and with the python calendar "
                     "arithmetic; %d of that shape outside the family (DTSTART not an instance of its rule); %d other "
                     "observances (single DTSTART, RDATE, seconds offsets) keep the implementation's onsets"
                     % (fam["in"], fam["onsets"], fam["outside"], fam["other"]))
    res.sample({"vtimezone": rows[6]["text"], "transitions (first 3)": [rows[6]["trans"][0][:3], rows[6]["trans"][1][:3]]})
    check_cache(ctx, res)


def replay(ctx, data):
    from icalendar import Timezone
    from icalendar.timezone import tzp
    inp = data["input"]
    if isinstance(inp, str) and inp.startswith("BEGIN:VTIMEZONE"):       # an onset failure records the text alone
        obs = wire_obs(Timezone.from_ical(inp))
        answers = [ctx.model.call("tz_yearly_onsets", r) if (ctx.model and r is not None) else None for r in family_rules(inp)]
        print(inp)
        for oi, (o, want) in enumerate(zip(obs, expected_onsets(inp))):
            a = answers[oi] if oi < len(answers) else None
            show = lambda l: l if l is None or l == ["outside"] else [str(EPOCH + datetime.timedelta(seconds=x)) for x in l[-3:]]  # noqa: E731
            print("observance", oi, "last onsets: implementation", show(o[1]), " model", show(a), " python arithmetic", show(want))
        return
    if "vtimezone" not in inp:
        print("cache scenario:", json.dumps(inp))
        for provider in ("zoneinfo", "pytz"):
            r = run_worker(provider, [inp["calendars"]], CACHE_IDS)
            print(provider, "impl :", r["results"][0])
        return
    text, s = inp["vtimezone"], inp["instant"]
    tzc = Timezone.from_ical(text)
    obs = wire_obs(tzc)
    if ctx.model:
        answers = [ctx.model.call("tz_yearly_onsets", r) if r is not None else None for r in family_rules(text)]
        for oi, (o, a) in enumerate(zip(obs, answers)):
            if a is not None:
                print("observance", oi, "onsets: model", a if a == ["outside"] else a[-3:], " implementation", o[1][-3:])
        obs = with_model_onsets(obs, answers)
    print(text)
    for provider in ("pytz", "zoneinfo"):
        tzp.use(provider)
        try:
            tz = Timezone.from_ical(text).to_tz(tzp, lookup_tzid=False)
            print(provider, "impl :", sample(tz, s))
        except Exception as e:  # noqa: BLE001
            print(provider, "impl : raises", type(e).__name__)
    if ctx.model:
        print("model pytz path:", ctx.model.call("tz_pytz_path", [obs, [s]]))
        print("RFC rule       :", ctx.model.call("tz_rfc_offset", [obs, [s]]))
        print("guard [whole_minutes, order_ok, names_ok, has_std, first onset]:", ctx.model.call("tz_guard", obs))
