"""Shared helpers of the schedule-area harnesses (C14, C15, C16): wire encodings of times,
entries and alarms (see coq/Model/DispatchSched.v), canonicalisation of Python dates/datetimes,
the zone-oracle tables handed to the model, provider switching."""
from datetime import date, datetime, time, timedelta, timezone

EPOCH = datetime(2020, 1, 1)
ZONES = ["Europe/Berlin", "America/New_York", "Australia/Lord_Howe", "Asia/Kolkata"]   # zid = index + 1
RANGE = (datetime(2019, 6, 1), datetime(2022, 6, 1))      # every generated time stays inside
NONE = ["none"]

FINGERPRINTS_C16 = [
    "cal.create_single_property", "cal._get_duration", "cal._set_duration", "cal._del_duration",
    "cal.Event._get_start_end_duration", "cal.Event.start", "cal.Event.end", "cal.Event.duration",
    "cal.Todo._get_start_end_duration", "cal.Todo.start", "cal.Todo.end", "cal.Todo.duration",
    "cal.Journal.start", "cal.Journal.duration", "cal.Component.add", "cal.Component._encode",
]
FINGERPRINTS_ALARM = [
    "cal.Alarm.REPEAT", "cal.Alarm.TRIGGER_RELATED", "cal.Alarm.triggers", "cal.create_utc_property",
    "cal.Component.is_thunderbird", "cal.Component.walk", "cal.Component._walk", "cal.Component.add_component",
    "alarms.AlarmTime.__init__", "alarms.AlarmTime.acknowledged", "alarms.AlarmTime.is_active",
    "alarms.AlarmTime.trigger", "alarms.Alarms.__init__", "alarms.Alarms.add_component", "alarms.Alarms.set_parent",
    "alarms.Alarms.add_alarm", "alarms.Alarms.set_start", "alarms.Alarms.set_end", "alarms.Alarms._add",
    "alarms.Alarms.acknowledge_until", "alarms.Alarms.snooze_until", "alarms.Alarms.set_local_timezone",
    "alarms.Alarms.times", "alarms.Alarms._repeat", "alarms.Alarms._alarm_time",
    "alarms.Alarms._get_absolute_alarm_times", "alarms.Alarms._get_start_alarm_times",
    "alarms.Alarms._get_end_alarm_times", "alarms.Alarms.active",
    "tools.is_date", "tools.is_datetime", "tools.to_datetime", "tools.is_pytz", "tools.is_pytz_dt", "tools.normalize_pytz",
]


# ---------------------------------------------------------------------------- providers
def use_provider(name):
    import icalendar
    if name == "pytz":
        icalendar.use_pytz()
    else:
        icalendar.use_zoneinfo()


def tz_of(zone, provider):
    if provider == "pytz":
        import pytz
        return pytz.utc if zone == "UTC" else pytz.timezone(zone)
    from zoneinfo import ZoneInfo
    return ZoneInfo(zone)


def mk_dt(desc, provider):
    """description -> Python object, built with the tz library directly (not through icalendar).
    desc: ("d", y, m, d) | ("n"|"u", y, m, d, H, M, S) | ("z", zone, y, m, d, H, M, S) | ("td", seconds) | ("tod",) | None"""
    if desc is None:
        return None
    k = desc[0]
    if k == "d":
        return date(*desc[1:])
    if k == "n":
        return datetime(*desc[1:])
    if k == "u":
        if provider == "pytz":
            import pytz
            return pytz.utc.localize(datetime(*desc[1:]))
        return datetime(*desc[1:], tzinfo=timezone.utc)
    if k == "z":
        tz = tz_of(desc[1], provider)
        naive = datetime(*desc[2:])
        return tz.localize(naive) if provider == "pytz" else naive.replace(tzinfo=tz)
    if k == "td":
        return timedelta(seconds=desc[1])
    if k == "tod":
        return time(12, 30)
    raise ValueError(desc)


def tzkey(tz):
    key = getattr(tz, "key", None) or getattr(tz, "zone", None)
    if key is None:
        if tz is timezone.utc or tz.utcoffset(None) == timedelta(0):
            return "UTC"
        raise ValueError(f"unknown tzinfo {tz!r}")
    return key


def wall_s(x):
    d = x.replace(tzinfo=None) - EPOCH
    return d.days * 86400 + d.seconds


def td_s(td):
    if td.microseconds:
        raise ValueError("sub-second timedelta")
    return td.days * 86400 + td.seconds


# ---------------------------------------------------------------------------- Python value -> model input
def w_time(x):
    """date/datetime -> wire time (model input)"""
    if isinstance(x, datetime):
        if x.tzinfo is None:
            return ["n", wall_s(x)]
        key = tzkey(x.tzinfo)
        if key == "UTC":
            return ["u", wall_s(x)]
        fix = [td_s(x.utcoffset())] if hasattr(x.tzinfo, "localize") else []
        return ["z", ZONES.index(key) + 1, fix, wall_s(x)]
    return ["d", (x - EPOCH.date()).days]


def w_pyval(x):
    if isinstance(x, (datetime, date)):
        return ["t", w_time(x)]
    if isinstance(x, timedelta):
        return ["td", td_s(x)]
    return ["o"]


def w_opt(x):
    return NONE if x is None else x


def utc_instant(x):
    """aware datetime -> seconds of its UTC instant on the model's scale"""
    return wall_s(x.astimezone(timezone.utc))


# ---------------------------------------------------------------------------- implementation value -> observation
def c_time(x):
    """canonical observation of a date/datetime: kind, wall seconds, zone id, utcoffset seconds"""
    if isinstance(x, datetime):
        if x.tzinfo is None:
            return ["n", wall_s(x)]
        key = tzkey(x.tzinfo)
        if key == "UTC":
            return ["u", wall_s(x)]
        return ["z", ZONES.index(key) + 1, wall_s(x), td_s(x.utcoffset())]
    if isinstance(x, date):
        return ["d", (x - EPOCH.date()).days]
    raise ValueError(f"not a date: {x!r}")


def c_pyval(x):
    if isinstance(x, (datetime, date)):
        return ["t", c_time(x)]
    if isinstance(x, timedelta):
        return ["td", td_s(x)]
    return ["o"]


def c_err(e):
    return ["err", type(e).__name__]


def observe(f, conv):
    try:
        v = f()
    except Exception as e:  # noqa: BLE001
        return c_err(e)
    return conv(v)


# ---------------------------------------------------------------------------- zone oracle tables
_TABLES = {}


def _steps():
    t = RANGE[0] - timedelta(days=60)
    end = RANGE[1] + timedelta(days=60)
    while t < end:
        yield t
        t += timedelta(minutes=30)


def zone_tables(zone, provider):
    """(wall table, utc table) of one zone as lists of [threshold, offset], probed from the tz library:
    wall: utcoffset of the wall time (fold=0) -- what zoneinfo datetimes use;
    utc: utcoffset at a UTC instant -- what pytz's normalize() uses."""
    key = (zone, provider)
    if key in _TABLES:
        return _TABLES[key]
    from zoneinfo import ZoneInfo
    zi = ZoneInfo(zone)
    wall, utc = [], []
    last = None
    for t in _steps():
        off = td_s(t.replace(tzinfo=zi).utcoffset())
        if off != last:
            wall.append([wall_s(t) if last is not None else -(1 << 40), off])
            last = off
    last = None
    if provider == "pytz":
        import pytz
        pz = pytz.timezone(zone)
        conv = lambda t: td_s(pz.fromutc(t).utcoffset())      # noqa: E731
    else:
        conv = lambda t: td_s(t.replace(tzinfo=timezone.utc).astimezone(zi).utcoffset())   # noqa: E731
    for t in _steps():
        off = conv(t)
        if off != last:
            utc.append([wall_s(t) if last is not None else -(1 << 40), off])
            last = off
    _TABLES[key] = (wall, utc)
    return wall, utc


def oracle_for(zids, provider):
    return [[z, *zone_tables(ZONES[z - 1], provider)] for z in sorted(set(zids))]


def zids_in(v, acc=None):
    """zone ids mentioned in a wire value (lists starting with "z")"""
    acc = set() if acc is None else acc
    if isinstance(v, list):
        if len(v) >= 2 and v[0] == "z" and isinstance(v[1], int):
            acc.add(v[1])
        for x in v:
            zids_in(x, acc)
    return acc


# ---------------------------------------------------------------------------- text rendering
def ical_dt(desc):
    """(parameters, value) of a date/datetime description for a content line"""
    k = desc[0]
    if k == "d":
        return ";VALUE=DATE", "%04d%02d%02d" % tuple(desc[1:])
    if k == "n":
        return "", "%04d%02d%02dT%02d%02d%02d" % tuple(desc[1:])
    if k == "u":
        return "", "%04d%02d%02dT%02d%02d%02dZ" % tuple(desc[1:])
    if k == "z":
        return ";TZID=" + desc[1], "%04d%02d%02dT%02d%02d%02d" % tuple(desc[2:])
    raise ValueError(desc)


def ical_td(seconds):
    sign = "-" if seconds < 0 else ""
    s = abs(seconds)
    d, s = divmod(s, 86400)
    h, s = divmod(s, 3600)
    m, s = divmod(s, 60)
    out = sign + "P"
    if d:
        out += f"{d}D"
    if h or m or s or not d:
        out += "T"
        if h:
            out += f"{h}H"
        if m:
            out += f"{m}M"
        if s or not (h or m):
            out += f"{s}S"
    return out
