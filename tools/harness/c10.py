"""C10 -- serialisation is deterministic, pure and insertion-order independent."""
import copy
import os
import subprocess
import sys

from . import common
from . import treelib as T
from . import c20

FINGERPRINTS = ["cal.Component.property_items", "cal.Component.content_line", "cal.Component.content_lines",
                "cal.Component.to_ical", "caselessdict.canonsort_keys", "parser.Parameters.to_ical",
                "cal.Calendar.add_missing_timezones", "cal.Component.add"]
GEN = ["Gen_parser", "Gen_cal"]
ASSUMPTIONS = [
    "the hash-seed clause is an experiment (the same API script in subprocesses under several PYTHONHASHSEED values): "
    "runtime behaviour no Gallina model exhibits",
    "purity is observed on the implementation (tree snapshot before/after to_ical); in the functional model it is trivial",
]
TRUSTED = []

SCRIPT = r'''
import sys, hashlib, datetime, zoneinfo
import icalendar
c = icalendar.Calendar()
c.add("prodid", "-//x//EN"); c.add("version", "2.0")
zones = ["Europe/Berlin", "America/New_York", "Asia/Tokyo", "Australia/Sydney", "Africa/Cairo"]
for i, z in enumerate(zones):
    e = icalendar.Event()
    e.add("uid", "u%d" % i)
    e.add("summary", "s", parameters={"X-B": "1", "ALTREP": "http://a", "LANGUAGE": "en"})
    e.add("dtstart", datetime.datetime(2020, 1, 1 + i, 10, tzinfo=zoneinfo.ZoneInfo(z)))
    e.add("categories", ["work", "errand", "family", "work", "home", "b", "a"])
    e.add("rdate", [datetime.datetime(2020, 2, 1 + i, 10), datetime.datetime(2020, 2, 1 + i, 10), datetime.datetime(2020, 1, 5, 9)])
    e.add("attendee", "mailto:a@x", parameters={"MEMBER": ["m2", "m1", "m2"], "CN": "n", "ROLE": "r", "DELEGATED-TO": ["d2", "d1"]})
    e.add("resources", ["r2", "r1", "r2"])
    # date lists whose elements carry different zones (the line has one TZID parameter: which one must not depend on hashing)
    e.add("exdate", [datetime.datetime(2020, 3, 1 + i, 9, tzinfo=zoneinfo.ZoneInfo(zones[(i + k) % 5])) for k in range(4)])
    e.add("rdate", [datetime.datetime(2020, 4, 1, 9, tzinfo=zoneinfo.ZoneInfo(zones[(i + 2) % 5])), datetime.datetime(2020, 4, 2, 9, tzinfo=zoneinfo.ZoneInfo(z))])
    c.add_component(e)
c.add_missing_timezones()
sys.stdout.write(hashlib.sha256(c.to_ical()).hexdigest())
'''


def shuffled_copy(c, rng, params_too=True):
    """same content, other insertion order of distinct property names and of parameter names"""
    from icalendar.parser import Parameters
    d = type(c)()
    d.name = c.name
    keys = list(c.keys())
    rng.shuffle(keys)
    for k in keys:
        v = copy.deepcopy(c[k])
        for x in (v if isinstance(v, list) else [v]):
            if params_too and hasattr(x, "params") and len(x.params) > 1:
                items = list(x.params.items())
                rng.shuffle(items)
                x.params = Parameters(items)
        d[k] = v
    d.subcomponents = [shuffled_copy(s, rng, params_too) for s in c.subcomponents]
    return d


def decorate(c, rng):
    """attach a few parameters to values so that parameter order matters"""
    for s in c20.py_preorder(c):
        for k in list(s.keys()):
            v = s[k]
            for x in (v if isinstance(v, list) else [v]):
                if hasattr(x, "params") and rng.random() < 0.4:
                    for p in rng.sample(["X-B", "ALTREP", "LANGUAGE", "X-A", "CN"], rng.randrange(1, 4)):
                        x.params[p] = rng.choice(["1", "a b", "x,y", "http://u", ["m2", "m1"], ["one"]])


EDITS = ["pop", "popitem", "clear", "del", "setitem", "add", "setdefault", "update", "pop-missing", "del-attr",
         # the same on the parameters of a value (every way a caller can change them, with and without going through __setitem__)
         "param-pop", "param-popitem", "param-inplace", "param-clear", "param-update", "param-move", "param-setdefault"]


def canon_result(x):
    """the result of a mapping call, without object addresses"""
    if x is None:
        return None
    if isinstance(x, tuple):
        return [canon_result(y) for y in x]
    if isinstance(x, list):
        return [canon_result(y) for y in x]
    if hasattr(x, "to_ical"):
        return T.obs_value(x)
    return str(x)


def apply_edit(edit, comp, rstate):
    """one mapping / API edit on a component, deterministic given the PRNG state; returns the call's result"""
    import random
    from icalendar.prop import vText
    r = random.Random()
    r.setstate(rstate)
    keys = list(comp.keys())
    k = r.choice(keys) if keys else "SUMMARY"
    try:
        if edit.startswith("param-"):
            with_params = [x for kk in keys for x in (comp[kk] if isinstance(comp[kk], list) else [comp[kk]])
                           if len(getattr(x, "params", {})) > 0]
            if not with_params:
                return None
            ps = r.choice(with_params).params
            first = next(iter(ps))
            if edit == "param-pop":
                return str(ps.pop(first, None))
            if edit == "param-popitem":
                return str(ps.popitem())
            if edit == "param-inplace":
                lists = [v for v in ps.values() if isinstance(v, list)]
                if lists:
                    lists[0].append("zz")
                    lists[0].reverse()
                else:
                    ps[first] = [str(ps[first]), "second"]
                return None
            if edit == "param-clear":
                return ps.clear()
            if edit == "param-update":
                return ps.update({"x-u": "1", first.lower(): "changed"})
            if edit == "param-move":
                return ps.move_to_end(first)
            return str(ps.setdefault("X-SD", "d"))
        if edit == "pop":
            return canon_result(comp.pop(k, None))
        if edit == "popitem":
            return canon_result(comp.popitem()) if keys else None
        if edit == "clear":
            return comp.clear()
        if edit == "del":
            if keys:
                del comp[k]
            return None
        if edit == "setitem":
            comp[k.lower()] = vText("replaced")
            return None
        if edit == "add":
            comp.add("x-added", "v")
            return None
        if edit == "setdefault":
            return canon_result(comp.setdefault("X-DEF", vText("d")))
        if edit == "update":
            comp.update({"x-up": vText("u"), "Summary": vText("s")})
            return None
        if edit == "pop-missing":
            return canon_result(comp.pop("X-NOT-THERE", None))
        if edit == "del-attr":
            if hasattr(type(comp), "DTEND") and "DTEND" in comp:
                del comp.DTEND
            return None
    except Exception as e:  # noqa: BLE001
        return "raised " + type(e).__name__
    return None


def balanced(text, comp):
    """BEGIN/END lines of the output nest properly and denote the component tree"""
    stack, roots = [], []
    for line in text.split("\r\n"):
        if line.startswith("BEGIN:"):
            stack.append([line[6:], []])
        elif line.startswith("END:"):
            if not stack or stack[-1][0] != line[4:]:
                return False
            node = stack.pop()
            (stack[-1][1] if stack else roots).append(node)

    # the nesting of the blocks is the nesting of the tree; every END repeats the text of its BEGIN (checked above).  The name
    # text itself is not compared with c.name: a name containing a backslash is written escaped (findings C01-F1 / C05-F2)
    def shape(c):
        return [shape(s) for s in c.subcomponents]

    def tshape(node):
        return [tshape(x) for x in node[1]]
    return not stack and len(roots) == 1 and tshape(roots[0]) == shape(comp)


def run(ctx, res):
    import icalendar
    from icalendar.prop import vDatetime
    import zoneinfo
    from datetime import datetime
    M = ctx.model
    known = ctx.known
    rng = common.rng_for(ctx.seed, "c10")
    n = 1500 if ctx.big else 200 * (1 + 3 * ctx.level)
    res.rule = ("API-built trees (as C20: 10 component kinds, depth <= 5, repeated and unknown names) with parameters on "
                "values; per tree: serialise twice, snapshot before/after, a copy rebuilt with shuffled insertion order of "
                "properties and parameters (sorted on: same bytes; sorted off: insertion order), balanced BEGIN/END; plus "
                "the same API script under several PYTHONHASHSEED values; non-trivial = >= 2 distinct property names or a "
                "value with >= 2 parameters; distinct by serialisation")
    reqs, post = [], []
    for i in range(n):
        t = c20.gen_tree(rng, 0, 5)
        decorate(t, rng)
        before = T.obs_comp(t)
        s1 = T.impl_ser(t)
        s2 = T.impl_ser(t)
        after = T.obs_comp(t)
        if not isinstance(s1, str):
            continue
        multi = any(len(c.keys()) >= 2 for c in c20.py_preorder(t)) or any(len(v[1]) >= 2 for c in c20._all(before) for _, _, vs in c[1] for v in vs)
        res.count(s1, nontrivial=multi)
        if s1 != s2:
            res.fail("C10 determinism: serialising twice gives different bytes", s1[:500])
        if before != after:
            res.fail("C10 purity: the tree is observably changed by to_ical", s1[:500], observed=after, expected=before)
        # no hidden state: a tree that has been serialised behaves, under any further edit, like a twin that never was
        twin = copy.deepcopy(t)
        T.impl_ser(t)
        edit = rng.choice(EDITS)
        targets_a, targets_b = c20.py_preorder(t), c20.py_preorder(twin)
        j = rng.randrange(len(targets_a))
        ra, rb = apply_edit(edit, targets_a[j], rng.getstate()), apply_edit(edit, targets_b[j], rng.getstate())
        sa, sb = T.impl_ser(t), T.impl_ser(twin)
        res.dist("edit:" + edit)
        if sa != sb or ra != rb:
            res.fail("C10 purity: after the same further edit (%s) a tree that had been serialised before differs from a twin "
                     "that had not" % edit, {"tree": s1[:500], "edit": edit}, observed=[str(ra)[:100], str(sa)[:300]],
                     expected=[str(rb)[:100], str(sb)[:300]])
        t = copy.deepcopy(twin)      # continue with the edited tree
        s1 = T.impl_ser(t)
        if not isinstance(s1, str):
            continue
        before = T.obs_comp(t)
        u = shuffled_copy(t, rng)
        su = T.impl_ser(u)
        if su != s1:
            res.fail("C10 insertion-order independence: same content inserted in another order serialises differently (sorted=True)",
                     {"a": s1[:600], "b": (su or "")[:600]})
        # sorted off: exactly insertion order
        s_uns = T.impl_ser(t, sorted=False)
        want = []

        def walk_names(c):
            want.append("BEGIN")
            for k in c.keys():
                v = c[k]
                want.extend([k] * (len(v) if isinstance(v, list) else 1))
            for s in c.subcomponents:
                walk_names(s)
            want.append("END")
        walk_names(t)
        got = [ln.split(":", 1)[0].split(";", 1)[0] for ln in s_uns.replace("\r\n ", "").split("\r\n") if ln]
        if got != want:
            res.fail("C10 sorted=False: property lines are not in insertion order", s_uns[:600], observed=got, expected=want)
        if not balanced(s1.replace("\r\n ", ""), t):
            res.fail("C10: output is not a balanced, properly nested sequence of BEGIN/END blocks denoting the tree", s1[:600])
        reqs += [("tree_ser", [before, 1]), ("tree_ser", [before, 0]), ("tree_ser", [T.obs_comp(u), 1])]
        post += [("to_ical sorted", s1, s1), ("to_ical unsorted", s1, s_uns), ("to_ical sorted (shuffled insertion)", s1, su)]
    outs = M.batch(reqs) if M else None
    if outs is not None:
        for (target, inp, impl), m in zip(post, outs):
            res.corr(target.replace(" ", "_"), inp[:400], impl, m)
    # ---- trees that come from parsing (damaged texts included): whatever the parser accepts serialises into balanced,
    # properly nested BEGIN/END blocks that denote the tree, and parses back
    damaged = ["BEGIN:VEVENT\r\nUID:u\r\nBEGIN:VALARM\r\nACTION:DISPLAY\r\nEND;X:VALARM\r\nEND:VALARM\r\nEND:VEVENT\r\n",
               "BEGIN:VEVENT\r\nUID:u\r\nEND;;:VEVENT\r\nSUMMARY:s\r\nEND:VEVENT\r\n",
               "BEGIN:VEVENT\r\nUID:u\r\nBEGIN;X:VALARM\r\nSUMMARY:s\r\nEND:VEVENT\r\n",
               "BEGIN:VEVENT\r\nBEGIN;A=\"b:VALARM\r\nEND:VEVENT\r\n", "BEGIN:VEVENT\r\nEND;A=b\x01:VEVENT\r\nX:y\r\nEND:VEVENT\r\n"]
    texts = [("damaged", d) for d in damaged]
    for _ in range(600 if ctx.big else 80 * (1 + 3 * ctx.level)):
        texts.append(("mutated", T.mutate(rng, T.gen_calendar(rng))))
    for kind, text in texts:
        try:
            comps = icalendar.Calendar.from_ical(text, multiple=True)
        except Exception:  # noqa: BLE001
            continue
        res.evaluations += 1
        res.dist("parsed " + kind)
        for c in comps:
            out = T.impl_ser(c)
            if not isinstance(out, str):
                continue
            if not balanced(out.replace("\r\n ", ""), c):
                res.fail("C10: the serialisation of a parsed tree is not a balanced, properly nested sequence of BEGIN/END "
                         "blocks denoting the tree", text[:800], observed=out[:600])
    # ---- corpus: a raw vDatetime value (rendering writes TZID into its own parameters)
    ev = icalendar.Event()
    ev["X-WHEN"] = vDatetime(datetime(2020, 1, 1, 10, tzinfo=zoneinfo.ZoneInfo("Europe/Berlin")))
    b = T.obs_comp(ev)
    ev.to_ical()
    a = T.obs_comp(ev)
    res.evaluations += 1
    if a != b:
        if "C10-F1" in known:
            res.known("C10-F1", {"before": b, "after": a}, known["C10-F1"]["summary"])
        else:
            res.fail("C10 purity: a raw vDatetime value gains a TZID parameter during to_ical", "vDatetime", observed=a, expected=b)
    # ---- raw zoned values with parameters of their own: the first and the second serialisation are the same bytes,
    #      parse back to the zone and carry every parameter
    for npar in (0, 1, 2, 3):
        for cls_, dtv in ((vDatetime, datetime(2020, 1, 1, 10, tzinfo=zoneinfo.ZoneInfo("Europe/Berlin"))),
                          (vDatetime, datetime(2020, 7, 1, 10, tzinfo=zoneinfo.ZoneInfo("America/New_York")))):
            ev = icalendar.Event()
            val = cls_(dtv)
            for i in range(npar):
                val.params[["X-NOTE", "ALTREP", "X-A"][i]] = ["n", "u", "a"][i]
            ev["X-WHEN"] = val
            ev["DTSTART"] = cls_(dtv)
            ev["DTSTART"].params.update(val.params)
            first, second = ev.to_ical(), ev.to_ical()
            res.count(("raw zoned value", npar, str(dtv.tzinfo)), nontrivial=npar > 0)
            want = "TZID=" + str(dtv.tzinfo)
            lines = [ln for ln in first.decode().replace("\r\n ", "").split("\r\n") if ln.startswith(("X-WHEN", "DTSTART"))]
            if first != second or not all(want in ln and all(("%s=%s" % (k, v)) in ln for k, v in val.params.items()
                                                              if k != "TZID") for ln in lines):
                res.fail("C10: a raw zoned date-time with parameters of its own serialises differently the first and the "
                         "second time, or without its zone or a parameter", {"params": npar, "zone": str(dtv.tzinfo)},
                         observed=[first.decode(), second.decode()])
    # ---- hash seed experiment
    hashes = {}
    for seed in ([0, 1, 2, 3, 4, 5, 6, 7] if ctx.big else [0, 1, 2, 3]):
        env = dict(os.environ)
        env["PYTHONHASHSEED"] = str(seed)
        p = subprocess.run([sys.executable, "-c", SCRIPT], capture_output=True, text=True, env=env, timeout=600)
        hashes[seed] = p.stdout.strip() or ("error: " + p.stderr.strip()[-200:])
        res.evaluations += 1
    res.extra["hash_seed_experiment"] = hashes
    if len(set(hashes.values())) != 1:
        res.fail("C10: the same API script produces different bytes under different PYTHONHASHSEED values", SCRIPT, observed=hashes)
    res.sample({"tree": s1[:400], "unsorted": s_uns[:400]})


def replay(ctx, data):
    inp = data.get("input")
    print(inp)
    if isinstance(inp, dict) and "zone" in inp and "params" in inp:
        import zoneinfo
        from datetime import datetime
        import icalendar
        from icalendar.prop import vDatetime
        val = vDatetime(datetime(2020, 1, 1, 10, tzinfo=zoneinfo.ZoneInfo(inp["zone"])))
        for i in range(inp["params"]):
            val.params[["X-NOTE", "ALTREP", "X-A"][i]] = ["n", "u", "a"][i]
        ev = icalendar.Event()
        ev["X-WHEN"] = val
        print("first :", ev.to_ical().decode())
        print("second:", ev.to_ical().decode())
    elif isinstance(inp, str) and inp.startswith("BEGIN:"):
        import icalendar
        for c in icalendar.Calendar.from_ical(inp, multiple=True):
            print(c.to_ical().decode())
