#!/bin/bash
# usage: tools/run_all.sh <seed> [tier]   -- every claimed check once, 6 at a time; prints one summary line per check
cd "$(dirname "$0")/.."
SEED=${1:-0}; TIER=${2:-quick}
PROPS=$(python3 -c "import json;print(' '.join(c['property_id'] for c in json.load(open('MANIFEST.json'))['checks']))")
mkdir -p build/runall
printf '%s\n' $PROPS | xargs -P 6 -I{} bash -c "VERIF_SEED=$SEED ./check {} --tier $TIER > build/runall/{}_$SEED.log 2>&1; echo \"{} rc=\$? \$(grep -v '^KNOWN' build/runall/{}_$SEED.log | tail -1 | cut -c1-160)\""
