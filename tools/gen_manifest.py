#!/usr/bin/env python3
"""Writes /verif/MANIFEST.json from the table below (kept here so the manifest stays valid
and in step with what is actually built)."""
import json
import os

VERIF = os.path.dirname(os.path.dirname(os.path.abspath(__file__)))

NOTE_COMMON = ("Trusted: Coq 8.16.1 kernel (+vm_compute, no native_compute); tools/translate.py; the correspondence "
               "harness; extraction (ExtrOcamlBasic only, no Extract Constant) + OCaml 4.13.1; hand-written Gallina "
               "models of CPython built-ins. Print Assumptions output of every property theorem is copied into the "
               "evidence file on each run. ")

CHECKS = {
    "C06": dict(
        text=("Theorems in coq/Props/C06.v, for ALL code-point lists without LF and of any length: the physical "
              "lines of foldline(l) are a first segment and then exactly one added SPACE plus the next segment, the "
              "segments concatenate to l (no character split or lost), every physical line has <= 75 octets, the "
              "library's unfold regex and the RFC unfolding both restore l, and the ASCII fast path equals the "
              "general path. The constants 75 and CRLF-SPACE are regenerated from parser.py on every run; the "
              "algorithmic model is tied to parser.foldline / Contentline.to_ical / from_ical by a correspondence "
              "run (every ASCII length 0-400, every alignment of 2/3/4-octet characters against the boundary, "
              "SP/TAB/CR at the fold point, random mixes) and the property oracle is also run directly on "
              "Component.to_ical output."),
        note=NOTE_COMMON + "Modelled, not verified: str.encode('utf-8') length (ulen), the regex uFOLD as a scanner.",
        technique="Rocq proof by induction over the line with the running octet count as invariant; model tied by "
                  "translator (constants) + differential correspondence (extracted OCaml model vs implementation)",
        design="6/C06"),
    "C07": dict(
        text=("Theorems in coq/Props/C07.v for ALL code-point strings of any length: (C07_direct) if s does not "
              "contain backslash+'n' then vText.from_ical(vText(s).to_ical()) = norm(s); (C07_line) if s contains "
              "none of \\n \\\\ \\, \\; %2C %3A %3B %5C then the value read back from a content line "
              "(escape_char, escape_string, unescape_string, unescape_char) is norm(s). Both follow from reflective "
              "certificates (21 and 1856 product states) for the replace chains REGENERATED from parser.py on every "
              "run, checked by a checker whose soundness is proved once by induction on the input "
              "(Proofs/ChainProofs.bisim_sound); reordering, dropping or altering a replace changes the obligation. "
              "Outside the guards the property is refuted in Coq with witnesses (C07_*_refuted) = open known "
              "findings C07-F1..F3. The CATEGORIES clause and the well-escapedness clause are so far decided by "
              "correspondence + direct oracle only (partial). Model tied to the code by translator (chains) and "
              "correspondence of leaf functions and of the three end-to-end paths on all strings of length <= 3 (4 "
              "thorough) over the 14-symbol critical alphabet plus random long Unicode strings."),
        note=NOTE_COMMON + "Modelled, not verified: str.replace as the streaming stage machine of Lib/Chain.v; the "
             "splitting of a content line into name/params/value (Contentline.parts) is covered by correspondence "
             "here and by C05's model.",
        technique="Rocq proof by reflective certificate: verified product-state bisimulation checker for replace "
                  "chains + unverified explorer; chains regenerated from source; differential correspondence",
        design="6/C07, 3.1"),
}

PENDING_REASON = "check not built yet in this session (planned as a Rocq proof + correspondence, see DESIGN.md section 6)"


def load_fragments():
    """tools/manifest.d/Cxx.json: {"text":..., "note":..., "technique":..., "design":...} (note is appended to NOTE_COMMON)"""
    d = os.path.join(VERIF, "tools", "manifest.d")
    if os.path.isdir(d):
        for f in sorted(os.listdir(d)):
            if f.endswith(".json"):
                c = json.load(open(os.path.join(d, f)))
                c["note"] = NOTE_COMMON + c.get("note", "")
                CHECKS[f[:-5]] = c


def main():
    load_fragments()
    props = [json.loads(l)["id"] for l in open(os.path.join(VERIF, "properties.jsonl"))]
    checks = []
    for pid in props:
        if pid not in CHECKS:
            continue
        c = CHECKS[pid]
        checks.append({
            "property_id": pid,
            "quick_cmd": f"./check {pid} --tier quick",
            "thorough_cmd": f"./check {pid} --tier thorough",
            "evidence_file": f"/verif/evidence/{pid}.json",
            "replay_cmd_template": f"./check {pid} --replay {{path}}",
            "engine": "rocq",
            "level_claimed": {"category": "proof", "text": c["text"], "design_ref": "DESIGN.md " + c["design"]},
            "level_note": c["note"],
            "technique": c["technique"],
        })
    manifest = {
        "version": 1,
        "setup_cmd": "./check --setup",
        "hooks": {
            "guard": "ICALENDAR_VERIF",
            "enable": "no source hooks are needed: every observation goes through the public API; checks set "
                      "ICALENDAR_VERIF=1 and PYTHONPATH=/repo/src so that /repo's working tree is what runs",
            "baseline_off_cmd": "cd /repo && /venv/bin/python -m pytest -ra -q -p no:cacheprovider --timeout=900 "
                                "--continue-on-collection-errors",
            "source_commits": [],
            "add_only": True,
        },
        "engines": [{
            "name": "rocq", "path": "/verif/coq",
            "serves_properties": [c["property_id"] for c in checks],
            "kind_free_text": "Coq 8.16.1 development: Gen/ (regenerated from /repo by tools/translate.py), Model/ "
                              "(executable Gallina), Proofs/, Props/ (property theorems + Print Assumptions), "
                              "Extract/ (OCaml driver used by the correspondence harness tools/harness)"}],
        "checks": checks,
        "not_applicable": [{"property_id": p, "reason": PENDING_REASON} for p in props if p not in CHECKS],
        "notes": "Every check: regenerate Gen from /repo, make the proof cone, compile Props/<id>.v for Print "
                 "Assumptions, run the correspondence and the direct property oracle, print KNOWN-FINDING lines for "
                 "open entries of known_findings.json, VIOLATION otherwise. See DESIGN.md.",
    }
    with open(os.path.join(VERIF, "MANIFEST.json"), "w") as f:
        json.dump(manifest, f, indent=1)
        f.write("\n")


if __name__ == "__main__":
    main()
