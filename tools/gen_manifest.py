#!/usr/bin/env python3
"""Writes /verif/MANIFEST.json from the table below (kept here so the manifest stays valid
and in step with what is actually built)."""
import json
import os

VERIF = os.path.dirname(os.path.dirname(os.path.abspath(__file__)))

NOTE_COMMON = ("Trusted: Coq 8.16.1 kernel (+vm_compute, no native_compute); tools/translate.py; the correspondence "
               "harness; extraction (ExtrOcamlBasic only, no Extract Constant) + OCaml 4.13.1; hand-written Gallina "
               "models of CPython built-ins. Print Assumptions output of every property theorem is copied into the "
               "evidence file on each run. ")

CHECKS = {}      # filled from tools/manifest.d/*.json

PENDING_REASON = "check not built yet in this session (planned as a Rocq proof + correspondence, see DESIGN.md section 6)"


def load_fragments():
    """tools/manifest.d/Cxx.json: {"text":..., "note":..., "technique":..., "design":...} (note is appended to NOTE_COMMON)"""
    d = os.path.join(VERIF, "tools", "manifest.d")
    if os.path.isdir(d):
        for f in sorted(os.listdir(d)):
            if f.endswith(".json"):
                c = json.load(open(os.path.join(d, f)))
                c["note"] = NOTE_COMMON + c.get("note", "")
                CHECKS[f[:-5]] = c


def main():
    load_fragments()
    props = [json.loads(l)["id"] for l in open(os.path.join(VERIF, "properties.jsonl"))]
    checks = []
    for pid in props:
        if pid not in CHECKS:
            continue
        c = CHECKS[pid]
        checks.append({
            "property_id": pid,
            "quick_cmd": f"./check {pid} --tier quick",
            "thorough_cmd": f"./check {pid} --tier thorough",
            "evidence_file": f"/verif/evidence/{pid}.json",
            "replay_cmd_template": f"./check {pid} --replay {{path}}",
            "engine": "rocq",
            "level_claimed": {"category": "proof", "text": c["text"], "design_ref": "DESIGN.md " + c["design"]},
            "level_note": c["note"],
            "technique": c["technique"],
        })
    manifest = {
        "version": 1,
        "setup_cmd": "./check --setup",
        "hooks": {
            "guard": "ICALENDAR_VERIF",
            "enable": "no source hooks are needed: every observation goes through the public API; checks set "
                      "ICALENDAR_VERIF=1 and PYTHONPATH=/repo/src so that /repo's working tree is what runs",
            "baseline_off_cmd": "cd /repo && /venv/bin/python -m pytest -ra -q -p no:cacheprovider --timeout=900 "
                                "--continue-on-collection-errors",
            "source_commits": [],
            "add_only": True,
        },
        "engines": [{
            "name": "rocq", "path": "/verif/coq",
            "serves_properties": [c["property_id"] for c in checks],
            "kind_free_text": "Coq 8.16.1 development: Gen/ (regenerated from /repo by tools/translate.py), Model/ "
                              "(executable Gallina), Proofs/, Props/ (property theorems + Print Assumptions), "
                              "Extract/ (OCaml driver used by the correspondence harness tools/harness)"}],
        "checks": checks,
        "not_applicable": [{"property_id": p, "reason": PENDING_REASON} for p in props if p not in CHECKS],
        "notes": "Every check: regenerate Gen from /repo, make the proof cone, compile Props/<id>.v for Print "
                 "Assumptions, run the correspondence and the direct property oracle, print KNOWN-FINDING lines for "
                 "open entries of known_findings.json, VIOLATION otherwise. See DESIGN.md.",
    }
    with open(os.path.join(VERIF, "MANIFEST.json"), "w") as f:
        json.dump(manifest, f, indent=1)
        f.write("\n")


if __name__ == "__main__":
    main()
