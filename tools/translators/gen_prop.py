"""C03 part of the translator: data-like source of icalendar/prop.py that the typed value codec
models depend on  ->  coq/Gen/Gen_prop.v

  DURATION_REGEX, WEEKDAY_RULE   exact-literal obligation (Model/CodecDur.dur_match and
                                  Model/CodecMisc.weekday_match are hand models of these literals)
  vWeekday.week_days, vFrequency.frequencies, vBoolean.BOOL_MAP
                                  CaselessDict({...}) literals -> association lists, keys upper-cased
                                  exactly as CaselessDict.__init__ does
  fingerprints                    of every function with a hand model in Model/Codec*.v

Fails closed (tie broken) on any other source shape.  (The recurrence-rule tables of the same
module belong to gen_recur.py / Gen_recur.v.)"""
import ast

import translate as T

OUTPUT = "Gen_prop.v"

DURATION_REGEX_MODELLED = (r'([-+]?)P(?:(\d+)W)?(?:(\d+)D)?'
                           r'(?:T(?:(\d+)H)?(?:(\d+)M)?(?:(\d+)S)?)?$')
WEEKDAY_RULE_MODELLED = (r'(?P<signal>[+-]?)(?P<relative>[\d]{0,2})'
                         r'(?P<weekday>[\w]{2})$')

HAND_MODELLED = {
    "vBinary": ("__init__", "to_ical", "from_ical"),
    "vBoolean": ("to_ical", "from_ical"),
    "vCalAddress": ("__new__", "to_ical", "from_ical"),
    "vFloat": ("to_ical", "from_ical"),
    "vInt": ("to_ical", "from_ical"),
    "vDDDTypes": ("to_ical", "from_ical"),
    "vDate": ("to_ical", "from_ical"),
    "vDatetime": ("to_ical", "from_ical"),
    "vDuration": ("to_ical", "from_ical"),
    "vPeriod": ("__init__", "to_ical", "from_ical"),
    "vWeekday": ("__new__", "to_ical", "from_ical"),
    "vFrequency": ("__new__", "to_ical", "from_ical"),
    "vMonth": ("__new__", "to_ical", "from_ical", "__str__"),
    "vTime": ("__init__", "to_ical", "from_ical"),
    "vUri": ("__new__", "to_ical", "from_ical"),
    "vGeo": ("__init__", "to_ical", "from_ical"),
    "vUTCOffset": ("to_ical", "from_ical"),
}


def regex_literal(m, node):
    """re.compile(<str literal>), no flags -> the pattern"""
    if not (isinstance(node, ast.Call) and isinstance(node.func, ast.Attribute)
            and node.func.attr == "compile" and isinstance(node.func.value, ast.Name)
            and node.func.value.id == "re" and len(node.args) == 1 and not node.keywords):
        m.fail(node, "expected re.compile(<literal>) without flags")
    return T.const(m, node.args[0], (str,))


def caseless_table(m, node, what, val_types):
    """CaselessDict({const: const, ...}) -> [(KEY, value)] in source order, keys upper-cased"""
    if not (isinstance(node, ast.Call) and isinstance(node.func, ast.Name) and node.func.id == "CaselessDict"
            and len(node.args) == 1 and not node.keywords and isinstance(node.args[0], ast.Dict)):
        m.fail(node, f"{what}: expected CaselessDict({{...}}) of constants")
    out = []
    seen = set()
    for k, v in zip(node.args[0].keys, node.args[0].values):
        if k is None:
            m.fail(node, f"{what}: dict unpacking")
        key = T.const(m, k, (str,))
        if not key.isascii():
            m.fail(k, f"{what}: non-ASCII key")
        if not (isinstance(v, ast.Constant) and type(v.value) in val_types):
            m.fail(v, f"{what}: value is not a constant of {val_types}")
        ku = key.upper()
        if ku in seen:
            m.fail(k, f"{what}: keys collide after upper-casing")
        seen.add(ku)
        out.append((ku, v.value))
    if not out:
        m.fail(node, f"{what}: empty table")
    return out


def class_assign(m, cls, name):
    for n in cls.body:
        if isinstance(n, ast.Assign) and len(n.targets) == 1 and isinstance(n.targets[0], ast.Name) \
                and n.targets[0].id == name:
            return n.value
    m.fail(cls, f"{cls.name}.{name}: assignment not found")


def generate(srcdir, fps):
    m = T.Mod(srcdir, "icalendar/prop.py")
    out = [T.HEADER.format(src=m.rel)]

    for name, want in (("DURATION_REGEX", DURATION_REGEX_MODELLED), ("WEEKDAY_RULE", WEEKDAY_RULE_MODELLED)):
        node = m.assign(name)
        got = regex_literal(m, node)
        if got != want:
            m.fail(node, f"{name}: regex literal {got!r} is not the modelled literal {want!r}")
        out.append(f"(* {name}: literal equality with the hand-modelled regex checked *)\n")
        out.append(f"Definition {name}_literal : str := {T.coq_str(got)}.\n\n")

    wd = caseless_table(m, class_assign(m, m.klass("vWeekday"), "week_days"), "vWeekday.week_days", (int,))
    out.append("Definition week_days : list (str * Z) :=\n  ["
               + ";\n   ".join(f"({T.coq_str(k)}, {v}%Z)" for k, v in wd) + "].\n\n")

    fr = caseless_table(m, class_assign(m, m.klass("vFrequency"), "frequencies"), "vFrequency.frequencies", (str,))
    out.append("Definition frequencies : list (str * str) :=\n  " + T.coq_pairs(fr) + ".\n\n")

    bm = caseless_table(m, class_assign(m, m.klass("vBoolean"), "BOOL_MAP"), "vBoolean.BOOL_MAP", (bool,))
    out.append("Definition BOOL_MAP : list (str * bool) :=\n  ["
               + ";\n   ".join(f"({T.coq_str(k)}, {'true' if v else 'false'})" for k, v in bm) + "].\n")

    for cname, meths in HAND_MODELLED.items():
        k = m.klass(cname)
        for meth in meths:
            fps[f"prop.{cname}.{meth}"] = T.fingerprint(m.func(meth, k))
    return OUTPUT, "".join(out)
generate.OUTPUT = OUTPUT
