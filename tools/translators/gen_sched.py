"""Translator of the schedule area (C14, C15, C16): cal.py / alarms.py / tools.py -> coq/Gen/Gen_sched.v

Emitted (data-like source only, fail closed on any other shape):
  * Event/Todo/Journal/Alarm `exclusive` and `required` tuples;
  * the property name, value attribute and accepted classes of every create_single_property(...)
    used by the hand model (Event.DTSTART/DTEND, Todo.DTSTART/DUE, Journal.DTSTART, Alarm.TRIGGER);
  * the exception classes of cal.py / alarms.py with their base class (the model's error tags);
  * the literal the RELATED parameter is compared with in Alarms.add_alarm and Alarm.triggers.
Fingerprints are recorded for every function that has a hand model in Model/StartEnd.v or
Model/Alarm.v.
"""
import ast

import translate as T

OUTPUT = "Gen_sched.v"


def class_tuple(m, k, name, default=None):
    """class-level `name = ('A', 'B', ...)` -> list of str"""
    node = None
    for n in k.body:
        if isinstance(n, ast.Assign) and len(n.targets) == 1 and isinstance(n.targets[0], ast.Name) \
                and n.targets[0].id == name:
            node = n.value
    if node is None:
        if default is not None:
            return default
        m.fail(k, f"{k.name}.{name}: assignment not found")
    if not isinstance(node, ast.Tuple):
        m.fail(node, f"{k.name}.{name}: expected a tuple literal")
    return [T.const(m, e, str) for e in node.elts]


def single_property(m, k, attr):
    """`attr = create_single_property("NAME", "dt", (datetime, date), ...)` -> (NAME, value_attr, [class names])"""
    node = None
    for n in k.body:
        if isinstance(n, ast.Assign) and len(n.targets) == 1 and isinstance(n.targets[0], ast.Name) \
                and n.targets[0].id == attr:
            node = n.value
    if node is None:
        m.fail(k, f"{k.name}.{attr}: assignment not found")
    if not (isinstance(node, ast.Call) and isinstance(node.func, ast.Name) and node.func.id == "create_single_property"
            and len(node.args) >= 5 and not any(kw.arg == "vProp" for kw in node.keywords) and len(node.args) <= 5):
        m.fail(node, f"{k.name}.{attr}: expected create_single_property(name, attr, types, type_def, doc)")
    name = T.const(m, node.args[0], str)
    vattr = T.const(m, node.args[1], str)
    types = node.args[2]
    if not (isinstance(types, ast.Tuple) and all(isinstance(e, ast.Name) for e in types.elts)):
        m.fail(node, f"{k.name}.{attr}: value_type is not a tuple of class names")
    return name, vattr, [e.id for e in types.elts]


def funcs_fp(m, name, within=None):
    """fingerprint of all defs called `name` in a body (a property has getter and setter of the same name)"""
    body = (within or m.tree).body
    found = [n for n in body if isinstance(n, ast.FunctionDef) and n.name == name]
    if not found:
        raise T.TieBroken(m.rel, 0, f"function {name} not found")
    return "+".join(T.fingerprint(n) for n in found)


def nested_fp(m, outer, names):
    fn = m.func(outer)
    out = {}
    for n in fn.body:
        if isinstance(n, ast.FunctionDef) and n.name in names:
            out[n.name] = T.fingerprint(n)
    for want in names:
        if want not in out:
            m.fail(fn, f"{outer}: nested function {want} not found")
    return out


def exceptions(m, names):
    out = []
    for nm in names:
        k = m.klass(nm)
        if len(k.bases) != 1 or not isinstance(k.bases[0], ast.Name):
            m.fail(k, f"exception class {nm}: expected exactly one named base class")
        for st in k.body:
            if not (isinstance(st, ast.Expr) and isinstance(st.value, ast.Constant)) and not isinstance(st, ast.Pass):
                m.fail(st, f"exception class {nm}: body is not just a docstring")
        out.append((nm, k.bases[0].id))
    return out


def related_literals(m, fn, what):
    """every comparison `<...>.TRIGGER_RELATED == <const>` inside fn -> list of the constants"""
    out = []
    for n in ast.walk(fn):
        if isinstance(n, ast.Compare) and isinstance(n.left, ast.Attribute) and n.left.attr == "TRIGGER_RELATED":
            if len(n.ops) != 1 or not isinstance(n.ops[0], ast.Eq):
                m.fail(n, f"{what}: TRIGGER_RELATED is not compared with ==")
            out.append(T.const(m, n.comparators[0], str))
    if len(out) != 1:
        m.fail(fn, f"{what}: expected exactly one comparison of TRIGGER_RELATED with a literal")
    return out[0]


def generate(srcdir, fps):
    cal = T.Mod(srcdir, "icalendar/cal.py")
    alarms = T.Mod(srcdir, "icalendar/alarms.py")
    tools = T.Mod(srcdir, "icalendar/tools.py")
    out = [T.HEADER.format(src="icalendar/cal.py, icalendar/alarms.py, icalendar/tools.py")]

    ev, todo, jour, alarm, comp = (cal.klass(n) for n in ("Event", "Todo", "Journal", "Alarm", "Component"))
    for k in (ev, todo, jour, alarm):
        for tup in ("exclusive", "required"):
            vals = class_tuple(cal, k, tup, default=class_tuple(cal, comp, tup))
            out.append(f"Definition {k.name}_{tup} : list str := {T.coq_strlist(vals)}.\n")
    out.append("\n")

    # the single properties the model relies on; (name, value attribute, accepted classes) are emitted and the
    # model's isinstance tests are stated over these lists
    props = [(ev, "DTSTART"), (ev, "DTEND"), (todo, "DTSTART"), (todo, "DUE"), (jour, "DTSTART"), (alarm, "TRIGGER")]
    for k, attr in props:
        name, vattr, types = single_property(cal, k, attr)
        if name != attr:
            cal.fail(k, f"{k.name}.{attr} is bound to the property {name!r}")
        if vattr != "dt":
            cal.fail(k, f"{k.name}.{attr}: value attribute {vattr!r} is not the modelled 'dt'")
        for ty in types:
            if ty not in ("datetime", "date", "timedelta"):
                cal.fail(k, f"{k.name}.{attr}: value class {ty} not modelled")
        out.append(f"Definition {k.name}_{attr}_types : list str := {T.coq_strlist(types)}.\n")
    out.append("\n")

    # DURATION = property(_get_duration, _set_duration, _del_duration, ...)
    for k in (ev, todo, alarm):
        node = None
        for n in k.body:
            if isinstance(n, ast.Assign) and len(n.targets) == 1 and isinstance(n.targets[0], ast.Name) \
                    and n.targets[0].id == "DURATION":
                node = n.value
        if not (isinstance(node, ast.Call) and isinstance(node.func, ast.Name) and node.func.id == "property"
                and [getattr(a, "id", None) for a in node.args[:3]] == ["_get_duration", "_set_duration", "_del_duration"]):
            cal.fail(k, f"{k.name}.DURATION is not property(_get_duration, _set_duration, _del_duration, ...)")
    # Journal: `end = start`
    node = None
    for n in jour.body:
        if isinstance(n, ast.Assign) and len(n.targets) == 1 and isinstance(n.targets[0], ast.Name) and n.targets[0].id == "end":
            node = n.value
    if not (isinstance(node, ast.Name) and node.id == "start"):
        cal.fail(jour, "Journal.end is not `end = start`")

    # exception classes (error tags of the model)
    excs = exceptions(cal, ["InvalidCalendar", "IncompleteComponent"]) + \
        exceptions(alarms, ["IncompleteAlarmInformation", "ComponentStartMissing", "ComponentEndMissing",
                            "LocalTimezoneMissing"])
    want = {"InvalidCalendar": "ValueError", "IncompleteComponent": "ValueError",
            "IncompleteAlarmInformation": "ValueError", "ComponentStartMissing": "IncompleteAlarmInformation",
            "ComponentEndMissing": "IncompleteAlarmInformation", "LocalTimezoneMissing": "IncompleteAlarmInformation"}
    for nm, base in excs:
        if want[nm] != base:
            cal.fail(cal.tree, f"exception {nm} derives from {base}, the model assumes {want[nm]}")
    out.append("Definition sched_exceptions : list (str * str) :=\n  " + T.coq_pairs(excs) + ".\n\n")

    # RELATED literal
    ak = alarms.klass("Alarms")
    lit1 = related_literals(alarms, alarms.func("add_alarm", ak), "Alarms.add_alarm")
    lit2 = related_literals(cal, cal.func("triggers", alarm), "Alarm.triggers")
    out.append(f"Definition related_start_literal : str := {T.coq_str(lit1)}.\n")
    out.append(f"Definition triggers_related_start_literal : str := {T.coq_str(lit2)}.\n")
    # default of TRIGGER_RELATED: params.get("RELATED", <const>)
    tr = [n for n in alarm.body if isinstance(n, ast.FunctionDef) and n.name == "TRIGGER_RELATED"][0]
    defaults = []
    for n in ast.walk(tr):
        if isinstance(n, ast.Return) and isinstance(n.value, ast.Constant):
            defaults.append(n.value.value)
        if isinstance(n, ast.Call) and isinstance(n.func, ast.Attribute) and n.func.attr == "get" and len(n.args) == 2 \
                and isinstance(n.args[0], ast.Constant) and n.args[0].value == "RELATED":
            defaults.append(T.const(cal, n.args[1], str))
    if len(defaults) != 2 or defaults[0] != defaults[1]:
        cal.fail(tr, "Alarm.TRIGGER_RELATED: expected `return <lit>` and `params.get('RELATED', <lit>)` with one literal")
    out.append(f"Definition related_default : str := {T.coq_str(defaults[0])}.\n")

    # ------------------------------------------------------------------ fingerprints
    fps["cal.create_single_property"] = T.fingerprint(cal.func("create_single_property"))
    fps["cal.create_utc_property"] = T.fingerprint(cal.func("create_utc_property"))
    for f in ("_get_duration", "_set_duration", "_del_duration"):
        fps[f"cal.{f}"] = T.fingerprint(cal.func(f))
    for k, meths in ((ev, ("_get_start_end_duration", "start", "end", "duration")),
                     (todo, ("_get_start_end_duration", "start", "end", "duration")),
                     (jour, ("start", "duration")),
                     (alarm, ("REPEAT", "TRIGGER_RELATED", "triggers")),
                     (comp, ("add", "_encode", "is_thunderbird", "walk", "_walk", "add_component"))):
        for meth in meths:
            fps[f"cal.{k.name}.{meth}"] = funcs_fp(cal, meth, k)
    at = alarms.klass("AlarmTime")
    for meth in ("__init__", "acknowledged", "is_active", "trigger"):
        fps[f"alarms.AlarmTime.{meth}"] = funcs_fp(alarms, meth, at)
    for meth in ("__init__", "add_component", "set_parent", "add_alarm", "set_start", "set_end", "_add",
                 "acknowledge_until", "snooze_until", "set_local_timezone", "times", "_repeat", "_alarm_time",
                 "_get_absolute_alarm_times", "_get_start_alarm_times", "_get_end_alarm_times", "active"):
        fps[f"alarms.Alarms.{meth}"] = funcs_fp(alarms, meth, ak)
    for f in ("is_date", "is_datetime", "to_datetime", "is_pytz", "is_pytz_dt", "normalize_pytz"):
        fps[f"tools.{f}"] = T.fingerprint(tools.func(f))
    return OUTPUT, "".join(out)


# translate.py looks the output name up on the generator function when it fails closed (the module is
# not in sys.modules), so that the per-file tie status and the baseline fallback find "Gen_sched.v"
generate.OUTPUT = OUTPUT
