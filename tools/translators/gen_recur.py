"""Translator for the recurrence-rule tables of icalendar/prop.py  ->  coq/Gen/Gen_recur.v  (C19).

Reads (fail closed on any other shape):
  vRecur.canonical_order   tuple of str constants
  vRecur.types             CaselessDict({<str>: <class name>, ...})
  vWeekday.week_days       CaselessDict({<str>: <int>, ...})
  vFrequency.frequencies   CaselessDict({<str>: <str>, ...})      (only membership is used by the code)
  vSkip                    Enum members  NAME = "<str>"
  WEEKDAY_RULE             re.compile(<literal>): must equal the literal that Model/Recur.v models
and records the fingerprints of every hand-modelled function of the recurrence codec."""
import ast

import translate as T

OUTPUT = "Gen_recur.v"

WEEKDAY_RULE_LITERAL = r'(?P<signal>[+-]?)(?P<relative>[\d]{0,2})(?P<weekday>[\w]{2})$'
KNOWN_CLASSES = ("vInt", "vMonth", "vDDDTypes", "vWeekday", "vFrequency", "vSkip", "vText")

HAND_MODELLED = {
    "vRecur": ("__init__", "to_ical", "parse_type", "from_ical"),
    "vWeekday": ("__new__", "to_ical", "from_ical"),
    "vFrequency": ("__new__", "to_ical", "from_ical"),
    "vMonth": ("__new__", "to_ical", "from_ical", "__str__"),
    "vInt": ("__new__", "to_ical", "from_ical"),
    "vText": ("__new__", "to_ical", "from_ical"),
    "vDDDTypes": ("__init__", "to_ical", "from_ical"),
    "vDate": ("to_ical", "from_ical"),
    "vDatetime": ("to_ical", "from_ical"),
}


def caseless_dict_literal(m, node, what):
    """CaselessDict({k: v, ...}) -> [(KEY, value node)] with the keys folded as the constructor does"""
    if not (isinstance(node, ast.Call) and isinstance(node.func, ast.Name) and node.func.id == "CaselessDict"
            and len(node.args) == 1 and not node.keywords and isinstance(node.args[0], ast.Dict)):
        m.fail(node, f"{what}: expected CaselessDict({{...}}) of constants")
    out = []
    seen = set()
    for k, v in zip(node.args[0].keys, node.args[0].values):
        if k is None:
            m.fail(node, f"{what}: dict unpacking not supported")
        key = T.const(m, k, str)
        if not key.isascii():
            m.fail(k, f"{what}: non-ASCII key")
        key = key.upper()
        if key in seen:
            m.fail(k, f"{what}: keys {key!r} collide after upper-casing")
        seen.add(key)
        out.append((key, v))
    return out


def generate(srcdir, fps):
    m = T.Mod(srcdir, "icalendar/prop.py")
    out = [T.HEADER.format(src=m.rel)]

    vrecur = m.klass("vRecur")
    node = m.assign("canonical_order", vrecur)
    if not isinstance(node, ast.Tuple) or not node.elts:
        m.fail(node, "vRecur.canonical_order: expected a non-empty tuple of str constants")
    order = [T.const(m, e, str) for e in node.elts]
    for name in order:
        if not name.isascii() or name != name.upper():
            m.fail(node, f"vRecur.canonical_order: {name!r} is not an upper-case ASCII name")
    out.append(f"Definition recur_canonical_order : list str :=\n  {T.coq_strlist(order)}.\n\n")

    types = caseless_dict_literal(m, m.assign("types", vrecur), "vRecur.types")
    pairs = []
    for key, v in types:
        if not (isinstance(v, ast.Name) and v.id in KNOWN_CLASSES):
            m.fail(v, f"vRecur.types[{key!r}]: value class is not one of {KNOWN_CLASSES}")
        pairs.append((key, v.id))
    out.append("(* part name -> name of the value class *)\n"
               f"Definition recur_types : list (str * str) :=\n  {T.coq_pairs(pairs)}.\n\n")

    vweekday = m.klass("vWeekday")
    days = caseless_dict_literal(m, m.assign("week_days", vweekday), "vWeekday.week_days")
    items = []
    for key, v in days:
        n = T.const(m, v, int)
        items.append(f"({T.coq_str(key)}, {n}%Z)")
    out.append("Definition weekday_table : list (str * Z) :=\n  [" + ";\n   ".join(items) + "].\n\n")

    vfreq = m.klass("vFrequency")
    freqs = caseless_dict_literal(m, m.assign("frequencies", vfreq), "vFrequency.frequencies")
    for key, v in freqs:
        T.const(m, v, str)
    out.append(f"Definition frequency_names : list str :=\n  {T.coq_strlist([k for k, _ in freqs])}.\n\n")

    vskip = m.klass("vSkip")
    bases = [b.id for b in vskip.bases if isinstance(b, ast.Name)]
    if bases != ["vText", "Enum"]:
        m.fail(vskip, f"vSkip: bases {bases} are not (vText, Enum)")
    skips = []
    for st in vskip.body:
        if isinstance(st, ast.Expr) and isinstance(st.value, ast.Constant) and isinstance(st.value.value, str):
            continue
        if isinstance(st, ast.Assign):
            if not (len(st.targets) == 1 and isinstance(st.targets[0], ast.Name)):
                m.fail(st, "vSkip: unexpected assignment")
            skips.append(T.const(m, st.value, str))
            continue
        if isinstance(st, ast.FunctionDef) and st.name == "__reduce_ex__":
            continue
        m.fail(st, "vSkip: unexpected class member")
    if not skips:
        m.fail(vskip, "vSkip: no members")
    out.append(f"Definition skip_values : list str :=\n  {T.coq_strlist(skips)}.\n\n")

    node = m.assign("WEEKDAY_RULE")
    got = T.regex_literal(m, node)
    if got != WEEKDAY_RULE_LITERAL:
        m.fail(node, f"WEEKDAY_RULE: regex literal {got!r} is not the modelled literal {WEEKDAY_RULE_LITERAL!r}")
    out.append("(* WEEKDAY_RULE: literal equality with the regex modelled by Model.Recur.weekday_match checked. *)\n")

    for cname, meths in HAND_MODELLED.items():
        k = m.klass(cname)
        for meth in meths:
            fps[f"prop.{cname}.{meth}"] = T.fingerprint(m.func(meth, k))
    fps["prop.vSkip"] = T.fingerprint(vskip)
    # the ordered caseless map under vRecur (hand model Model/Caseless.v, properties C17 and C19)
    mc = T.Mod(srcdir, "icalendar/caselessdict.py")
    for fn in ("canonsort_keys", "canonsort_items"):
        fps[f"caselessdict.{fn}"] = T.fingerprint(mc.func(fn))
    kc = mc.klass("CaselessDict")
    for meth in ("__init__", "__getitem__", "__setitem__", "__delitem__", "__contains__", "get", "setdefault", "pop",
                 "popitem", "has_key", "update", "copy", "__eq__", "__ne__", "sorted_keys", "sorted_items"):
        fps[f"caselessdict.CaselessDict.{meth}"] = T.fingerprint(mc.func(meth, kc))
    return OUTPUT, "".join(out)
