"""Translator for the component tables of cal.py and the type tables of prop.py -> coq/Gen/Gen_cal.v

Accepted shapes (anything else: tie broken):
  * ComponentFactory.__init__:  self['NAME'] = Class  registrations
  * each registered Component subclass: class-level `attr = <tuple/str/bool literal>` for name,
    canonical_order, required, singletons, multiple, exclusive, inclusive, ignore_exceptions; a value may
    also be `OtherClass.attr` of a class translated earlier
  * INLINE = CaselessDict({...: 1})
  * in Component.from_ical: `datetime_names = (<str literals>)`
  * in Component.add: the tuple of UTC-forced names and the list of list-exempt names
  * TypesFactory.types_map = CaselessDict({str: str}) and the `self['key'] = vClass` registrations
"""
import ast

import translate as T

OUTPUT = "Gen_cal.v"

ATTRS = ("name", "canonical_order", "required", "singletons", "multiple", "exclusive", "inclusive",
         "ignore_exceptions")
DEFAULTS = {"name": None, "canonical_order": None, "required": (), "singletons": (), "multiple": (),
            "exclusive": (), "inclusive": (), "ignore_exceptions": False}


def lit(m, node, known):
    """tuple/list of str (possibly nested one level), str, bool, None, or Class.attr reference"""
    if isinstance(node, ast.Constant) and (isinstance(node.value, (str, bool)) or node.value is None):
        return node.value
    if isinstance(node, (ast.Tuple, ast.List)):
        return tuple(lit(m, e, known) for e in node.elts)
    if isinstance(node, ast.Attribute) and isinstance(node.value, ast.Name) and node.value.id in known \
            and node.attr in ATTRS:
        return known[node.value.id][node.attr]
    m.fail(node, "expected a literal tuple/str/bool or Class.attr of an earlier component class")


def class_attrs(m, k, known):
    out = dict(DEFAULTS)
    for st in k.body:
        if isinstance(st, ast.Assign) and len(st.targets) == 1 and isinstance(st.targets[0], ast.Name) \
                and st.targets[0].id in ATTRS:
            out[st.targets[0].id] = lit(m, st.value, known)
    return out


def strs(m, node, v):
    if not (isinstance(v, tuple) and all(isinstance(x, str) for x in v)):
        m.fail(node, f"expected a tuple of strings, got {v!r}")
    return list(v)


def find_assign_in(m, fn, name):
    for n in ast.walk(fn):
        if isinstance(n, ast.Assign) and len(n.targets) == 1 and isinstance(n.targets[0], ast.Name) \
                and n.targets[0].id == name:
            return n.value
    m.fail(fn, f"assignment to {name} not found in {fn.name}")


def name_lower_in(m, fn):
    """all `name.lower() in <tuple/list of str>` / `not in` tests of a function, in source order"""
    found = []
    for n in ast.walk(fn):
        if isinstance(n, ast.Compare) and len(n.ops) == 1 and isinstance(n.ops[0], (ast.In, ast.NotIn)) \
                and isinstance(n.left, ast.Call) and isinstance(n.left.func, ast.Attribute) \
                and n.left.func.attr == "lower" and isinstance(n.left.func.value, ast.Name) \
                and n.left.func.value.id == "name" and isinstance(n.comparators[0], (ast.Tuple, ast.List)):
            found.append((n.lineno, n.col_offset, isinstance(n.ops[0], ast.NotIn),
                          [T.const(m, e, str) for e in n.comparators[0].elts]))
    found.sort()
    return found


def generate(srcdir, fps):
    m = T.Mod(srcdir, "icalendar/cal.py")
    out = [T.HEADER.format(src="icalendar/cal.py, icalendar/prop.py")]

    # ---- factory registrations
    fac = m.klass("ComponentFactory")
    init = m.func("__init__", fac)
    regs = []
    for st in init.body:
        if isinstance(st, ast.Assign) and len(st.targets) == 1 and isinstance(st.targets[0], ast.Subscript) \
                and isinstance(st.targets[0].value, ast.Name) and st.targets[0].value.id == "self":
            key = T.const(m, st.targets[0].slice, str)
            if not isinstance(st.value, ast.Name):
                m.fail(st, "factory registration must be a class name")
            regs.append((key, st.value.id))
        elif isinstance(st, ast.Expr):
            continue  # docstring / super().__init__
        else:
            m.fail(st, "ComponentFactory.__init__: unexpected statement")
    if not regs:
        m.fail(init, "no component registrations found")

    # ---- component classes, in source order (a later class may refer to an earlier one)
    known = {}
    base = class_attrs(m, m.klass("Component"), known)
    if base != DEFAULTS:
        m.fail(m.klass("Component"), f"Component base defaults changed: {base}")
    for n in m.tree.body:
        if isinstance(n, ast.ClassDef) and any(isinstance(b, ast.Name) and b.id == "Component" for b in n.bases):
            known[n.name] = class_attrs(m, n, known)
    rows = []
    for key, cname in regs:
        if cname not in known:
            m.fail(fac, f"registered class {cname} is not a direct Component subclass")
        a = known[cname]
        if a["name"] != key:
            m.fail(fac, f"factory key {key} differs from {cname}.name = {a['name']!r}")
        co = a["canonical_order"]
        co = [] if co is None else strs(m, fac, co)
        incl = a["inclusive"]
        if not (isinstance(incl, tuple) and all(isinstance(g, tuple) for g in incl)):
            m.fail(fac, f"{cname}.inclusive: expected a tuple of tuples")
        rows.append(
            "  {| cc_name := %s; cc_canonical := %s; cc_required := %s; cc_singletons := %s;\n"
            "     cc_multiple := %s; cc_exclusive := %s; cc_inclusive := [%s]; cc_ignore := %s |}" % (
                T.coq_str(key), T.coq_strlist(co), T.coq_strlist(strs(m, fac, a["required"])),
                T.coq_strlist(strs(m, fac, a["singletons"])), T.coq_strlist(strs(m, fac, a["multiple"])),
                T.coq_strlist(strs(m, fac, a["exclusive"])),
                "; ".join(T.coq_strlist(strs(m, fac, g)) for g in incl),
                "true" if a["ignore_exceptions"] is True else "false"))
    out.append("Record comp_class := { cc_name : str; cc_canonical : list str; cc_required : list str;\n"
               "  cc_singletons : list str; cc_multiple : list str; cc_exclusive : list str;\n"
               "  cc_inclusive : list (list str); cc_ignore : bool }.\n\n")
    out.append("Definition component_classes : list comp_class :=\n  [" + ";\n   ".join(r.strip() for r in rows) + "].\n\n")

    # ---- INLINE
    node = m.assign("INLINE")
    if not (isinstance(node, ast.Call) and isinstance(node.func, ast.Name) and node.func.id == "CaselessDict"
            and len(node.args) == 1 and isinstance(node.args[0], ast.Dict)):
        m.fail(node, "INLINE: expected CaselessDict({...})")
    inline = [T.const(m, k, str) for k in node.args[0].keys]
    out.append(f"Definition inline_names : list str := {T.coq_strlist(inline)}.\n")

    # ---- Component.from_ical / add
    comp = m.klass("Component")
    fi = m.func("from_ical", comp)
    dn = lit(m, find_assign_in(m, fi, "datetime_names"), known)
    out.append(f"Definition datetime_names : list str := {T.coq_strlist(strs(m, fi, dn))}.\n")
    add = m.func("add", comp)
    tests = name_lower_in(m, add)
    if len(tests) != 2 or tests[0][2] or not tests[1][2]:
        m.fail(add, "Component.add: expected `name.lower() in (utc names)` then `name.lower() not in [list-exempt names]`")
    out.append(f"Definition utc_forced_names : list str := {T.coq_strlist(tests[0][3])}.\n")
    out.append(f"Definition list_exempt_names : list str := {T.coq_strlist(tests[1][3])}.\n\n")
    for meth in ("from_ical", "add", "_encode", "property_items", "content_line", "content_lines", "to_ical",
                 "_walk", "walk", "__eq__", "add_component", "decoded", "_decode"):
        fps[f"cal.Component.{meth}"] = T.fingerprint(m.func(meth, comp))
    cal = m.klass("Calendar")
    for meth in ("get_used_tzids", "get_missing_tzids", "add_missing_timezones"):
        fps[f"cal.Calendar.{meth}"] = T.fingerprint(m.func(meth, cal))

    # ---- prop.py: types_map and registrations
    p = T.Mod(srcdir, "icalendar/prop.py")
    tf = p.klass("TypesFactory")
    tm = p.assign("types_map", tf)
    if not (isinstance(tm, ast.Call) and isinstance(tm.func, ast.Name) and tm.func.id == "CaselessDict"
            and len(tm.args) == 1 and isinstance(tm.args[0], ast.Dict)):
        p.fail(tm, "types_map: expected CaselessDict({...})")
    pairs = [(T.const(p, k, str), T.const(p, v, str)) for k, v in zip(tm.args[0].keys, tm.args[0].values)]
    merged = {}
    for k, v in pairs:      # dict literal / CaselessDict semantics: a later entry overrides, first position kept
        merged[k.upper()] = v
    pairs = list(merged.items())
    out.append("(* TypesFactory.types_map, names upper-cased as CaselessDict stores them *)\n")
    out.append("Definition types_map : list (str * str) :=\n  " + T.coq_pairs([(k.upper(), v) for k, v in pairs]) + ".\n\n")
    init = p.func("__init__", tf)
    tregs = []
    for st in init.body:
        if isinstance(st, ast.Assign) and len(st.targets) == 1 and isinstance(st.targets[0], ast.Subscript) \
                and isinstance(st.targets[0].value, ast.Name) and st.targets[0].value.id == "self":
            key = T.const(p, st.targets[0].slice, str)
            if not isinstance(st.value, ast.Name):
                p.fail(st, "type registration must be a class name")
            tregs.append((key.upper(), st.value.id))
    if not tregs:
        p.fail(init, "no type registrations found")
    out.append("(* TypesFactory registrations: type key (upper-cased) -> class name *)\n")
    out.append("Definition type_classes : list (str * str) :=\n  " + T.coq_pairs(tregs) + ".\n")
    fps["prop.TypesFactory.for_property"] = T.fingerprint(p.func("for_property", tf))
    fps["caselessdict.canonsort_keys"] = T.fingerprint(T.Mod(srcdir, "icalendar/caselessdict.py").func("canonsort_keys"))
    return OUTPUT, "".join(out)
