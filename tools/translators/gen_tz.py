"""Translator for the time zone area (C11 C12 C13): data-like source -> coq/Gen/Gen_tz.v.

Reads (fail closed on any other shape):
  cal.Timezone._from_tzinfo_skip_search   [timedelta(days=d) for d in (ints)] + [timedelta(kw=int), ...]  -> seconds
  cal.Timezone._DEFAULT_FIRST_DATE/_LAST_DATE   date(y, m, d) literals  -> seconds since 1970-01-01 (midnight)
  timezone.tzp.DEFAULT_TIMEZONE_PROVIDER        str literal
  cal.Component.add                             the tuple of lower-case names forced to UTC
  cal.*  X = create_utc_property("NAME", ...)   the names with a UTC descriptor
and records fingerprints of the hand-modelled functions of the area."""
import ast
import datetime

import translate as T

OUTPUT = "Gen_tz.v"

UNITS = {"days": 86400, "hours": 3600, "minutes": 60, "seconds": 1, "weeks": 604800}


def td_seconds(m, node):
    """timedelta(kw=int) with exactly one keyword -> seconds"""
    if not (isinstance(node, ast.Call) and isinstance(node.func, ast.Name) and node.func.id == "timedelta"
            and not node.args and len(node.keywords) == 1 and node.keywords[0].arg in UNITS):
        m.fail(node, "expected timedelta(<unit>=<int>)")
    v = T.const(m, node.keywords[0].value, int)
    return v * UNITS[node.keywords[0].arg]


def skip_list(m, node):
    if isinstance(node, ast.BinOp) and isinstance(node.op, ast.Add):
        return skip_list(m, node.left) + skip_list(m, node.right)
    if isinstance(node, ast.List):
        return [td_seconds(m, e) for e in node.elts]
    if isinstance(node, ast.ListComp):
        if len(node.generators) != 1:
            m.fail(node, "skip list: one generator expected")
        g = node.generators[0]
        if g.ifs or g.is_async or not isinstance(g.target, ast.Name) or not isinstance(g.iter, (ast.Tuple, ast.List)):
            m.fail(node, "skip list: `for x in (ints)` expected")
        var = g.target.id
        e = node.elt
        if not (isinstance(e, ast.Call) and isinstance(e.func, ast.Name) and e.func.id == "timedelta" and not e.args
                and len(e.keywords) == 1 and e.keywords[0].arg in UNITS and isinstance(e.keywords[0].value, ast.Name)
                and e.keywords[0].value.id == var):
            m.fail(node, "skip list: timedelta(<unit>=<loop variable>) expected")
        return [T.const(m, x, int) * UNITS[e.keywords[0].arg] for x in g.iter.elts]
    m.fail(node, "skip list: unsupported expression")


def date_literal(m, node):
    if not (isinstance(node, ast.Call) and isinstance(node.func, ast.Name) and node.func.id == "date"
            and len(node.args) == 3 and not node.keywords):
        m.fail(node, "expected date(y, m, d)")
    y, mo, d = (T.const(m, a, int) for a in node.args)
    try:
        return (datetime.date(y, mo, d) - datetime.date(1970, 1, 1)).days * 86400
    except ValueError:
        m.fail(node, "invalid date literal")


def utc_forced_names(m, fn):
    """`isinstance(value, datetime) and name.lower() in (<str literals>)` inside Component.add"""
    found = None
    for n in ast.walk(fn):
        if isinstance(n, ast.Compare) and len(n.ops) == 1 and isinstance(n.ops[0], ast.In) \
                and isinstance(n.left, ast.Call) and isinstance(n.left.func, ast.Attribute) \
                and n.left.func.attr == "lower" and isinstance(n.left.func.value, ast.Name) \
                and n.left.func.value.id == "name" and isinstance(n.comparators[0], ast.Tuple):
            names = [T.const(m, e, str) for e in n.comparators[0].elts]
            if found is not None:
                m.fail(n, "Component.add: more than one `name.lower() in (tuple)` test")
            found = (names, n)
    if found is None:
        m.fail(fn, "Component.add: the UTC-forced name tuple was not found")
    # the test must guard `value = tzp.localize_utc(value)`
    ok = False
    for n in ast.walk(fn):
        if isinstance(n, ast.If) and any(x is found[1] for x in ast.walk(n.test)):
            for st in n.body:
                if isinstance(st, ast.Assign) and isinstance(st.value, ast.Call) \
                        and isinstance(st.value.func, ast.Attribute) and st.value.func.attr == "localize_utc":
                    ok = True
    if not ok:
        m.fail(fn, "Component.add: the name tuple does not guard `value = tzp.localize_utc(value)`")
    return found[0]


def generate(srcdir, fps):
    m = T.Mod(srcdir, "icalendar/cal.py")
    out = [T.HEADER.format(src="icalendar/cal.py, icalendar/timezone/tzp.py")]
    tzk = m.klass("Timezone")
    skips = skip_list(m, m.assign("_from_tzinfo_skip_search", tzk))
    if not skips or any(s <= 0 for s in skips):
        m.fail(tzk, "_from_tzinfo_skip_search: empty or non-positive entries")
    out.append("Definition from_tzinfo_skips : list Z := [" + "; ".join(str(s) for s in skips) + "]%Z.\n")
    first = date_literal(m, m.assign("_DEFAULT_FIRST_DATE", tzk))
    last = date_literal(m, m.assign("_DEFAULT_LAST_DATE", tzk))
    out.append(f"Definition default_first_date : Z := ({first})%Z.\n")
    out.append(f"Definition default_last_date : Z := ({last})%Z.\n")
    ck = m.klass("Component")
    add = m.func("add", ck)
    forced = utc_forced_names(m, add)
    out.append("Definition utc_forced_names : list (list N) := " + T.coq_strlist(forced) + ".\n")
    # X = create_utc_property("NAME", ...)
    utc_props = []
    for n in ast.walk(m.tree):
        if isinstance(n, ast.Assign) and isinstance(n.value, ast.Call) and isinstance(n.value.func, ast.Name) \
                and n.value.func.id == "create_utc_property":
            if not n.value.args:
                m.fail(n, "create_utc_property without a name")
            utc_props.append(T.const(m, n.value.args[0], str))
    out.append("Definition utc_descriptor_names : list (list N) := " + T.coq_strlist(sorted(set(utc_props))) + ".\n")

    mt = T.Mod(srcdir, "icalendar/timezone/tzp.py")
    prov = T.const(mt, mt.assign("DEFAULT_TIMEZONE_PROVIDER"), str)
    out.append("Definition default_timezone_provider : list N := " + T.coq_str(prov) + ".\n")

    # fingerprints of the hand-modelled functions
    for meth in ("_extract_offsets", "_make_unique_tzname", "get_transitions", "to_tz", "from_tzinfo", "from_tzid"):
        fps[f"cal.Timezone.{meth}"] = T.fingerprint(m.func(meth, tzk))
    fps["cal.Component.add"] = T.fingerprint(add)
    fps["cal.Component.from_ical"] = T.fingerprint(m.func("from_ical", ck))
    fps["cal.create_utc_property"] = T.fingerprint(m.func("create_utc_property"))
    tk = mt.klass("TZP")
    for meth in ("cache_timezone_component", "timezone", "clean_timezone_id", "localize", "localize_utc"):
        fps[f"timezone.tzp.TZP.{meth}"] = T.fingerprint(mt.func(meth, tk))
    mp = T.Mod(srcdir, "icalendar/timezone/pytz.py")
    pk = mp.klass("PYTZ")
    for meth in ("create_timezone", "localize", "localize_utc", "timezone", "knows_timezone_id"):
        fps[f"timezone.pytz.PYTZ.{meth}"] = T.fingerprint(mp.func(meth, pk))
    mz = T.Mod(srcdir, "icalendar/timezone/zoneinfo.py")
    zk = mz.klass("ZONEINFO")
    for meth in ("create_timezone", "_create_timezone", "localize", "localize_utc", "timezone", "knows_timezone_id"):
        fps[f"timezone.zoneinfo.ZONEINFO.{meth}"] = T.fingerprint(mz.func(meth, zk))
    mi = T.Mod(srcdir, "icalendar/timezone/tzid.py")
    for fn in ("tzids_from_tzinfo", "tzid_from_tzinfo", "tzid_from_dt"):
        fps[f"timezone.tzid.{fn}"] = T.fingerprint(mi.func(fn))
    mpr = T.Mod(srcdir, "icalendar/prop.py")
    for cname, meths in (("vDatetime", ("to_ical", "from_ical")), ("vDDDTypes", ("__init__", "to_ical", "from_ical")),
                         ("vDDDLists", ("__init__", "to_ical", "from_ical")),
                         ("vPeriod", ("__init__", "to_ical", "from_ical"))):
        k = mpr.klass(cname)
        for meth in meths:
            fps[f"prop.{cname}.{meth}"] = T.fingerprint(mpr.func(meth, k))
    return OUTPUT, "".join(out)
