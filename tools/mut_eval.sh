#!/bin/bash
# usage: tools/mut_eval.sh <ID> <seed-name> <property> [more properties]
# Confirms a sub-agent's mutation (/tmp/mut/<ID>-out, worktree /tmp/mut/<ID> with the change applied): suite in the worktree,
# demo on unchanged /repo and with the patch, then runs the checks with the patch applied to /repo and restores /repo.
set -u
ID=$1; NAME=$2; shift 2
OUT=/tmp/mut/$ID-out; WT=/tmp/mut/$ID
R=${VERIF_REPO:-/repo}; V=$(cd "$(dirname "$0")/.." && pwd)
cd $R || exit 2
git diff --quiet || { echo "$R is dirty"; exit 2; }
echo "== suite in the worktree (change applied)"
(cd $WT && git diff --stat | tail -1; PYTHONPATH=$WT/src timeout 1500 /venv/bin/python -m pytest -q -p no:cacheprovider --timeout=900 --continue-on-collection-errors -q src/icalendar 2>&1 | tail -5 | grep -v "^$" | cut -c1-160)
echo "== demo on unchanged /repo"; PYTHONPATH=$R/src PYTHONHASHSEED=0 /venv/bin/python $OUT/demo.py > /tmp/mut/$ID.demo0 2>&1; echo "rc=$? $(tail -1 /tmp/mut/$ID.demo0 | cut -c1-160)"
git apply $OUT/patch.diff || { echo "patch does not apply to $R"; exit 2; }
echo "== demo with change"; PYTHONPATH=$R/src PYTHONHASHSEED=0 /venv/bin/python $OUT/demo.py > /tmp/mut/$ID.demo1 2>&1; echo "rc=$? $(tail -1 /tmp/mut/$ID.demo1 | cut -c1-160)"
rm -rf $V/build/evidence.keep; cp -r $V/evidence $V/build/evidence.keep   # evidence of a changed tree is not kept
for P in "$@"; do
  echo "== check $P with change"
  (cd $V && ./check $P --tier quick 2>&1 | grep -v '^KNOWN' | tail -2 | cut -c1-300)
done
cp $V/build/evidence.keep/*.json $V/evidence/; git checkout -- . ; git status --short | head -3
echo "== restored"
mkdir -p $V/seeded/$NAME && cp $OUT/patch.diff $OUT/demo.py $OUT/meta.json $V/seeded/$NAME/
