#!/bin/bash
# usage: seeded_eval.sh <seed-id> <property> [more properties...]
# Applies /verif/seeded/<seed-id>/patch.diff to /repo, runs the demonstration and the checks, undoes it.
set -u
ID=$1; shift
D=/verif/seeded/$ID
cd /repo || exit 2
git diff --quiet || { echo "/repo is dirty"; exit 2; }
echo "== demo on unchanged tree"; PYTHONPATH=/repo/src /venv/bin/python $D/demo.py >/tmp/demo_$ID.out 2>&1; echo "rc=$? $(tail -1 /tmp/demo_$ID.out | cut -c1-200)"
git apply $D/patch.diff || { echo "patch does not apply"; exit 2; }
echo "== demo with change"; PYTHONPATH=/repo/src /venv/bin/python $D/demo.py >/tmp/demo_$ID.out 2>&1; echo "rc=$? $(tail -1 /tmp/demo_$ID.out | cut -c1-200)"
rm -rf /verif/build/evidence.keep; cp -r /verif/evidence /verif/build/evidence.keep   # evidence of a changed tree is not kept
for P in "$@"; do
  echo "== check $P with change"
  (cd /verif && ./check $P --tier quick 2>&1 | grep -v '^KNOWN-FINDING' | tail -3 | cut -c1-400)
done
cp /verif/build/evidence.keep/*.json /verif/evidence/; git checkout -- . ; git status --short | head -3
echo "== restored"
