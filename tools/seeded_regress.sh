#!/bin/bash
# usage: tools/seeded_regress.sh [name ...]   -- every stored seeded change (seeded/Cxx-y) applied in turn: its demonstration must pass
R=${VERIF_REPO:-/repo}
# on the unchanged tree and fail with the change, and the checks named in its meta.json must report a VIOLATION with a failing input.
cd "$(dirname "$0")/.."
LIST=${@:-$(ls seeded | grep '^C')}
git -C $R diff --quiet || { echo "$R is dirty"; exit 2; }
rm -rf build/evidence.keep; cp -r evidence build/evidence.keep
for N in $LIST; do
  CHECKS=$(python3 -c "import json;print(' '.join(json.load(open('seeded/$N/meta.json')).get('confirmed_by_me',{}).get('checks',['${N%%-*}'])))")
  PYTHONPATH=$R/src PYTHONHASHSEED=0 /venv/bin/python seeded/$N/demo.py > /dev/null 2>&1; D0=$?
  git -C $R apply $PWD/seeded/$N/patch.diff || { echo "$N: patch does not apply"; continue; }
  PYTHONPATH=$R/src PYTHONHASHSEED=0 /venv/bin/python seeded/$N/demo.py > /dev/null 2>&1; D1=$?
  OUT=""
  for P in $CHECKS; do
    L=$(./check $P --tier quick 2>&1 | grep '^VIOLATION' | head -1 | cut -c1-90)
    OUT="$OUT [$P: ${L:-QUIET}]"
  done
  git -C $R checkout -- .
  echo "$N demo $D0/$D1$OUT"
done
cp build/evidence.keep/*.json evidence/
