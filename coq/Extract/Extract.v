(* Extraction of the executable model.  ExtrOcamlBasic only: its Extract Inductive
   directives (bool, option, unit, list, prod, sumbool, sumor -> OCaml types of the same
   shape) are the only ones in force; there is no Extract Constant; Z, N, positive, nat,
   ascii and string stay the extracted inductives. *)
Require Import Lib.Base Model.Dispatch Model.DispatchAll.
From Coq Require Import ExtrOcamlBasic.
Extraction Language OCaml.
Extraction "model.ml" dispatch_all.
