(* Line-oriented case runner for the extracted model.
   Each input line:  <fname> <value>      value ::= i<int> | s<cp>,<cp>,... | ( value* )
   Each output line: <value>                                                         *)
module M = Model

let rec pos_of_int n = if n = 1 then M.XH else if n land 1 = 1 then M.XI (pos_of_int (n lsr 1)) else M.XO (pos_of_int (n lsr 1))
let n_of_int n = if n = 0 then M.N0 else M.Npos (pos_of_int n)
let z_of_int n = if n = 0 then M.Z0 else if n > 0 then M.Zpos (pos_of_int n) else M.Zneg (pos_of_int (-n))
let rec int_of_pos d = function
  | M.XH -> 1
  | M.XO p -> if d > 60 then failwith "int overflow" else 2 * int_of_pos (d+1) p
  | M.XI p -> if d > 60 then failwith "int overflow" else 2 * int_of_pos (d+1) p + 1
let int_of_n = function M.N0 -> 0 | M.Npos p -> int_of_pos 0 p
let int_of_z = function M.Z0 -> 0 | M.Zpos p -> int_of_pos 0 p | M.Zneg p -> - (int_of_pos 0 p)

let parse_str (t : string) : M.n list =
  (* t = "s" followed by comma separated code points *)
  if String.length t = 1 then [] else
  List.map (fun x -> n_of_int (int_of_string x)) (String.split_on_char ',' (String.sub t 1 (String.length t - 1)))

let rec parse_val (toks : string list) : M.jv * string list =
  match toks with
  | [] -> failwith "unexpected end"
  | "(" :: rest ->
      let rec items acc toks = match toks with
        | ")" :: rest -> (M.JL (List.rev acc), rest)
        | _ -> let (v, rest) = parse_val toks in items (v :: acc) rest in
      items [] rest
  | t :: rest when String.length t > 0 && t.[0] = 'i' ->
      (M.JZ (z_of_int (int_of_string (String.sub t 1 (String.length t - 1)))), rest)
  | t :: rest when String.length t > 0 && t.[0] = 's' -> (M.JS (parse_str t), rest)
  | t :: _ -> failwith ("bad token " ^ t)

let rec print_val buf = function
  | M.JZ z -> Buffer.add_char buf 'i'; Buffer.add_string buf (string_of_int (int_of_z z))
  | M.JS s -> Buffer.add_char buf 's';
      List.iteri (fun i c -> if i > 0 then Buffer.add_char buf ','; Buffer.add_string buf (string_of_int (int_of_n c))) s
  | M.JL l -> Buffer.add_char buf '(';
      List.iter (fun v -> Buffer.add_char buf ' '; print_val buf v) l; Buffer.add_string buf " )"

let () =
  let buf = Buffer.create 65536 in
  (try
    while true do
      let line = input_line stdin in
      let toks = List.filter (fun s -> s <> "") (String.split_on_char ' ' line) in
      (match toks with
       | [] -> ()
       | fname :: rest ->
          Buffer.clear buf;
          (try
            let (v, _) = parse_val rest in
            let f = List.map (fun c -> n_of_int (Char.code c)) (List.init (String.length fname) (String.get fname)) in
            print_val buf (M.dispatch_all f v)
          with
          | Stack_overflow -> Buffer.clear buf; Buffer.add_string buf "( s101,114,114 s115,116,97,99,107 )"
          | Failure m -> Buffer.clear buf; Buffer.add_string buf ("!driver-failure " ^ m));
          print_string (Buffer.contents buf); print_newline ())
    done
  with End_of_file -> ())
