(* Serialisation seen as a bracket word (C10): the BEGIN/END lines of property_items and the tree of
   component names they denote; permutation of insertion histories.  Definitions only. *)
Require Import Lib.Base Lib.Chain Gen.Gen_parser Gen.Gen_cal Model.Text Model.Params Model.Contentline Model.Sort Model.Tree.
From Coq Require Import String Permutation.
Local Open Scope string_scope.

Inductive tok := Open (n : list N) | Close (n : list N).
Definition tok_of (it : prop_line) : list tok :=
  if str_is (fst (fst it)) "BEGIN" then [Open (snd it)]
  else if str_is (fst (fst it)) "END" then [Close (snd it)] else [].
Definition toks (items : list prop_line) : list tok := flat_map tok_of items.

Inductive shape := Node (n : list N) (kids : list shape).
Fixpoint shape_of (c : comp) : shape :=
  let '(Comp n _ subs _) := c in Node (begin_end_text n) (map shape_of subs).

Definition bstack := list (list N * list shape).
Definition battach (s : shape) (st : bstack) (done : list shape) : bstack * list shape :=
  match st with
  | [] => ([], (done ++ [s])%list)
  | (p, pk) :: st' => ((p, (pk ++ [s])%list) :: st', done)
  end.

(* a word is balanced iff this returns Some forest *)
Fixpoint unbracket (ts : list tok) (st : bstack) (done : list shape) : option (list shape) :=
  match ts with
  | [] => match st with [] => Some done | _ => None end
  | Open n :: r => unbracket r ((n, []) :: st) done
  | Close n :: r =>
      match st with
      | [] => None
      | (m, kids) :: st' => if str_eqb m n
                            then let '(st2, done2) := battach (Node m kids) st' done in unbracket r st2 done2
                            else None
      end
  end.

Fixpoint no_be_keys (c : comp) : bool :=
  let '(Comp _ ps subs _) := c in
  forallb (fun kv : list N * pentry => negb (str_is (fst kv) "BEGIN") && negb (str_is (fst kv) "END")) ps
  && forallb no_be_keys subs.

(* two trees that differ only in the insertion order of properties and of parameters *)
Definition vperm (a b : value) : Prop :=
  v_class a = v_class b /\ v_text a = v_text b /\ Permutation (v_params a) (v_params b).
Definition eperm (a b : list N * pentry) : Prop :=
  fst a = fst b /\ Forall2 vperm (entry_values (snd a)) (entry_values (snd b)).
Definition pperm (ps ps' : list (list N * pentry)) : Prop :=
  exists qs, Permutation ps qs /\ Forall2 eperm qs ps'.
Fixpoint tperm (a b : comp) : Prop :=
  let '(Comp n ps subs _) := a in
  n = c_name b /\ pperm ps (c_props b) /\
  (fix all2 (l : list comp) (l' : list comp) : Prop :=
     match l, l' with
     | [], [] => True
     | x :: r, y :: r' => tperm x y /\ all2 r r'
     | _, _ => False
     end) subs (c_subs b).

(* values whose parameter names are distinct *)
Fixpoint params_nodup (c : comp) : bool :=
  let '(Comp _ ps subs _) := c in
  forallb (fun kv : list N * pentry => forallb (fun v => nodup_strs (map fst (v_params v))) (entry_values (snd kv))) ps
  && forallb params_nodup subs.
