(* C12 -- the process-wide time zone cache of the provider proxy (timezone/tzp.py: TZP):
   clean_timezone_id, cache_timezone_component, timezone, and what Component.from_ical does
   with them while it reads a calendar top to bottom.
   The provider (zoneinfo / pytz) is a record of two oracles; WINDOWS_TO_OLSON is an oracle map.
   Definitions only. *)
Require Import Lib.Base.

Section Cache.
  Variable zone : Type.      (* a tzinfo object of the provider *)
  Variable defn : Type.      (* the tzinfo object to_tz(tzp, lookup_tzid=False) builds from one VTIMEZONE *)

  Record provider : Type := mkProvider {
    p_knows : list N -> bool;             (* knows_timezone_id *)
    p_lookup : list N -> option zone      (* timezone(name) *)
  }.
  Variable P : provider.
  Variable windows : list N -> option (list N).

  (* tzid.strip("/") *)
  Fixpoint lstrip_slash (s : list N) : list N :=
    match s with c :: r => if c =? 47 then lstrip_slash r else s | [] => [] end.
  Definition clean_id (s : list N) : list N := rev (lstrip_slash (rev (lstrip_slash s))).

  Definition cache : Type := list (list N * defn).
  Fixpoint cache_get (c : cache) (k : list N) : option defn :=
    match c with
    | [] => None
    | (k', d) :: r => if str_eqb k' k then Some d else cache_get r k
    end.

  (* may this VTIMEZONE be cached at all: the provider knows neither the clean nor the raw id *)
  Definition cacheable (id : list N) : bool := negb (p_knows P (clean_id id)) && negb (p_knows P id).

  (* cache_timezone_component: the first definition of an id stays *)
  Definition cache_component (c : cache) (id : list N) (d : defn) : cache :=
    if cacheable id && (match cache_get c (clean_id id) with None => true | Some _ => false end)
    then c ++ [(clean_id id, d)] else c.

  Inductive tzres : Type := RProv (z : zone) | RCustom (d : defn).

  (* the provider part of TZP.timezone: clean id, Windows name, raw id *)
  Definition provider_chain (id : list N) : option zone :=
    match p_lookup P (clean_id id) with
    | Some z => Some z
    | None =>
        match (match windows (clean_id id) with Some w => p_lookup P w | None => None end) with
        | Some z => Some z
        | None => p_lookup P id
        end
    end.

  (* TZP.timezone: None makes vDatetime.from_ical return a floating (naive) time *)
  Definition timezone (c : cache) (id : list N) : option tzres :=
    match provider_chain id with
    | Some z => Some (RProv z)
    | None => option_map RCustom (cache_get c (clean_id id))
    end.

  (* what the parser meets, in file order: END:VTIMEZONE of a definition, or a date-time with TZID *)
  Inductive ev : Type := Def (id : list N) (d : defn) | Use (id : list N).

  Fixpoint run (c : cache) (evs : list ev) : cache * list (option tzres) :=
    match evs with
    | [] => (c, [])
    | Def id d :: r => run (cache_component c id d) r
    | Use id :: r => let cr := run c r in (fst cr, timezone c id :: snd cr)
    end.

  (* a sequence of calendars parsed one after the other in one process *)
  Fixpoint run_cals (c : cache) (cals : list (list ev)) : cache * list (list (option tzres)) :=
    match cals with
    | [] => (c, [])
    | x :: r => let c1 := run c x in let cr := run_cals (fst c1) r in (fst cr, snd c1 :: snd cr)
    end.

  (* specification side: the first cacheable definition of key k in a history of events *)
  Fixpoint first_def (hist : list ev) (k : list N) : option defn :=
    match hist with
    | [] => None
    | Def id d :: r => if cacheable id && str_eqb (clean_id id) k then Some d else first_def r k
    | Use _ :: r => first_def r k
    end.
End Cache.

Arguments RProv {zone defn} z.
Arguments RCustom {zone defn} d.
Arguments Def {defn} id d.
Arguments Use {defn} id.
