(* Python's sorted(l, key=...) as a stable insertion sort under a boolean "less or equal".
   Definitions only; the lemmas (sorted, permutation, uniqueness of the sorted permutation)
   are in Proofs/SortPerm.v. *)
Require Import Lib.Base.

Section Sort.
  Variable A : Type.
  Variable leb : A -> A -> bool.

  (* insert x before the first element y with x <= y: with fold_right this is a stable sort
     (an element that came earlier in the input ends up before its equals) *)
  Fixpoint insert_by (x : A) (l : list A) : list A :=
    match l with
    | [] => [x]
    | y :: r => if leb x y then x :: l else y :: insert_by x r
    end.

  Definition sort_by (l : list A) : list A := fold_right insert_by [] l.
End Sort.
Arguments insert_by {A} leb x l.
Arguments sort_by {A} leb l.
