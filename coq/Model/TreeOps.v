(* Component.__eq__ as written (CaselessDict equality of the properties + one-directional containment
   of the subcomponents), over a value-equality oracle [veq] (each value class has its own __eq__);
   paths into a tree.  Definitions only. *)
Require Import Lib.Base Gen.Gen_parser Gen.Gen_cal Model.Params Model.Contentline Model.Tree.
From Coq Require Import Arith.

Section Eq.
  Variable veq : value -> value -> bool.

  Fixpoint list_eqb {A} (f : A -> A -> bool) (a b : list A) : bool :=
    match a, b with
    | [], [] => true
    | x :: a', y :: b' => f x y && list_eqb f a' b'
    | _, _ => false
    end.

  Definition entry_eq (a b : pentry) : bool :=
    match a, b with
    | One x, One y => veq x y
    | Many l, Many m => list_eqb veq l m
    | _, _ => false
    end.

  (* dict(a.items()) == dict(b.items()): same size, and every key of a is in b with an equal value *)
  Definition props_eq (a b : list (list N * pentry)) : bool :=
    (length a =? length b)%nat &&
    forallb (fun kv : list N * pentry => match dict_get (fst kv) b with
                                         | Some e => entry_eq (snd kv) e
                                         | None => false
                                         end) a.

  (* `sub not in other.subcomponents` evaluates  e == sub  for the elements e of the OTHER list
     (CPython compares the list item first), so the direction flips at every level: [comp_eq a b]
     recurses on a, [comp_eq' x y] (also "x == y") on y. *)
  Fixpoint comp_eq (a b : comp) {struct a} : bool :=
    let '(Comp _ pa sa _) := a in
    (length sa =? length (c_subs b))%nat && props_eq pa (c_props b)
    && forallb (fun s => existsb (fun s' => comp_eq' s' s) (c_subs b)) sa
  with comp_eq' (x y : comp) {struct y} : bool :=
    let '(Comp _ py sy _) := y in
    (length (c_subs x) =? length sy)%nat && props_eq (c_props x) py
    && forallb (fun sx => existsb (fun s' => comp_eq s' sx) sy) (c_subs x).
End Eq.

(* paths: the component reached by following child indices *)
Fixpoint get_path (c : comp) (p : list nat) : option comp :=
  match p with
  | [] => Some c
  | i :: r => match nth_error (c_subs c) i with Some s => get_path s r | None => None end
  end.

(* all valid paths in pre-order *)
Fixpoint paths (c : comp) : list (list nat) :=
  let '(Comp _ _ subs _) := c in
  [] :: (fix go (l : list comp) (i : nat) : list (list nat) :=
           match l with
           | [] => []
           | s :: r => map (cons i) (paths s) ++ go r (S i)
           end) subs O.

Definition go_paths : list comp -> nat -> list (list nat) :=
  fix go (l : list comp) (i : nat) : list (list nat) :=
    match l with
    | [] => []
    | s :: r => map (cons i) (paths s) ++ go r (S i)
    end.
