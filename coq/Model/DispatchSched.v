(* Dispatcher of the model area: start/end/duration (C16) and alarms (C14, C15).
   [dispatch_sched f a] = Some result when [f] names a function of this area.  Definitions only. *)
Require Import Lib.Base.
From Coq Require Import String.
Local Open Scope string_scope.

Definition dispatch_sched (f : list N) (a : jv) : option jv := None.
