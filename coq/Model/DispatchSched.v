(* Dispatcher of the model area: start/end/duration (C16) and alarms (C14, C15).
   [dispatch_sched f a] = Some result when [f] names a function of this area.  Definitions only.

   Wire encodings (Python list <-> JL):
     time    ["d", days] | ["n", s] | ["u", s] | ["z", zid, fix, s]   fix = [] or [offset]
     pyval   ["t", time] | ["td", seconds] | ["o"]
     entry   ["absent"] | ["one", pyval] | ["many"]
     arg     ["none"] | ["val", pyval]
     op      [name] | [name, arg] | [name, pyval]
     oracle  [[zid, wall_table, utc_table], ...]   table = [[threshold, offset], ...] ascending;
             the offset of the last row whose threshold is <= x applies (0 before the first row)
     opt Z   ["none"] | z
     alarm   [trigger entry, related (["none"] | string), repeat opt, duration opt, ack opt]
     parent  [kind, [start entry, end entry, duration entry], dtstamp opt, moz flag, lastack opt, snooze opt]
   Results: times as ["d", d] | ["n", s] | ["u", s] | ["z", zid, s, utcoffset];
            errors as ["err", class name]. *)
Require Import Lib.Base Model.Params Gen.Gen_sched Model.StartEnd Model.Alarm.
From Coq Require Import String.
Local Open Scope string_scope.
Local Open Scope Z_scope.

Definition isf (f : list N) (name : string) : bool := str_eqb f (s2l name).
Definition tag_is (s : list N) (name : string) : bool := str_eqb s (s2l name).

(* ------------------------------------------------------------------ decoding *)
Definition d_optZ (v : jv) : option (option Z) :=
  match v with
  | JZ z => Some (Some z)
  | JL [JS s] => if tag_is s "none" then Some None else None
  | _ => None
  end.

Definition d_time (v : jv) : option time :=
  match v with
  | JL [JS t; JZ x] =>
      if tag_is t "d" then Some (Date x) else if tag_is t "n" then Some (Naive x)
      else if tag_is t "u" then Some (Utc x) else None
  | JL [JS t; JZ z; JL []; JZ s] => if tag_is t "z" then Some (Zoned {| zid := z; zfix := None |} s) else None
  | JL [JS t; JZ z; JL [JZ f]; JZ s] => if tag_is t "z" then Some (Zoned {| zid := z; zfix := Some f |} s) else None
  | _ => None
  end.

Definition d_zkey (v : jv) : option (option zkey) :=
  match v with
  | JL [JS s] => if tag_is s "none" then Some None else None
  | JL [JZ z; JL []] => Some (Some {| zid := z; zfix := None |})
  | JL [JZ z; JL [JZ f]] => Some (Some {| zid := z; zfix := Some f |})
  | _ => None
  end.

Definition d_pyval (v : jv) : option pyval :=
  match v with
  | JL [JS t; x] =>
      if tag_is t "t" then option_map VTime (d_time x)
      else if tag_is t "td" then match x with JZ z => Some (VDelta z) | _ => None end
      else None
  | JL [JS t] => if tag_is t "o" then Some VOther else None
  | _ => None
  end.

Definition d_entry (v : jv) : option entry :=
  match v with
  | JL [JS t] => if tag_is t "absent" then Some Absent else if tag_is t "many" then Some Many else None
  | JL [JS t; x] => if tag_is t "one" then option_map One (d_pyval x) else None
  | _ => None
  end.

Definition d_arg (v : jv) : option arg :=
  match v with
  | JL [JS t] => if tag_is t "none" then Some ANone else None
  | JL [JS t; x] => if tag_is t "val" then option_map AVal (d_pyval x) else None
  | _ => None
  end.

Definition d_op (v : jv) : option op :=
  match v with
  | JL [JS n] =>
      if tag_is n "del_DTSTART" then Some DelDTSTART else if tag_is n "del_END" then Some DelEND
      else if tag_is n "del_DURATION" then Some DelDURATION else None
  | JL [JS n; x] =>
      if tag_is n "set_DTSTART" then option_map SetDTSTART (d_arg x)
      else if tag_is n "set_END" then option_map SetEND (d_arg x)
      else if tag_is n "set_DURATION" then option_map SetDURATION (d_arg x)
      else if tag_is n "set_start" then option_map SetStart (d_arg x)
      else if tag_is n "set_end" then option_map SetEnd (d_arg x)
      else if tag_is n "add_DTSTART" then option_map AddDTSTART (d_pyval x)
      else if tag_is n "add_END" then option_map AddEND (d_pyval x)
      else if tag_is n "add_DURATION" then option_map AddDURATION (d_pyval x)
      else None
  | _ => None
  end.

Fixpoint d_list {A} (f : jv -> option A) (l : list jv) : option (list A) :=
  match l with
  | [] => Some []
  | x :: r => match f x, d_list f r with Some a, Some b => Some (a :: b) | _, _ => None end
  end.

Definition d_kind (v : jv) : option ckind :=
  match v with JZ 0 => Some KEvent | JZ 1 => Some KTodo | _ => None end.

Definition d_comp (v : jv) : option comp :=
  match v with
  | JL [s; e; d] =>
      match d_entry s, d_entry e, d_entry d with
      | Some s', Some e', Some d' => Some {| c_start := s'; c_end := e'; c_dur := d' |}
      | _, _, _ => None
      end
  | _ => None
  end.

Definition d_row (v : jv) : option (Z * Z) := match v with JL [JZ a; JZ b] => Some (a, b) | _ => None end.
Definition zone_tabs := list (Z * (list (Z * Z) * list (Z * Z))).
Definition d_zone (v : jv) : option (Z * (list (Z * Z) * list (Z * Z))) :=
  match v with
  | JL [JZ z; JL w; JL u] =>
      match d_list d_row w, d_list d_row u with Some w', Some u' => Some (z, (w', u')) | _, _ => None end
  | _ => None
  end.

Fixpoint lookup_tab (tab : list (Z * Z)) (x cur : Z) : Z :=
  match tab with
  | [] => cur
  | (thr, off) :: r => if thr <=? x then lookup_tab r x off else cur
  end.
Fixpoint find_zone (zs : zone_tabs) (z : Z) : option (list (Z * Z) * list (Z * Z)) :=
  match zs with
  | [] => None
  | (z', t) :: r => if z' =? z then Some t else find_zone r z
  end.
Definition mk_oracle (zs : zone_tabs) : zoracle :=
  {| off_wall := fun z s => match find_zone zs z with Some t => lookup_tab (fst t) s 0 | None => 0 end;
     off_utc := fun z u => match find_zone zs z with Some t => lookup_tab (snd t) u 0 | None => 0 end |}.
Definition d_oracle (v : jv) : option zoracle :=
  match v with JL l => option_map mk_oracle (d_list d_zone l) | _ => None end.

Definition d_alarm (v : jv) : option alarm :=
  match v with
  | JL [tr; rel; rep; dur; ack] =>
      match d_entry tr, d_optZ rep, d_optZ dur, d_optZ ack with
      | Some tr', Some rep', Some dur', Some ack' =>
          match rel with
          | JS r => Some {| a_trigger := tr'; a_related := Some r; a_repeat := rep'; a_duration := dur'; a_ack := ack' |}
          | JL [JS _] => Some {| a_trigger := tr'; a_related := None; a_repeat := rep'; a_duration := dur'; a_ack := ack' |}
          | _ => None
          end
      | _, _, _, _ => None
      end
  | _ => None
  end.

Definition d_parent (v : jv) : option parent :=
  match v with
  | JL [k; c; st; JZ moz; la; sn] =>
      match d_kind k, d_comp c, d_optZ st, d_optZ la, d_optZ sn with
      | Some k', Some c', Some st', Some la', Some sn' =>
          Some {| p_kind := k'; p_comp := c'; p_dtstamp := st'; p_moz := negb (moz =? 0); p_lastack := la'; p_snooze := sn' |}
      | _, _, _, _, _ => None
      end
  | _ => None
  end.

(* ------------------------------------------------------------------ encoding *)
Definition jnone : jv := jtag "none" [].
Definition j_time (o : zoracle) (t : time) : jv :=
  match t with
  | Date d => jtag "d" [JZ d]
  | Naive s => jtag "n" [JZ s]
  | Utc s => jtag "u" [JZ s]
  | Zoned k s => jtag "z" [JZ (zid k); JZ s; JZ (zoff o k s)]
  end.
Definition j_vtag (t : vtag) : jv :=
  match t with
  | InvalidCal => jerr "InvalidCalendar"
  | IncompleteComp => jerr "IncompleteComponent"
  | StartMissing => jerr "ComponentStartMissing"
  | EndMissing => jerr "ComponentEndMissing"
  | LocalTzMissing => jerr "LocalTimezoneMissing"
  end.
Definition j_ekind (k : ekind) : jv :=
  match k with TypeErr => jerr "TypeError" | AttributeErr => jerr "AttributeError" end.
Definition j_sres {A} (f : A -> jv) (r : sres A) : jv :=
  match r with SOk a => f a | SVal t => j_vtag t | SEsc k => j_ekind k end.
Definition j_opt {A} (f : A -> jv) (x : option A) : jv := match x with Some a => f a | None => jnone end.
Definition j_pyval (o : zoracle) (v : pyval) : jv :=
  match v with VTime t => jtag "t" [j_time o t] | VDelta td => jtag "td" [JZ td] | VOther => jtag "o" [] end.
Definition j_entry (o : zoracle) (e : entry) : jv :=
  match e with Absent => jtag "absent" [] | One v => jtag "one" [j_pyval o v] | Many => jtag "many" [] end.
Definition j_comp (o : zoracle) (c : comp) : jv := JL [j_entry o (c_start c); j_entry o (c_end c); j_entry o (c_dur c)].
Definition j_outcome (x : outcome) : jv :=
  match x with ODone => jtag "ok" [] | ORaised k => j_ekind k end.

Definition j_getters (o : zoracle) (k : ckind) (c : comp) : jv :=
  JL [j_sres (j_opt (j_time o)) (get_DTSTART k c);
      j_sres (j_opt (j_time o)) (get_END k c);
      j_sres (j_opt (j_pyval o)) (get_DURATION c);
      j_sres (j_time o) (get_start k c);
      j_sres (j_time o) (get_end k c);
      j_sres JZ (get_dur o k c)].
Definition j_guards (c : comp) : jv :=
  JL [jbool (forbidden c); jbool (dur_typed c); jbool (tz_consistent c)].

Definition j_atime (o : zoracle) (x : atime) : jv :=
  JL [j_time o (at_trigger x);                       (* _trigger *)
      j_sres (j_time o) (at_trigger_prop o x);       (* .trigger *)
      j_opt JZ (acknowledged x);                     (* .acknowledged *)
      j_sres jbool (is_active o x);                  (* .is_active() *)
      jbool (not_date_trigger x); jbool (snooze_ok x)].

Definition j_trigs (o : zoracle) (t : trigs) : jv :=
  match t with
  | TrigStart l => JL [JL (map JZ l); JL []; JL []]
  | TrigEnd l => JL [JL []; JL (map JZ l); JL []]
  | TrigAbs l => JL [JL []; JL []; JL (map (j_time o) l)]
  | TrigNone => JL [JL []; JL []; JL []]
  end.

(* ------------------------------------------------------------------ entry points *)
Definition dispatch_sched (f : list N) (a : jv) : option jv :=
  if isf f "c16_run" then
    Some match a with
         | JL [k; JL ops; orc] =>
             match d_kind k, d_list d_op ops, d_oracle orc with
             | Some k', Some ops', Some o =>
                 let c := run k' ops' empty_comp in
                 JL [JL (map j_outcome (run_log k' ops' empty_comp)); j_comp o c; j_getters o k' c; j_guards c;
                     jbool (no_add ops')]
             | _, _, _ => junsupported
             end
         | _ => junsupported
         end
  else if isf f "c16_state" then
    Some match a with
         | JL [k; c; orc] =>
             match d_kind k, d_comp c, d_oracle orc with
             | Some k', Some c', Some o => JL [j_getters o k' c'; j_guards c']
             | _, _, _ => junsupported
             end
         | _ => junsupported
         end
  else if isf f "c16_journal" then
    Some match a with
         | JL [e; orc] =>
             match d_entry e, d_oracle orc with
             | Some e', Some o => JL [j_sres (j_time o) (journal_start e'); j_sres (j_time o) (journal_end e');
                                      j_sres JZ (journal_duration e')]
             | _, _ => junsupported
             end
         | _ => junsupported
         end
  else if isf f "c14_times" then
    (* [parent, alarms, oracle] -> [triggers of Alarms(component).times, spec_times, alarms_ok, eager_ok] *)
    Some match a with
         | JL [p; JL als; orc] =>
             match d_parent p, d_list d_alarm als, d_oracle orc with
             | Some p', Some als', Some o =>
                 let s := get_start (p_kind p') (p_comp p') in
                 let e := get_end (p_kind p') (p_comp p') in
                 JL [j_sres (fun l => JL (map (j_time o) l)) (component_triggers o p' als');
                     j_sres (fun l => JL (map (j_time o) l)) (spec_times o s e als');
                     jbool (alarms_ok als'); jbool (eager_ok o p' als');
                     JL (map (fun x => j_sres (j_trigs o) (alarm_triggers x)) als')]
             | _, _, _ => junsupported
             end
         | _ => junsupported
         end
  else if isf f "c14_manual" then
    (* Alarms() used by hand: [start opt, end opt, alarms, oracle] -> triggers of .times *)
    Some match a with
         | JL [s; e; JL als; orc] =>
             let dopt (v : jv) : option (option time) :=
               match v with
               | JL [JS t] => if tag_is t "none" then Some None else None
               | _ => option_map Some (d_time v)
               end in
             match dopt s, dopt e, d_list d_alarm als, d_oracle orc with
             | Some s', Some e', Some als', Some o =>
                 j_sres (fun l => JL (map (fun p : alarm * time => j_time o (snd p)) l))
                        (sbind (add_alarms als') (raw_times o s' e'))
             | _, _, _, _ => junsupported
             end
         | _ => junsupported
         end
  else if isf f "c15_component" then
    (* [parent, alarms, oracle, local zone] -> [times (each with trigger, ack, is_active, guards), active indices] *)
    Some match a with
         | JL [p; JL als; orc; loc] =>
             match d_parent p, d_list d_alarm als, d_oracle orc, d_zkey loc with
             | Some p', Some als', Some o, Some loc' =>
                 let ts := component_times o p' loc' als' in
                 JL [j_sres (fun l => JL (map (j_atime o) l)) ts;
                     j_sres (fun l => JL (map (fun x => j_sres (j_time o) (at_trigger_prop o x)) l)) (active_of o ts)]
             | _, _, _, _ => junsupported
             end
         | _ => junsupported
         end
  else if isf f "c15_atime" then
    (* one AlarmTime: [trigger, alarm ack, last ack, snooze, oracle] *)
    Some match a with
         | JL [t; aa; la; sn; orc] =>
             match d_time t, d_optZ aa, d_optZ la, d_optZ sn, d_oracle orc with
             | Some t', Some aa', Some la', Some sn', Some o =>
                 let x := {| at_trigger := t'; at_alarm_ack := aa'; at_last_ack := la'; at_snooze := sn' |} in
                 JL [j_atime o x;
                     jbool (spec_active (instant o t') aa' la' sn'); jbool (needs_trigger aa' la' sn');
                     j_time o (spec_trigger o t' sn')]
             | _, _, _, _, _ => junsupported
             end
         | _ => junsupported
         end
  else None.
