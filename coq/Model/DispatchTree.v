(* Dispatcher of the model area: component tree: parse, serialise, API, walk, equality, used time zones (C01 C02 C04 C09 C10 C18 C20).
   [dispatch_tree f a] = Some result when [f] names a function of this area.  Definitions only. *)
Require Import Lib.Base.
From Coq Require Import String.
Local Open Scope string_scope.

Definition dispatch_tree (f : list N) (a : jv) : option jv := None.
