(* Dispatcher of the model area: component tree -- parse, serialise, walk, used time zones
   (C01 C02 C04 C09 C10 C18 C20).  Definitions only. *)
Require Import Lib.Base Lib.Chain Gen.Gen_parser Gen.Gen_cal Model.Text Model.Params Model.Fold Model.Contentline
        Model.Dispatch Model.Tree Model.TreeOps Model.UsedTz Model.Api Model.RfcLine.
From Coq Require Import String.
Local Open Scope string_scope.

(* ---- wire forms *)
Definition jvalue (v : value) : jv := JL [JS (v_class v); jparams (v_params v); JS (v_text v)].
Definition jentry (kv : list N * pentry) : jv :=
  JL [JS (fst kv); jbool (match snd kv with Many _ => true | One _ => false end);
      JL (map jvalue (entry_values (snd kv)))].
Definition jerrent (e : option (list N)) : jv := match e with Some n => JS n | None => JL [] end.
Fixpoint jcomp (c : comp) : jv :=
  let '(Comp n ps subs es) := c in
  JL [JS n; JL (map jentry ps); JL (map jcomp subs); JL (map jerrent es)].

Definition value_of (j : jv) : option value :=
  match j with
  | JL [JS c; JL ps; JS t] => option_map (fun ps' => {| v_class := c; v_params := ps'; v_text := t |}) (params_of ps)
  | _ => None
  end.
Fixpoint opt_all {A} (l : list (option A)) : option (list A) :=
  match l with
  | [] => Some []
  | Some x :: r => option_map (cons x) (opt_all r)
  | None :: _ => None
  end.
Definition entry_of (j : jv) : option (list N * pentry) :=
  match j with
  | JL [JS k; JZ many; JL vs] =>
      match opt_all (map value_of vs) with
      | Some vals => if (many =? 0)%Z then match vals with [v] => Some (k, One v) | _ => None end
                     else Some (k, Many vals)
      | None => None
      end
  | _ => None
  end.
Definition errent_of (j : jv) : option (option (list N)) :=
  match j with JS n => Some (Some n) | JL [] => Some None | _ => None end.
Fixpoint comp_of (j : jv) : option comp :=
  match j with
  | JL [JS n; JL ps; JL subs; JL es] =>
      match opt_all (map entry_of ps), opt_all (map comp_of subs), opt_all (map errent_of es) with
      | Some ps', Some subs', Some es' => Some (Comp n ps' subs' es')
      | _, _, _ => None
      end
  | _ => None
  end.

Definition res_of {A} (f : jv -> option A) (j : jv) : option (res A) :=
  match j with
  | JL [JS t; JS k] => if is t "err" then Some (if is k "ValueError" then ValueErr else Escape k) else option_map Ok (f j)
  | _ => option_map Ok (f j)
  end.

(* ---- the decoder oracle: association list ((type key, value text, TZID handed over) -> outcome) *)
Definition okey := (list N * list N * option pval)%type.
Definition pval_eqb (a b : pval) : bool :=
  match a, b with
  | PStr x, PStr y => str_eqb x y
  | PList x, PList y => strs_eqb x y
  | _, _ => false
  end.
Definition okey_eqb (a b : okey) : bool :=
  let '(k1, v1, t1) := a in let '(k2, v2, t2) := b in
  str_eqb k1 k2 && str_eqb v1 v2 &&
  match t1, t2 with Some x, Some y => pval_eqb x y | None, None => true | _, _ => false end.
Fixpoint olookup (o : list (okey * res (list N))) (k : okey) : res (list N) :=
  match o with
  | [] => Escape (s2l "oracle-miss")
  | (k', r) :: rest => if okey_eqb k k' then r else olookup rest k
  end.
Definition oentry_of (j : jv) : option (okey * res (list N)) :=
  match j with
  | JL [JS key; JS vals; JL tz; r] =>
      let tz' := match tz with [t] => option_map Some (pval_of t) | [] => Some None | _ => None end in
      match tz', res_of jv_str r with
      | Some t, Some r' => Some ((key, vals, t), r')
      | _, _ => None
      end
  | _ => None
  end.
Definition cache_of (j : jv) : option (res unit) := res_of (fun _ => Some tt) j.

Definition jcomps (l : list comp) : jv := JL (map jcomp l).

(* ---- the RFC 5545 content-line syntax tree (Model/RfcLine.v):
        [name, [[param name, [[0 plain | 1 quoted, text] ...]] ...], value] *)
Definition pvalue_of (j : jv) : option pvalue :=
  match j with
  | JL [JZ q; JS s] => Some (if (q =? 0)%Z then Plain s else Quoted s)
  | _ => None
  end.
Definition rparam_of (j : jv) : option (list N * list pvalue) :=
  match j with
  | JL [JS k; JL vs] => option_map (fun vs' => (k, vs')) (opt_all (map pvalue_of vs))
  | _ => None
  end.
Definition rfc_line_of (j : jv) : option rfc_line :=
  match j with
  | JL [JS n; JL ps; JS v] =>
      option_map (fun ps' => {| rl_name := n; rl_params := ps'; rl_value := v |}) (opt_all (map rparam_of ps))
  | _ => None
  end.

Definition dispatch_tree (f : list N) (a : jv) : option jv :=
  if is f "rfc_line" then
    (* [rfc_print; rfc_denote as [name, params, value]; rfc_line_ok; the three clauses of first_parse_guard] *)
    Some match rfc_line_of a with
    | Some l =>
        let '(n, ps, v) := rfc_denote l in
        JL [JS (rfc_print l); JL [JS n; jparams ps; JS v]; jbool (rfc_line_ok l);
            jbool (guard_no_escape l); jbool (guard_no_placeholder l); jbool (guard_names_distinct l)]
    | None => junsupported end
  else if is f "tree_parse" then
    Some match a with
    | JL [JS text; JZ multiple; JL oracle; JL cacheo] =>
        match opt_all (map oentry_of oracle), opt_all (map cache_of cacheo) with
        | Some o, Some c => jres jcomps (parse (fun k v t => olookup o (k, v, t)) c (negb (multiple =? 0)%Z) text)
        | _, _ => junsupported
        end
    | _ => junsupported end
  else if is f "tree_ser" then
    Some match a with
    | JL [c; JZ sorted] =>
        match comp_of c with
        | Some c' => jres JS (ser (negb (sorted =? 0)%Z) c')
        | None => junsupported
        end
    | _ => junsupported end
  else if is f "tree_guards" then
    (* [tree_ok; tree_upper; norm t] under the decoder oracle: the guards and the prediction of theorem C01_stable *)
    Some match a with
    | JL [c; JZ sorted; JL oracle] =>
        match comp_of c, opt_all (map oentry_of oracle) with
        | Some c', Some o =>
            let sd := negb (sorted =? 0)%Z in
            JL [jbool (tree_ok (fun k v t => olookup o (k, v, t)) sd c'); jbool (tree_upper c'); jcomp (norm sd c')]
        | _, _ => junsupported
        end
    | _ => junsupported end
  else if is f "tree_walk" then
    (* names of the components returned by walk(name) together with their pre-order index *)
    Some match a with
    | JL [c; JL q] =>
        match comp_of c, q with
        | Some c', [JS n] => jcomps (walk (Some n) c')
        | Some c', [] => jcomps (walk None c')
        | _, _ => junsupported
        end
    | _ => junsupported end
  else if is f "tree_eq" then
    (* Component.__eq__ over a value-equality table: values carry ids in their text slot;
       pairs = [[idA, idB, 0/1] ...]; a missing pair means "not equal" *)
    Some match a with
    | JL [x; y; JL pairs] =>
        match comp_of x, comp_of y with
        | Some cx, Some cy =>
            let tbl := flat_map (fun p => match p with JL [JS i; JS j; JZ b] => [((i, j), negb (b =? 0)%Z)] | _ => [] end) pairs in
            let veq := fun v w : value =>
              match find (fun e : (list N * list N) * bool => str_eqb (fst (fst e)) (v_text v) && str_eqb (snd (fst e)) (v_text w)) tbl with
              | Some e => snd e | None => false end in
            jbool (comp_eq veq cx cy)
        | _, _ => junsupported
        end
    | _ => junsupported end
  else if is f "tree_paths" then
    Some match a with
    | c => match comp_of c with
           | Some c' => JL (map (fun p => JL (map jnat p)) (paths c'))
           | None => junsupported end
    end
  else if is f "tree_used_tzids" then
    Some match a with
    | c => match comp_of c with Some c' => JL (map jpval (used_tzids c')) | None => junsupported end
    end
  else if is f "tree_used_set" then
    Some match a with c => match comp_of c with Some c' => jres jstrs (used_set c') | None => junsupported end end
  else if is f "tree_missing" then
    Some match a with c => match comp_of c with Some c' => jres jstrs (missing_set c') | None => junsupported end end
  else if is f "tree_add_missing" then
    (* [tree; ids the provider knows; iteration order of the missing set (a permutation, by position)] ->
       [used after; missing after; number of components added; missing after a second call; components added by it] *)
    Some match a with
    | JL [c; JL knownl; JL orderl] =>
        match comp_of c, jv_strs knownl, jv_strs orderl with
        | Some c', Some kn, Some ord =>
            let gen := fun z => if mem_str z kn
                                then Some (Comp (s2l "VTIMEZONE") [(s2l "TZID", One {| v_class := s2l "vText"; v_params := []; v_text := escape_char z |})] [] [])
                                else None in
            let order := fun ms : list (list N) => (filter (fun z => mem_str z ms) ord ++ filter (fun z => negb (mem_str z ord)) ms)%list in
            match add_missing gen order c' with
            | Ok c1 =>
                JL [jres jstrs (used_set c1); jres jstrs (missing_set c1);
                    jnat (List.length (c_subs c1) - List.length (c_subs c'))%nat;
                    match add_missing gen order c1 with
                    | Ok c2 => JL [jres jstrs (missing_set c2); jnat (List.length (c_subs c2) - List.length (c_subs c1))%nat]
                    | e => jres (fun _ => JL []) e
                    end]
            | e => jres (fun _ => JL []) e
            end
        | _, _, _ => junsupported
        end
    | _ => junsupported end
  else if is f "api_build" then
    (* ops = [[0|1 (add|set), name, is_list, [values]] ...] -> the property mapping *)
    Some match a with
    | JL ops =>
        match opt_all (map (fun o => match o with
                                     | JL [JZ kind; JS n; JZ many; JL vs] =>
                                         match opt_all (map value_of vs) with
                                         | Some vals =>
                                             let nv := if (many =? 0)%Z then match vals with [v] => Some (NOne v) | _ => None end else Some (NMany vals) in
                                             option_map (fun nv' => if (kind =? 0)%Z then OpAdd n nv' else OpSet n nv') nv
                                         | None => None end
                                     | _ => None end) ops) with
        | Some ops' => JL (map jentry (api_build ops'))
        | None => junsupported
        end
    | _ => junsupported end
  else if is f "ddd_params" then
    (* kinds: 0 date, 1 naive, 2 utc, 3 time, 4 timedelta, 5 period, or a zone id string *)
    Some (let kind_of := fun j => match j with
                                  | JZ 0 => Some KDate | JZ 1 => Some KNaive | JZ 2 => Some KUtc | JZ 3 => Some KTimeNaive
                                  | JZ 4 => Some KTimedelta | JZ 5 => Some KPeriod | JS z => Some (KZoned z) | _ => None end in
          match a with
          | JL [JZ 0; k] => match kind_of k with Some k' => jparams (ddd_params k') | None => junsupported end
          | JL [JZ 1; JL ks] => match opt_all (map kind_of ks) with Some ks' => jparams (dddlist_params ks') | None => junsupported end
          | _ => junsupported end)
  else if is f "type_key" then
    Some match a with JS n => if all_ascii n then JL [JS (type_key n); match class_name_of_key (type_key n) with Some c => JS c | None => JL [] end] else junsupported | _ => junsupported end
  else if is f "canonsort_keys" then
    Some match a with
    | JL [JL keys; JL canon] =>
        match jv_strs keys, jv_strs canon with
        | Some k, Some c => jstrs (canonsort_keys k c)
        | _, _ => junsupported end
    | _ => junsupported end
  else None.
