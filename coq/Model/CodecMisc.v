(* vInt, vBoolean, vBinary (binascii.b2a_base64 / non-strict a2b_base64 over UTF-8), vWeekday
   (WEEKDAY_RULE modelled as a matcher), vFrequency, vMonth, vUri, vCalAddress, and the RFC
   recognisers for INTEGER, BOOLEAN, BINARY, weekdaynum, freq, monthnum.  vFloat and vGeo have no
   model (no IEEE-754 repr here): they are checked on the implementation only.  Definitions only. *)
Require Import Lib.Base Model.Params Model.CodecBase Gen.Gen_prop.
Local Open Scope Z_scope.

Fixpoint assoc {V : Type} (k : str) (d : list (str * V)) : option V :=
  match d with
  | [] => None
  | (k', v) :: r => if str_eqb k k' then Some v else assoc k r
  end.

(* ---------------------------------------------------------------- vInt *)
Definition enc_int (z : Z) : res str := py_str_int z.
Definition dec_int (t : str) : res Z := py_int t.

(* integer = (["+"] / "-") 1*DIGIT *)
Definition int_value (t : str) : option Z :=
  let '(neg, body) := match t with
                      | c :: r => if (c =? 45)%N then (true, r) else if (c =? 43)%N then (false, r) else (false, t)
                      | [] => (false, t)
                      end in
  match body with
  | [] => None
  | _ => if forallb is_digit body then Some (if neg then - digs_val body 0 else digs_val body 0) else None
  end.
Definition int_grammar (t : str) : bool := match int_value t with Some _ => true | None => false end.

(* ---------------------------------------------------------------- vBoolean *)
Definition enc_bool (b : bool) : str := if b then s2l "TRUE" else s2l "FALSE".
(* BOOL_MAP[ical]: CaselessDict looks up ical.upper(); any exception -> ValueError *)
Definition dec_bool (t : str) : res bool :=
  if negb (all_ascii t) then Unsup
  else match assoc (upper t) BOOL_MAP with Some b => Ok b | None => ValueErr end.

(* boolean = "TRUE" / "FALSE", case-insensitive *)
Definition bool_value (t : str) : option bool :=
  if str_eqb (upper t) (s2l "TRUE") then Some true
  else if str_eqb (upper t) (s2l "FALSE") then Some false else None.
Definition bool_grammar (t : str) : bool := match bool_value t with Some _ => true | None => false end.

(* ---------------------------------------------------------------- UTF-8 *)
Local Open Scope N_scope.
Fixpoint utf8_encode (s : str) : res (list N) :=
  match s with
  | [] => Ok []
  | c :: r =>
      let hd : res (list N) :=
        if c <? 128 then Ok [c]
        else if c <? 2048 then Ok [192 + c / 64; 128 + c mod 64]
        else if (55296 <=? c) && (c <=? 57343) then ValueErr   (* lone surrogate: UnicodeEncodeError, a ValueError *)
        else if c <? 65536 then Ok [224 + c / 4096; 128 + (c / 64) mod 64; 128 + c mod 64]
        else if c <? 1114112 then Ok [240 + c / 262144; 128 + (c / 4096) mod 64; 128 + (c / 64) mod 64; 128 + c mod 64]
        else Unsup in
      bind hd (fun h => bind (utf8_encode r) (fun t => Ok (h ++ t)))
  end.

(* ---------------------------------------------------------------- base64 *)
Definition b64_chr (i : N) : N :=
  if i <? 26 then 65 + i else if i <? 52 then 71 + i else if i <? 62 then i - 4
  else if i =? 62 then 43 else 47.

Definition b64_val (c : N) : option N :=
  if (65 <=? c) && (c <=? 90) then Some (c - 65)
  else if (97 <=? c) && (c <=? 122) then Some (c - 71)
  else if (48 <=? c) && (c <=? 57) then Some (c + 4)
  else if c =? 43 then Some 62 else if c =? 47 then Some 63 else None.

(* binascii.b2a_base64(octets)[:-1] *)
Fixpoint b64_enc (l : list N) : str :=
  match l with
  | a :: b :: c :: r =>
      b64_chr (a / 4) :: b64_chr ((a mod 4) * 16 + b / 16) :: b64_chr ((b mod 16) * 4 + c / 64)
              :: b64_chr (c mod 64) :: b64_enc r
  | [a; b] => [b64_chr (a / 4); b64_chr ((a mod 4) * 16 + b / 16); b64_chr ((b mod 16) * 4); 61]
  | [a] => [b64_chr (a / 4); b64_chr ((a mod 4) * 16); 61; 61]
  | [] => []
  end.

(* binascii.a2b_base64(data, strict_mode=False), CPython 3.12: characters outside the alphabet are
   skipped; "=" counts as padding only once two characters of the quad have been read, and a
   completed pad sequence ends the parse (the rest of the input is ignored); a data character
   resets the pad count; input ending inside a quad is an error (binascii.Error, a ValueError).
   [qp] position in the quad, [left] left-over bits, [pads] pad characters seen. *)
Fixpoint a2b (s : str) (qp left pads : N) : res (list N) :=
  match s with
  | [] => if qp =? 0 then Ok [] else ValueErr
  | c :: r =>
      if c =? 61 then
        if (2 <=? qp) && (4 <=? qp + (pads + 1)) then Ok []
        else a2b r qp left (if 2 <=? qp then pads + 1 else pads)
      else
        match b64_val c with
        | None => a2b r qp left pads
        | Some v =>
            if qp =? 0 then a2b r 1 v 0
            else if qp =? 1 then bind (a2b r 2 (v mod 16) 0) (fun o => Ok (left * 4 + v / 16 :: o))
            else if qp =? 2 then bind (a2b r 3 (v mod 4) 0) (fun o => Ok (left * 16 + v / 4 :: o))
            else bind (a2b r 0 0 0) (fun o => Ok (left * 64 + v :: o))
        end
  end.

(* vBinary(text).to_ical(): the text is stored as str and encoded as UTF-8 first *)
Definition enc_binary (s : str) : res str := bind (utf8_encode s) (fun o => Ok (b64_enc o)).
(* base64.b64decode(str): non-ASCII -> ValueError; returns the octets (bytes, not the text) *)
Definition dec_binary (t : str) : res (list N) :=
  if negb (all_ascii t) then ValueErr else a2b t 0 0 0.

(* binary = *(4b-char) [b-end] ; b-end = (2b-char "==") / (3b-char "=") *)
Definition is_b64_chr (c : N) : bool := match b64_val c with Some _ => true | None => false end.
Fixpoint binary_grammar (t : str) : bool :=
  match t with
  | [] => true
  | [a; b; c; d] =>
      is_b64_chr a && is_b64_chr b
      && ((is_b64_chr c && (is_b64_chr d || (d =? 61))) || ((c =? 61) && (d =? 61)))
  | a :: b :: c :: d :: r => is_b64_chr a && is_b64_chr b && is_b64_chr c && is_b64_chr d && binary_grammar r
  | _ => false
  end.

(* RFC 4648 section 4, the octets a base64 text denotes: every 4 characters carry 4 x 6 = 24 bits = 3 octets;
   a final "xy==" carries 8 bits (the low 4 bits of y are not part of the value), a final "xyz=" carries
   16 bits (the low 2 bits of z are not part of the value).  Some o iff the text is RFC 5545 "binary". *)
Definition quad3 (x y z w : N) : list N := [x * 4 + y / 16; (y mod 16) * 16 + z / 4; (z mod 4) * 64 + w].
Fixpoint binary_value (t : str) : option (list N) :=
  match t with
  | [] => Some []
  | [a; b; c; d] =>
      match b64_val a, b64_val b with
      | Some x, Some y =>
          if c =? 61 then (if d =? 61 then Some [x * 4 + y / 16] else None)
          else match b64_val c with
               | Some z =>
                   if d =? 61 then Some [x * 4 + y / 16; (y mod 16) * 16 + z / 4]
                   else match b64_val d with Some w => Some (quad3 x y z w) | None => None end
               | None => None
               end
      | _, _ => None
      end
  | a :: b :: c :: d :: r =>
      match b64_val a, b64_val b, b64_val c, b64_val d, binary_value r with
      | Some x, Some y, Some z, Some w, Some o => Some (quad3 x y z w ++ o)
      | _, _, _, _, _ => None
      end
  | _ => None
  end.

(* RFC 4648 3.5 "canonical encoding": the bits of the last character that are not part of the value
   are zero (a conforming encoder writes only such texts; a decoder MAY reject the others) *)
Fixpoint binary_canonical (t : str) : bool :=
  match t with
  | [a; b; c; d] =>
      if d =? 61 then
        if c =? 61 then match b64_val b with Some y => y mod 16 =? 0 | None => false end
        else match b64_val c with Some z => z mod 4 =? 0 | None => false end
      else true
  | _ :: _ :: _ :: _ :: r => binary_canonical r
  | _ => true
  end.

(* ---------------------------------------------------------------- vWeekday *)
Definition is_word (c : N) : bool := is_lower c || is_upper c || is_digit c || (c =? 95).

(* WEEKDAY_RULE.match: (?P<signal>[+-]?)(?P<relative>[\d]{0,2})(?P<weekday>[\w]{2})$
   After the optional sign, the rest (less one final LF, which "$" allows) must be 0-2 digits
   and exactly two word characters; its length fixes how many digits [relative] takes.
   Result: (signal, relative, weekday). *)
Definition weekday_match (v : str) : option (str * str * str) :=
  let '(sign, r) := match v with
                    | c :: r => if (c =? 43) || (c =? 45) then ([c], r) else ([], v)
                    | [] => ([], v)
                    end in
  let body := match rev r with
              | c :: r' => if c =? 10 then rev r' else r
              | [] => r
              end in
  let n := List.length body in
  if ((n =? 2) || (n =? 3) || (n =? 4))%nat then
    let rel := firstn (n - 2) body in
    let wd := skipn (n - 2) body in
    if forallb is_digit rel && forallb is_word wd then Some (sign, rel, wd) else None
  else None.

(* vWeekday(value): the str itself, .relative, .weekday *)
Definition weekday_new (v : str) : res (str * option Z * str) :=
  if negb (all_ascii v) then Unsup else
  match weekday_match v with
  | None => ValueErr
  | Some (sign, rel, wd) =>
      match assoc (upper wd) week_days with
      | None => ValueErr
      | Some _ =>
          let n := digs_val rel 0%Z in
          let relative := match rel with
                          | [] => None
                          | _ => if (n =? 0)%Z then None
                                 else Some (if str_eqb sign [45] then (- n)%Z else n)
                          end in
          Ok (v, relative, wd)
      end
  end.
Definition dec_weekday (t : str) : res (str * option Z * str) :=
  if negb (all_ascii t) then Unsup else weekday_new (upper t).
Definition enc_weekday (v : str) : str := upper v.

(* weekdaynum = [[plus / minus] ordwk] weekday ; ordwk = 1*2DIGIT ;1 to 53 ;
   weekday = "SU" / "MO" / "TU" / "WE" / "TH" / "FR" / "SA" *)
Definition rfc_weekdays : list str :=
  [s2l "SU"; s2l "MO"; s2l "TU"; s2l "WE"; s2l "TH"; s2l "FR"; s2l "SA"].
Definition weekday_value (t : str) : option (option Z * str) :=
  let u := upper t in
  let '(sg, r) := match u with
                  | c :: r => if c =? 43 then (Some false, r) else if c =? 45 then (Some true, r) else (None, u)
                  | [] => (None, u)
                  end in
  let '(ds, wd) := span_digits r in
  if existsb (str_eqb wd) rfc_weekdays then
    match ds with
    | [] => match sg with None => Some (None, wd) | Some _ => None end
    | _ => let n := digs_val ds 0%Z in
           if (List.length ds <=? 2)%nat && (1 <=? n)%Z && (n <=? 53)%Z
           then Some (Some (match sg with Some true => (- n)%Z | _ => n end), wd)
           else None
    end
  else None.
Definition weekday_grammar (t : str) : bool := match weekday_value t with Some _ => true | None => false end.

(* ---------------------------------------------------------------- vFrequency *)
Definition freq_new (v : str) : res str :=
  if negb (all_ascii v) then Unsup
  else match assoc (upper v) frequencies with Some _ => Ok v | None => ValueErr end.
Definition dec_freq (t : str) : res str := if negb (all_ascii t) then Unsup else freq_new (upper t).
Definition enc_freq (v : str) : str := upper v.

(* freq = "SECONDLY" / "MINUTELY" / "HOURLY" / "DAILY" / "WEEKLY" / "MONTHLY" / "YEARLY" *)
Definition rfc_freqs : list str :=
  [s2l "SECONDLY"; s2l "MINUTELY"; s2l "HOURLY"; s2l "DAILY"; s2l "WEEKLY"; s2l "MONTHLY"; s2l "YEARLY"].
Definition freq_grammar (t : str) : bool := existsb (str_eqb (upper t)) rfc_freqs.

(* ---------------------------------------------------------------- vMonth *)
Definition isdigit_str (s : str) : bool := match s with [] => false | _ => forallb is_digit s end.

(* vMonth(str) = vMonth.from_ical: (month number, leap?) *)
Definition dec_month (m : str) : res (Z * bool) :=
  if negb (all_ascii m) then Unsup else
  if isdigit_str m then bind (py_int m) (fun n => Ok (n, false))
  else match rev m with
       | [] => Escape s_index                       (* month[-1] on the empty string *)
       | last :: ir =>
           let init := rev ir in
           if negb (last =? 76) && isdigit_str init then ValueErr
           else bind (py_int init) (fun n => Ok (n, true))
       end.
(* str(self) = f"{int(self)}{'L' if self.leap else ''}" *)
Definition enc_month (n : Z) (leap : bool) : res str :=
  bind (py_str_int n) (fun t => Ok (t ++ (if leap then [76] else []))).

(* RFC 5545 monthnum = 1*2DIGIT ;1 to 12, RFC 7529: optionally followed by "L" *)
Definition month_value (t : str) : option (Z * bool) :=
  let '(ds, r) := span_digits t in
  let n := digs_val ds 0%Z in
  if ((1 <=? List.length ds) && (List.length ds <=? 2))%nat && (1 <=? n)%Z && (n <=? 12)%Z then
    match r with
    | [] => Some (n, false)
    | [c] => if c =? 76 then Some (n, true) else None
    | _ => None
    end
  else None.
Definition month_grammar (t : str) : bool := match month_value t with Some _ => true | None => false end.

(* ---------------------------------------------------------------- vUri, vCalAddress *)
(* to_ical is the UTF-8 encoding of the string and from_ical(x) = cls(x): on the decoded text both
   are the identity (the octet layer is undone by the caller's decode) *)
Definition enc_uri (s : str) : str := s.
Definition dec_uri (t : str) : str := t.
(* uri = scheme ":" ... ; only the scheme is recognised here (RFC 3986 3.1) *)
Definition uri_grammar (t : str) : bool :=
  let fix go (s : str) (first : bool) : bool :=
      match s with
      | [] => false
      | c :: r => if (c =? 58) then negb first
                  else if is_lower c || is_upper c
                          || (negb first && (is_digit c || (c =? 43) || (c =? 45) || (c =? 46)))
                       then go r false else false
      end in go t true.
