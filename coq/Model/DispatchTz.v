(* Dispatcher of the model area: time zones (C11 C12 C13).
   [dispatch_tz f a] = Some result when [f] names a function of this area.  Definitions only. *)
Require Import Lib.Base Model.Params Model.TzRules Model.TzCache Model.TzGen Model.TzId Gen.Gen_tz.
Require Model.TzOnsets.
From Coq Require Import String.
Local Open Scope string_scope.

Definition tzis (f : list N) (name : string) : bool := str_eqb f (s2l name).

Definition tz_jres {A} (f : A -> jv) (r : res A) : jv :=
  match r with
  | Ok a => f a
  | ValueErr => jerr "ValueError"
  | Escape k => jtag "err" [JS k]
  | Unsup => junsupported
  end.

Fixpoint jv_Zs (l : list jv) : option (list Z) :=
  match l with
  | [] => Some []
  | JZ z :: r => option_map (cons z) (jv_Zs r)
  | _ => None
  end.

(* ------------------------------------------------------------------ C12 *)
Definition obs_of (v : jv) : option obs :=
  match v with
  | JL [JZ d; JL ons; JZ f; JZ t; JL nm; JS synth] =>
      match jv_Zs ons, (match nm with [] => Some None | [JS n] => Some (Some n) | _ => None end) with
      | Some ons', Some nm' => Some (mkObs (negb (d =? 0)%Z) ons' f t nm' synth)
      | _, _ => None
      end
  | _ => None
  end.
Fixpoint vtz_of (l : list jv) : option vtz :=
  match l with
  | [] => Some []
  | x :: r => match obs_of x, vtz_of r with Some o, Some r' => Some (o :: r') | _, _ => None end
  end.

Definition jinfo (i : Z * Z * list N) : jv := let '(o, d, n) := i in JL [JZ o; JZ d; JS n].
Definition jrfc (r : option (Z * option (list N) * bool)) : jv :=
  match r with
  | None => jtag "none" []
  | Some (o, n, d) => JL [JZ o; (match n with Some n' => JL [JS n'] | None => JL [] end); jbool d]
  end.

(* what datetime makes of a tzinfo's answers: utcoffset() and dst() must lie strictly within one day,
   otherwise aware-datetime methods raise ValueError *)
Definition datetime_view (r : res (Z * Z * list N)) : res (Z * Z * list N) :=
  match r with
  | Ok (o, d, n) => if (Z.abs o <? 86400)%Z && (Z.abs d <? 86400)%Z then Ok (o, d, n) else ValueErr
  | e => e
  end.

Definition dispatch_c12 (f : list N) (a : jv) : option jv :=
  if tzis f "tz_get_transitions" then
    Some match a with
         | JL l => match vtz_of l with
                   | Some v => tz_jres (fun ti : list Z * list (Z * Z * list N) =>
                                          JL [JL (map JZ (fst ti)); JL (map jinfo (snd ti))]) (get_transitions v)
                   | None => junsupported end
         | _ => junsupported end
  else if tzis f "tz_pytz_path" then
    Some match a with
         | JL [JL l; JL ts] =>
             match vtz_of l, jv_Zs ts with
             | Some v, Some ts' =>
                 match pytz_create v with
                 | Ok ti => JL (map (fun t => tz_jres jinfo (datetime_view (pytz_fromutc (fst ti) (snd ti) t))) ts')
                 | r => tz_jres (fun _ => junsupported) r
                 end
             | _, _ => junsupported end
         | _ => junsupported end
  else if tzis f "tz_rfc_offset" then
    Some match a with
         | JL [JL l; JL ts] =>
             match vtz_of l, jv_Zs ts with
             | Some v, Some ts' => JL (map (fun t => jrfc (rfc_offset v t)) ts')
             | _, _ => junsupported end
         | _ => junsupported end
  else if tzis f "tz_yearly_onsets" then
    (* [y, mo, d, h, mi, s, bymonth, n, weekday (0 = MO), ["until", utc] | ["count", k] | ["unbounded"], tzoffsetfrom]
       -> the local onsets of the rule (Model/TzOnsets.v), ["outside"] when the rule is not in the family *)
    Some match a with
         | JL [JZ y; JZ mo; JZ d; JZ h; JZ mi; JZ s; JZ bm; JZ n; JZ wd; JL b; JZ frm] =>
             let bound :=
               match b with
               | [JS k; JZ u] => if tzis k "until" then Some (TzOnsets.YUntil u)
                                 else if tzis k "count" then Some (TzOnsets.YCount u) else None
               | [JS k] => if tzis k "unbounded" then Some TzOnsets.YUnbounded else None
               | _ => None
               end in
             match bound with
             | Some b' =>
                 match TzOnsets.family_onsets (TzOnsets.mkYrule y mo d h mi s bm n wd b' frm) with
                 | Some l => JL (map JZ l)
                 | None => jtag "outside" []
                 end
             | None => junsupported
             end
         | _ => junsupported end
  else if tzis f "tz_guard" then
    Some match a with
         | JL l => match vtz_of l with
                   | Some v => JL [jbool (whole_minutes v); jbool (order_ok v); jbool (names_ok v); jbool (has_std v);
                                   match first_onset v with Some t0 => JL [JZ t0] | None => JL [] end]
                   | None => junsupported end
         | _ => junsupported end
  else None.

(* the cache: provider = [known ids] [[id, zone number] ...], windows = [[name, olson] ...],
   calendars = lists of ["def", id, number] / ["use", id] *)
Fixpoint assoc_str {A} (l : list (list N * A)) (k : list N) : option A :=
  match l with [] => None | (k', a) :: r => if str_eqb k' k then Some a else assoc_str r k end.
Fixpoint pairs_sz (l : list jv) : option (list (list N * Z)) :=
  match l with
  | [] => Some []
  | JL [JS k; JZ z] :: r => option_map (cons (k, z)) (pairs_sz r)
  | _ => None
  end.
Fixpoint pairs_ss (l : list jv) : option (list (list N * list N)) :=
  match l with
  | [] => Some []
  | JL [JS k; JS z] :: r => option_map (cons (k, z)) (pairs_ss r)
  | _ => None
  end.
Fixpoint evs_of (l : list jv) : option (list (ev Z)) :=
  match l with
  | [] => Some []
  | JL [JS k; JS id; JZ d] :: r => if tzis k "def" then option_map (cons (Def id d)) (evs_of r) else None
  | JL [JS k; JS id] :: r => if tzis k "use" then option_map (cons (Use id)) (evs_of r) else None
  | _ => None
  end.
Fixpoint cals_of (l : list jv) : option (list (list (ev Z))) :=
  match l with
  | [] => Some []
  | JL c :: r => match evs_of c, cals_of r with Some c', Some r' => Some (c' :: r') | _, _ => None end
  | _ => None
  end.
Definition jtzres (r : option (tzres Z Z)) : jv :=
  match r with
  | None => jtag "none" []
  | Some (RProv z) => jtag "prov" [JZ z]
  | Some (RCustom d) => jtag "custom" [JZ d]
  end.

Definition dispatch_cache (f : list N) (a : jv) : option jv :=
  if tzis f "tz_cache_run" then
    Some match a with
         | JL [JL known; JL lookups; JL wins; JL cals] =>
             match jv_strs known, pairs_sz lookups, pairs_ss wins, cals_of cals with
             | Some kn, Some lk, Some ws, Some cs =>
                 let P := mkProvider Z (fun id => mem_str id kn) (assoc_str lk) in
                 JL (map (fun c => JL (map jtzres c)) (snd (run_cals Z Z P (assoc_str ws) [] cs)))
             | _, _, _, _ => junsupported
             end
         | _ => junsupported end
  else None.

(* ------------------------------------------------------------------ C13 *)
Definition tabval_of (l : list jv) : option (Z * Z * list N) :=
  match l with [JZ o; JZ d; JS n] => Some (o, d, n) | _ => None end.
Fixpoint ztab_of (l : list jv) : option ztab :=
  match l with
  | [] => Some []
  | JL (JZ b :: v) :: r =>
      match tabval_of v, ztab_of r with Some v', Some r' => Some ((b, v') :: r') | _, _ => None end
  | _ => None
  end.
Definition jgobs (g : gobs) : jv :=
  JL [jbool (g_std g); JZ (g_from g); JZ (g_to g); JS (g_name g); JZ (g_dtstart g); JL (map JZ (g_rdates g))].

Definition dispatch_c13 (f : list N) (a : jv) : option jv :=
  if tzis f "tz_from_tzinfo" then
    Some match a with
         | JL [JL tab; JL dflt; JZ pytz_axis; JZ H; JZ fuel; JZ first; JZ last; JZ last_wall] =>
             match ztab_of tab, tabval_of dflt with
             | Some tab', Some d =>
                 tz_jres (fun g => JL (map jgobs g))
                   (from_tzinfo_tab tab' d (negb (pytz_axis =? 0)%Z) H (Z.to_nat fuel) first last last_wall)
             | _, _ => junsupported
             end
         | _ => junsupported end
  else None.

(* ------------------------------------------------------------------ C11 *)
(* a tzinfo on the wire: [[ids...], [] | [tzname]];  a date-time: [wall, tzinfo, offset] or [wall] (floating) *)
Definition wtz : Type := (list (list N) * option (list N))%type.
Definition wtz_of (v : jv) : option wtz :=
  match v with
  | JL [JL ids; JL nm] =>
      match jv_strs ids, (match nm with [] => Some None | [JS n] => Some (Some n) | _ => None end) with
      | Some ids', Some nm' => Some (ids', nm') | _, _ => None end
  | _ => None
  end.
Definition wdt_of (v : jv) : option (dt wtz) :=
  match v with
  | JL [JZ w] => Some (mkDt wtz w None)
  | JL [JZ w; t; JZ o] => match wtz_of t with Some t' => Some (mkDt wtz w (Some (t', o))) | None => None end
  | _ => None
  end.
Fixpoint wdts_of (l : list jv) : option (list (dt wtz)) :=
  match l with
  | [] => Some []
  | x :: r => match wdt_of x, wdts_of r with Some d, Some r' => Some (d :: r') | _, _ => None end
  end.
Definition jopt_str (o : option (list N)) : jv := match o with Some s => JL [JS s] | None => JL [] end.
Definition jwire (w : wire) : jv := JL [JZ (w_wall w); jbool (w_z w); jopt_str (w_tzid w)].
Definition wtzids (t : wtz) := fst t.
Definition wtzname (t : wtz) (_ : Z) := snd t.
(* the UTC zone of the wire provider *)
Definition wP : provider wtz := mkProv wtz (fun _ => None) (fun z w => mkDt wtz w (Some (z, 0%Z))) (([UTCs], None), 0%Z).

Definition dispatch_c11 (f : list N) (a : jv) : option jv :=
  if tzis f "tzid_to_ical" then
    Some match wdt_of a with Some d => jwire (vdatetime_to_ical wtz wtzids wtzname d) | None => junsupported end
  else if tzis f "tzid_add_to_ical" then
    Some match a with
         | JL [JS lname; d] =>
             match wdt_of d with
             | Some d' => jwire (vdatetime_to_ical wtz wtzids wtzname (add_value wtz wP lname d'))
             | None => junsupported end
         | _ => junsupported end
  else if tzis f "tzid_list_to_ical" then
    Some match a with
         | JL l => match wdts_of l with
                   | Some ds => let r := list_to_ical wtz wtzids wtzname ds in JL [jopt_str (fst r); JL (map jwire (snd r))]
                   | None => junsupported end
         | _ => junsupported end
  else if tzis f "tzid_period_to_ical" then
    Some match a with
         | JL [s; e] => match wdt_of s, wdt_of e with
                        | Some s', Some e' => let r := period_to_ical wtz wtzids wtzname s' e' in
                                              JL [jopt_str (fst r); jwire (fst (snd r)); jwire (snd (snd r))]
                        | _, _ => junsupported end
         | _ => junsupported end
  else None.

Definition dispatch_tz (f : list N) (a : jv) : option jv :=
  match dispatch_c11 f a with Some r => Some r | None =>
  match dispatch_c12 f a with
  | Some r => Some r
  | None => match dispatch_cache f a with Some r => Some r | None => dispatch_c13 f a end
  end end.
