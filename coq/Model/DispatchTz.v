(* Dispatcher of the model area: time zones (C11 C12 C13).
   [dispatch_tz f a] = Some result when [f] names a function of this area.  Definitions only. *)
Require Import Lib.Base.
From Coq Require Import String.
Local Open Scope string_scope.

Definition dispatch_tz (f : list N) (a : jv) : option jv := None.
