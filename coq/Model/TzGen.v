(* C13 -- Timezone.from_tzinfo over an abstract zone.
   The zone is an oracle on an "axis" of integer seconds: for the zoneinfo provider the axis is
   naive WALL time (datetime + timedelta keeps tzinfo, utcoffset() is taken with fold=0, aware
   datetimes of one tzinfo compare by wall time); for pytz the axis is the INSTANT (normalize()
   re-expresses end + delta, localized datetimes compare by instant).  [wall_of] gives the naive
   wall clock written into DTSTART/RDATE (identity for zoneinfo, x + off x for pytz).
   [H] is datetime.max on the axis (OverflowError beyond it).  The skip list is generated from
   the source (Gen_tz.from_tzinfo_skips).  Definitions only. *)
Require Import Lib.Base Model.Params Model.TzRules Gen.Gen_tz.
From Coq Require Import Arith.
Open Scope Z_scope.

Definition fuel_cap : Z := 100000.   (* steps allowed at the coarsest level *)
Definition fine_cap : Z := 2000.     (* steps allowed at every finer level *)

Section Gen.
  Variable off : Z -> Z.            (* utcoffset() *)
  Variable dstv : Z -> Z.           (* dst() *)
  Variable name : Z -> list N.      (* tzname() *)
  Variable wall_of : Z -> Z.
  Variable H : Z.

  (* one level of the search:
       end = normalize(end + skip)
       while end.utcoffset() == offset_to: last_end = end; end = normalize(end + skip)
       end = last_end
     result (last_end, OverflowError raised) *)
  Fixpoint walk (fuel : nat) (a skip e : Z) : option (Z * bool) :=
    match fuel with
    | O => None
    | S n =>
        let e' := e + skip in
        if H <? e' then Some (e, true)
        else if off e' =? a then walk n a skip e' else Some (e, false)
    end.
  (* steps to the horizon, capped (a level that needs more steps makes the model decline) *)
  Definition walk_fuel (cap skip e : Z) : nat := Z.to_nat (Z.min ((H - e) / skip + 2) cap).

  (* for add_offset in skips: ... ; `except OverflowError: break` *)
  Fixpoint search_cap (cap : Z) (skips : list Z) (a e : Z) : option Z :=
    match skips with
    | [] => Some e
    | k :: r =>
        match walk (walk_fuel cap k e) a k e with
        | None => None
        | Some (e', true) => Some e'
        | Some (e', false) => search_cap fine_cap r a e'
        end
    end.
  Definition search := search_cap fuel_cap.

  (* one entry of the `offsets` dict: key (offset_from, offset_to, name, is_standard) and a start *)
  Record grec : Type := mkRec { r_from : option Z; r_to : Z; r_name : list N; r_std : bool; r_wall : Z }.

  (* while start < last_datetime: ... start = normalize(end + skips[-1]) *)
  Fixpoint loop (fuel : nat) (skips : list Z) (last start : Z) (prev : option Z) : option (list grec) :=
    match fuel with
    | O => None
    | S n =>
        if start <? last then
          let a := off start in
          match search skips a start with
          | None => None
          | Some e =>
              option_map (cons (mkRec prev a (name start) (dstv start =? 0) (wall_of start)))
                         (loop n skips last (e + List.last skips 1) (Some a))
          end
        else Some []
    end.
End Gen.

(* ------------------------------------------------------------------ grouping and emission *)
Definition gkey : Type := (option Z * Z * list N * bool)%type.
Definition key_of (r : grec) : gkey := (r_from r, r_to r, r_name r, r_std r).
Definition optZ_eqb (a b : option Z) : bool :=
  match a, b with Some x, Some y => x =? y | None, None => true | _, _ => false end.
Definition key_eqb (a b : gkey) : bool :=
  let '(f1, t1, n1, s1) := a in let '(f2, t2, n2, s2) := b in
  optZ_eqb f1 f2 && (t1 =? t2) && str_eqb n1 n2 && Bool.eqb s1 s2.

(* offsets[key].append(start): a dict keeps the insertion order of its keys *)
Fixpoint group_add (k : gkey) (w : Z) (g : list (gkey * list Z)) : list (gkey * list Z) :=
  match g with
  | [] => [(k, [w])]
  | (k', ws) :: r => if key_eqb k k' then (k', ws ++ [w]) :: r else (k', ws) :: group_add k w r
  end.
Definition group (recs : list grec) : list (gkey * list Z) :=
  fold_left (fun g r => group_add (key_of r) (r_wall r) g) recs [].

Fixpoint remove_first (x : Z) (l : list Z) : list Z :=
  match l with [] => [] | y :: r => if x =? y then r else y :: remove_first x r end.
Definition list_min (x : Z) (l : list Z) : Z := fold_left Z.min l x.

(* one STANDARD/DAYLIGHT sub-component as from_tzinfo fills it *)
Record gobs : Type := mkGobs {
  g_std : bool; g_from : Z; g_to : Z; g_name : list N; g_dtstart : Z; g_rdates : list Z }.

(* first_start = min(starts); starts.remove(first_start);
   if first_start.date() == last_date: first_start = midnight of last_date *)
Definition emit_one (last_wall : Z) (kv : gkey * list Z) : option gobs :=
  let '((f, t, n, s), starts) := kv in
  match starts with
  | [] => None
  | x :: r =>
      let m := list_min x r in
      let d := if m / 86400 =? last_wall / 86400 then last_wall else m in
      Some (mkGobs s (match f with Some f' => f' | None => t end) t n d (remove_first m starts))
  end.

Fixpoint emit (last_wall : Z) (g : list (gkey * list Z)) : option (list gobs) :=
  match g with
  | [] => Some []
  | kv :: r => match emit_one last_wall kv, emit last_wall r with
               | Some o, Some r' => Some (o :: r') | _, _ => None end
  end.

(* Timezone.from_tzinfo: the sub-components, in order *)
Definition from_tzinfo (off dstv : Z -> Z) (name : Z -> list N) (wall_of : Z -> Z) (H : Z) (fuel : nat)
           (first last last_wall : Z) : res (list gobs) :=
  match loop off dstv name wall_of H fuel from_tzinfo_skips last first None with
  | None => Unsup
  | Some recs => match emit last_wall (group recs) with Some g => Ok g | None => Unsup end
  end.

(* the component read back as a definition (C12's input): TZNAME is always written *)
Definition gobs_obs (g : gobs) : obs :=
  mkObs (negb (g_std g)) (g_dtstart g :: g_rdates g) (g_from g) (g_to g) (Some (g_name g)) [].
Definition to_vtz (g : list gobs) : vtz := map gobs_obs g.

(* ------------------------------------------------------------------ tabulated oracle (for the harness and the witnesses) *)
(* breakpoints ascending: (from this axis point on, off, dst, name); before the first: the default *)
Definition ztab : Type := list (Z * (Z * Z * list N)).
Fixpoint tab_get (tab : ztab) (dflt : Z * Z * list N) (x : Z) : Z * Z * list N :=
  match tab with
  | [] => dflt
  | (b, v) :: r => if x <? b then dflt else tab_get r v x
  end.
Definition tab_off (tab : ztab) d x : Z := fst (fst (tab_get tab d x)).
Definition tab_dst (tab : ztab) d x : Z := snd (fst (tab_get tab d x)).
Definition tab_name (tab : ztab) d x : list N := snd (tab_get tab d x).

(* pytz_axis = true: wall = x + off x; false (zoneinfo): wall = x *)
Definition from_tzinfo_tab (tab : ztab) d (pytz_axis : bool) (H : Z) (fuel : nat) (first last last_wall : Z) :=
  from_tzinfo (tab_off tab d) (tab_dst tab d) (tab_name tab d)
              (fun x => if pytz_axis then x + tab_off tab d x else x) H fuel first last last_wall.
