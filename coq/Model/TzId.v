(* C11 -- zoned date-times through vDatetime / vDDDTypes / vDDDLists / vPeriod and Component.add.
   A tzinfo object is abstract: [tzids] is tzids_from_tzinfo (one id for zoneinfo/pytz objects, the
   sorted equivalence class for dateutil objects), a date-time is (wall seconds, tzinfo, utc offset).
   The provider is a record of oracles (TZP.timezone, provider.localize, the UTC zone).
   The text form YYYYMMDDTHHMMSS of the wall clock is C03's codec; here a written value is the
   triple (wall, has Z suffix, TZID parameter).  Definitions only. *)
Require Import Lib.Base Model.TzRules Gen.Gen_tz.
From Coq Require Import String.
Open Scope Z_scope.

Definition UTCs : list N := s2l "UTC".

Section TzId.
  Variable tz : Type.
  Variable tzids : tz -> list (list N).          (* tzids_from_tzinfo (sorted) *)
  Variable tzname : tz -> Z -> option (list N).  (* dt.tzname() *)

  Record dt : Type := mkDt { d_wall : Z; d_tz : option (tz * Z) }.   (* tzinfo and utcoffset; None = floating *)

  Definition tzid_from_tzinfo (t : option tz) : option (list N) :=
    match t with
    | None => None
    | Some z => if mem_str UTCs (tzids z) then Some UTCs else hd_error (tzids z)
    end.

  Definition tzid_from_dt (d : dt) : option (list N) :=
    match d_tz d with
    | None => None
    | Some (z, _) => match tzid_from_tzinfo (Some z) with Some i => Some i | None => tzname z (d_wall d) end
    end.

  (* a written DATE-TIME value: wall clock fields, Z suffix, TZID parameter *)
  Record wire : Type := mkWire { w_wall : Z; w_z : bool; w_tzid : option (list N) }.

  (* vDatetime.to_ical (with the TZID it writes into its params): Z iff tzid = "UTC"; `elif tzid:` *)
  Definition vdatetime_to_ical (d : dt) : wire :=
    match tzid_from_dt d with
    | Some i => if str_eqb i UTCs then mkWire (d_wall d) true None
                else match i with [] => mkWire (d_wall d) false None | _ => mkWire (d_wall d) false (Some i) end
    | None => mkWire (d_wall d) false None
    end.

  Record provider : Type := mkProv {
    p_timezone : list N -> option tz;     (* TZP.timezone(id): provider, Windows names, cache *)
    p_localize : tz -> Z -> dt;           (* provider.localize(naive wall, tz) *)
    p_utc : tz * Z                        (* the provider's UTC zone (offset 0) *)
  }.
  Variable P : provider.

  (* vDatetime.from_ical(text, timezone=TZID) *)
  Definition vdatetime_from_ical (w : wire) : dt :=
    match (match w_tzid w with Some i => p_timezone P i | None => None end) with
    | Some z => p_localize P z (w_wall w)
    | None => if w_z w then mkDt (w_wall w) (Some (p_utc P)) else mkDt (w_wall w) None
    end.

  (* provider.localize_utc: aware -> astimezone(utc) (same instant), naive -> utc *)
  Definition localize_utc (d : dt) : dt :=
    match d_tz d with
    | Some (_, o) => mkDt (d_wall d - o) (Some (p_utc P))
    | None => mkDt (d_wall d) (Some (p_utc P))
    end.

  (* Component.add: `isinstance(value, datetime) and name.lower() in (...)` -> localize_utc.
     [lname] is the lower-cased property name *)
  Definition add_value (lname : list N) (d : dt) : dt :=
    if mem_str lname utc_forced_names then localize_utc d else d.

  (* vDDDLists: TZID parameter = that of the LAST element that has one (UTC elements have none) *)
  Definition elt_tzid (d : dt) : option (list N) :=
    match tzid_from_dt d with
    | Some i => if str_eqb i UTCs then None else Some i
    | None => None
    end.
  Definition list_tzid (l : list dt) : option (list N) :=
    fold_left (fun acc d => match elt_tzid d with Some i => Some i | None => acc end) l None.
  Definition list_to_ical (l : list dt) : option (list N) * list wire :=
    (list_tzid l, map (fun d => let w := vdatetime_to_ical d in mkWire (w_wall w) (w_z w) None) l).
  (* parsing: every element is read with the property's TZID *)
  Definition list_from_ical (p : option (list N) * list wire) : list dt :=
    map (fun w => vdatetime_from_ical (mkWire (w_wall w) (w_z w) (fst p))) (snd p).

  (* vPeriod (start, end): TZID = tzid_from_dt(start), "UTC" included *)
  Definition period_to_ical (s e : dt) : option (list N) * (wire * wire) :=
    (match tzid_from_dt s with Some [] => None | o => o end,
     (let w := vdatetime_to_ical s in mkWire (w_wall w) (w_z w) None,
      let w := vdatetime_to_ical e in mkWire (w_wall w) (w_z w) None)).
  Definition period_from_ical (p : option (list N) * (wire * wire)) : dt * dt :=
    (vdatetime_from_ical (mkWire (w_wall (fst (snd p))) (w_z (fst (snd p))) (fst p)),
     vdatetime_from_ical (mkWire (w_wall (snd (snd p))) (w_z (snd (snd p))) (fst p))).
End TzId.
