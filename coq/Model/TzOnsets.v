(* C12 -- the onsets of the common VTIMEZONE rule family, computed inside the model:
     DTSTART:<y mo d h mi s>  RRULE:FREQ=YEARLY;BYMONTH=<m>;BYDAY=<n><weekday>[;UNTIL=<utc>|;COUNT=<k>]
   Proleptic Gregorian day numbers (days since 1970-01-01, any year in Z), weekday of a date,
   the n-th / n-th from the end weekday of a month, and the list of local onsets (wall-clock
   seconds since 1970-01-01T00:00:00, the unit of [o_onsets] in Model/TzRules.v).
   [is_leap], [days_in_month], [valid_date], [valid_time], [ordinal] come from Model/CodecBase.v.
   Definitions only. *)
Require Import Lib.Base Model.Params Model.CodecBase.
Open Scope Z_scope.

(* ------------------------------------------------------------------ day numbers *)
(* days from 1970-01-01 to y-m-d; the year is counted from March (so that the leap day is the last
   day of the counted year), (153*mp+2)/5 = days before the month mp = 0 (March) .. 11 (February) *)
Definition days_from_civil (y m d : Z) : Z :=
  let y' := if m <=? 2 then y - 1 else y in
  let mp := if m <=? 2 then m + 9 else m - 3 in
  365 * y' + y' / 4 - y' / 100 + y' / 400 + (153 * mp + 2) / 5 + d - 1 - 719468.

(* the inverse: 400-year eras of 146097 days *)
Definition civil_from_days (z : Z) : Z * Z * Z :=
  let z := z + 719468 in
  let era := z / 146097 in
  let doe := z mod 146097 in
  let yoe := (doe - doe / 1460 + doe / 36524 - doe / 146096) / 365 in
  let doy := doe - (365 * yoe + yoe / 4 - yoe / 100) in
  let mp := (5 * doy + 2) / 153 in
  let d := doy - (153 * mp + 2) / 5 + 1 in
  let m := if mp <? 10 then mp + 3 else mp - 9 in
  (yoe + era * 400 + (if m <=? 2 then 1 else 0), m, d).

(* the date after y-m-d (by month lengths, independent of the day-number formula) *)
Definition next_date (y m d : Z) : Z * Z * Z :=
  if d <? days_in_month y m then (y, m, d + 1)
  else if m <? 12 then (y, m + 1, 1) else (y + 1, 1, 1).

(* Monday = 0 .. Sunday = 6 (Python's date.weekday(), the index in MO TU WE TH FR SA SU);
   1970-01-01 was a Thursday *)
Definition weekday_of_days (z : Z) : Z := (z + 3) mod 7.
Definition weekday (y m d : Z) : Z := weekday_of_days (days_from_civil y m d).

(* ------------------------------------------------------------------ BYDAY=<n><weekday> in a month *)
(* day of month of the n-th (n > 0) / n-th from the end (n < 0) weekday [wd] of month m of year y;
   None when the month has no such day (a fifth one), n = 0, or m / wd are out of range *)
Definition nth_weekday (y m n wd : Z) : option Z :=
  if negb ((1 <=? m) && (m <=? 12) && (0 <=? wd) && (wd <=? 6)) then None else
  let dim := days_in_month y m in
  let d1 := 1 + (wd - weekday y m 1) mod 7 in            (* the first [wd] of the month *)
  if 0 <? n then
    let d := d1 + 7 * (n - 1) in if d <=? dim then Some d else None
  else if n <? 0 then
    let dl := d1 + 7 * ((dim - d1) / 7) in                 (* the last [wd] of the month *)
    let d := dl + 7 * (n + 1) in if 1 <=? d then Some d else None
  else None.

(* how many of the [len] days a, a+1, ... satisfy f *)
Fixpoint count_days (f : Z -> bool) (a : Z) (len : nat) : Z :=
  match len with
  | O => 0
  | S k => (if f a then 1 else 0) + count_days f (a + 1) k
  end.

(* ------------------------------------------------------------------ the rule *)
Inductive ybound : Type :=
| YUntil (u : Z)          (* UNTIL=<date-time>Z: a UTC instant, seconds *)
| YCount (k : Z)          (* COUNT=k *)
| YUnbounded.             (* neither: the providers stop at 2038-12-31T00:00:00Z (fix_rrule_until) *)

Record yrule : Type := mkYrule {
  y_year : Z; y_month : Z; y_day : Z; y_hour : Z; y_min : Z; y_sec : Z;     (* DTSTART, wall clock *)
  y_bymonth : Z;
  y_n : Z; y_wd : Z;                                                         (* BYDAY=<n><wd> *)
  y_bound : ybound;
  y_from : Z                                                                 (* TZOFFSETFROM, seconds *)
}.

Definition local_secs (y m d h mi s : Z) : Z := days_from_civil y m d * 86400 + h * 3600 + mi * 60 + s.
Definition dtstart_secs (r : yrule) : Z :=
  local_secs (y_year r) (y_month r) (y_day r) (y_hour r) (y_min r) (y_sec r).

(* 2038-12-31T00:00:00Z *)
Definition horizon : Z := local_secs 2038 12 31 0 0 0.

(* the rule's instance in year Y, unless it lies before DTSTART *)
Definition candidate (r : yrule) (Y : Z) : option Z :=
  match nth_weekday Y (y_bymonth r) (y_n r) (y_wd r) with
  | Some d =>
      let o := local_secs Y (y_bymonth r) d (y_hour r) (y_min r) (y_sec r) in
      if dtstart_secs r <=? o then Some o else None
  | None => None
  end.

Fixpoint years_from (y : Z) (k : nat) : list Z :=
  match k with O => [] | S k' => y :: years_from (y + 1) k' end.
(* the years y0, y0+1, ..., ylast *)
Definition year_range (y0 ylast : Z) : list Z := years_from y0 (Z.to_nat (ylast - y0 + 1)).

Definition opt_list {A} (o : option A) : list A := match o with Some a => [a] | None => [] end.

Definition candidates (ylast : Z) (r : yrule) : list Z :=
  flat_map (fun Y => opt_list (candidate r Y)) (year_range (y_year r) ylast).

Fixpoint take_while {A} (f : A -> bool) (l : list A) : list A :=
  match l with
  | [] => []
  | x :: r => if f x then x :: take_while f r else []
  end.

(* UNTIL is a UTC instant: an onset is kept while its UTC time (onset - TZOFFSETFROM) is not after it *)
Definition within (r : yrule) (u : Z) (o : Z) : bool := o - y_from r <=? u.

(* the local onsets of the rule among the years y_year r .. ylast *)
Definition yearly_onsets (ylast : Z) (r : yrule) : list Z :=
  match y_bound r with
  | YUntil u => take_while (within r u) (candidates ylast r)
  | YUnbounded => take_while (within r horizon) (candidates ylast r)
  | YCount k => firstn (Z.to_nat k) (candidates ylast r)
  end.

(* ------------------------------------------------------------------ the family *)
Definition yrule_wf (r : yrule) : bool :=
  valid_date (y_year r) (y_month r) (y_day r) && valid_time (y_hour r) (y_min r) (y_sec r) &&
  (1 <=? y_bymonth r) && (y_bymonth r <=? 12) && (0 <=? y_wd r) && (y_wd r <=? 6) &&
  negb (y_n r =? 0).

Definition year_of_secs (o : Z) : Z := fst (fst (civil_from_days (o / 86400))).

(* a last year that cuts nothing off: no instance of a later year can satisfy the bound (UNTIL,
   horizon); for COUNT=k, 40 years per requested instance (a fifth weekday of February recurs after
   at most 40 years), not beyond the year 9999 *)
Definition default_last_year (r : yrule) : Z :=
  match y_bound r with
  | YUntil u => year_of_secs (u + y_from r)
  | YUnbounded => year_of_secs (horizon + y_from r)
  | YCount k => Z.min 9999 (y_year r + 40 * (Z.max k 0 + 1))
  end.

(* DTSTART is itself the first instance of its rule (RFC 5545 3.8.5.3 asks for that; otherwise
   libraries disagree about whether DTSTART counts and the observance is outside the family) *)
Definition dtstart_is_instance (ylast : Z) (r : yrule) : bool :=
  match yearly_onsets ylast r with
  | o :: _ => o =? dtstart_secs r
  | [] => false
  end.

(* what the dispatcher answers: the onsets of a rule of the family, None outside it *)
Definition family_onsets (r : yrule) : option (list Z) :=
  let ylast := default_last_year r in
  if yrule_wf r && dtstart_is_instance ylast r then Some (yearly_onsets ylast r) else None.

(* ------------------------------------------------------------------ example: the European rule *)
(* DAYLIGHT: DTSTART:19810329T020000, +0100 -> +0200, last Sunday of March, UNTIL = the onset of 2025 in UTC;
   STANDARD: DTSTART:19961027T030000, +0200 -> +0100, last Sunday of October, no end *)
Definition ex_eu_dst : yrule := mkYrule 1981 3 29 2 0 0 3 (-1) 6 (YUntil 1743296400) 3600.
Definition ex_eu_std : yrule := mkYrule 1996 10 27 3 0 0 10 (-1) 6 YUnbounded 7200.
