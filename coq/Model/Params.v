(* Property parameters: parser.dquote, q_split, q_join, param_value, validate_token,
   validate_param_value, Parameters.to_ical / from_ical.  Definitions only. *)
Require Import Lib.Base Gen.Gen_parser.
From Coq Require Import Arith.

(* three-valued results: Ok / Python ValueError / model declines (non-ASCII names, ...) *)
Inductive res (A : Type) : Type :=
| Ok (a : A)
| ValueErr
| Escape (kind : list N)      (* any other exception class, by name *)
| Unsup.
Arguments Ok {A} a.
Arguments ValueErr {A}.
Arguments Escape {A} kind.
Arguments Unsup {A}.

Definition bind {A B} (r : res A) (f : A -> res B) : res B :=
  match r with Ok a => f a | ValueErr => ValueErr | Escape k => Escape k | Unsup => Unsup end.

Definition in_ranges (rs : list (N * N)) (c : N) : bool :=
  existsb (fun r : N * N => (fst r <=? c) && (c <=? snd r)) rs.

(* ASCII helpers *)
Definition is_lower (c : N) : bool := (97 <=? c) && (c <=? 122).
Definition is_upper (c : N) : bool := (65 <=? c) && (c <=? 90).
Definition is_digit (c : N) : bool := (48 <=? c) && (c <=? 57).
Definition upper_chr (c : N) : N := if is_lower c then c - 32 else c.
Definition upper (s : list N) : list N := map upper_chr s.
Definition all_ascii (s : list N) : bool := forallb (fun c => c <? 128) s.

(* NAME = [\w.-]+ on ASCII; non-ASCII characters are not decided by the model *)
Definition is_token_chr (c : N) : bool :=
  is_lower c || is_upper c || is_digit c || (c =? 95) || (c =? 46) || (c =? 45).

Definition validate_token (name : list N) : res unit :=
  if negb (all_ascii name) then Unsup
  else match name with
       | [] => ValueErr
       | _ => if forallb is_token_chr name then Ok tt else ValueErr
       end.

Definition validate_param_value (v : list N) (quoted : bool) : res unit :=
  if existsb (in_ranges (if quoted then QUNSAFE_CHAR_ranges else UNSAFE_CHAR_ranges)) v
  then ValueErr else Ok tt.

(* dquote: DQUOTE becomes an apostrophe; quote iff a QUOTABLE character occurs *)
Definition dq_clean (v : list N) : list N := map (fun c => if c =? 34 then 39 else c) v.
Definition dquote (v : list N) : list N :=
  let v' := dq_clean v in
  if existsb (in_ranges QUOTABLE_ranges) v' then 34 :: v' ++ [34] else v'.

Fixpoint join_with (sep : N) (l : list (list N)) : list N :=
  match l with
  | [] => []
  | [x] => x
  | x :: r => x ++ sep :: join_with sep r
  end.

Definition q_join (l : list (list N)) : list N := join_with 44 (map dquote l).

(* q_split(st, sep, maxsplit): see parser.py; [cur] is the current piece, reversed *)
Fixpoint q_split_aux (sep : N) (maxsplit : option nat) (inq : bool) (splits : nat)
         (cur : list N) (s : list N) : list (list N) :=
  match s with
  | [] => []
  | ch :: r =>
      let inq' := if ch =? 34 then negb inq else inq in
      let issep := negb inq' && (ch =? sep) in
      let splits' := if issep then S splits else splits in
      let stop := (match r with [] => true | _ => false end)
                  || (match maxsplit with Some m => (splits' =? m)%nat | None => false end) in
      if issep then
        rev cur :: (if stop then [r] else q_split_aux sep maxsplit inq' splits' [] r)
      else
        if stop then [rev (ch :: cur) ++ r]
        else q_split_aux sep maxsplit inq' splits' (ch :: cur) r
  end.

Definition q_split (s : list N) (sep : N) (maxsplit : option nat) : list (list N) :=
  match maxsplit with
  | Some O => [s]
  | _ => q_split_aux sep maxsplit false 0 [] s
  end.

(* parameter values *)
Inductive pval := PStr (s : list N) | PList (l : list (list N)).
Definition params := list (list N * pval).     (* insertion-ordered, keys upper-case *)

Definition param_value (v : pval) : list N :=
  match v with PStr s => dquote s | PList l => q_join l end.

(* ordered-dict assignment: overwrite in place, else append *)
Fixpoint dict_set {V : Type} (k : list N) (v : V) (d : list (list N * V)) : list (list N * V) :=
  match d with
  | [] => [(k, v)]
  | (k', v') :: r => if str_eqb k k' then (k, v) :: r else (k', v') :: dict_set k v r
  end.

Fixpoint dict_get {V : Type} (k : list N) (d : list (list N * V)) : option V :=
  match d with
  | [] => None
  | (k', v') :: r => if str_eqb k k' then Some v' else dict_get k r
  end.

(* lexicographic order on code points (Python's str order) *)
Fixpoint str_ltb (a b : list N) : bool :=
  match a, b with
  | [], [] => false
  | [], _ :: _ => true
  | _ :: _, [] => false
  | x :: a', y :: b' => if x <? y then true else if y <? x then false else str_ltb a' b'
  end.
Definition str_leb (a b : list N) : bool := negb (str_ltb b a).

Fixpoint insert_sorted {V : Type} (e : list N * V) (l : list (list N * V)) : list (list N * V) :=
  match l with
  | [] => [e]
  | x :: r => if str_leb (fst e) (fst x) then e :: l else x :: insert_sorted e r
  end.
Definition sort_items {V : Type} (l : list (list N * V)) : list (list N * V) :=
  fold_right insert_sorted [] l.

(* Parameters.to_ical(sorted): KEY=value;KEY=value (keys are unique in a dict, so sorting by
   key is the tuple sort Python performs) *)
Definition params_to_ical (sorted : bool) (ps : params) : list N :=
  let items := if sorted then sort_items ps else ps in
  join_with 59 (map (fun kv : list N * pval => upper (fst kv) ++ 61 :: param_value (snd kv)) items).

(* str.strip(DQUOTE) *)
Fixpoint lstrip_q (s : list N) : list N :=
  match s with c :: r => if c =? 34 then lstrip_q r else s | [] => [] end.
Definition strip_q (s : list N) : list N := rev (lstrip_q (rev (lstrip_q s))).

Definition starts_q (s : list N) : bool := match s with c :: _ => c =? 34 | [] => false end.
Definition ends_q (s : list N) : bool := starts_q (rev s).

Fixpoint parse_vals (vs : list (list N)) : res (list (list N)) :=
  match vs with
  | [] => Ok []
  | v :: r =>
      let one := if starts_q v && ends_q v
                 then let v' := strip_q v in bind (validate_param_value v' true) (fun _ => Ok v')
                 else bind (validate_param_value v false) (fun _ => Ok v) in
      bind one (fun v' => bind (parse_vals r) (fun r' => Ok (v' :: r')))
  end.

Definition parse_param (param : list N) : res (list N * pval) :=
  match q_split param 61 (Some 1%nat) with
  | [key; val] =>
      bind (validate_token key) (fun _ =>
      bind (parse_vals (q_split val 44 None)) (fun vals =>
      match vals with
      | [] => Ok (upper key, PStr val)
      | [v] => Ok (upper key, PStr v)
      | _ => Ok (upper key, PList vals)
      end))
  | _ => ValueErr
  end.

Fixpoint parse_params_list (l : list (list N)) (acc : params) : res params :=
  match l with
  | [] => Ok acc
  | p :: r => bind (parse_param p) (fun kv => parse_params_list r (dict_set (fst kv) (snd kv) acc))
  end.

(* Parameters.from_ical(st)  (strict=False) *)
Definition params_from_ical (st : list N) : res params :=
  parse_params_list (q_split st 59 None) [].

(* ------------------------------------------------------------------ guards and canonical forms used by C08 / C05 *)
Definition no_chr (c : N) (s : list N) : bool := negb (mem_chr c s).
Definition nonempty_b (k : list N) : bool := match k with [] => false | _ => true end.
(* RFC token (iana-token / x-name), ASCII *)
Definition is_token (k : list N) : bool := nonempty_b k && forallb is_token_chr k.
(* a parameter value the parser accepts after DQUOTE -> apostrophe: no control characters *)
Definition wf_val (v : list N) : bool := negb (existsb (in_ranges QUNSAFE_CHAR_ranges) (dq_clean v)).
Definition wf_pval (v : pval) : bool :=
  match v with PStr s => wf_val s | PList l => forallb wf_val l end.

Fixpoint nodup_strs (l : list (list N)) : bool :=
  match l with
  | [] => true
  | x :: r => negb (existsb (str_eqb x) r) && nodup_strs r
  end.

(* names are tokens in any letter case, pairwise different after upper-casing *)
Definition wf_params (ps : params) : bool :=
  forallb (fun kv : list N * pval => is_token (fst kv) && wf_pval (snd kv)) ps
  && nodup_strs (map (fun kv : list N * pval => upper (fst kv)) ps).

(* what comes back: upper-cased name; DQUOTE replaced by apostrophe; an empty or one-element
   list is the same wire text as the bare string *)
Definition canon_pval (v : pval) : pval :=
  match v with
  | PStr s => PStr (dq_clean s)
  | PList [] => PStr []
  | PList [x] => PStr (dq_clean x)
  | PList l => PList (map dq_clean l)
  end.
Definition canon_params (ps : params) : params :=
  map (fun kv : list N * pval => (upper (fst kv), canon_pval (snd kv))) ps.
Definition order_params (sorted : bool) (ps : params) : params := if sorted then sort_items ps else ps.
