(* An independent reading of the RFC 5545 (section 3.1) content-line grammar

       contentline  = name *(";" param) ":" value
       name         = 1*(ALPHA / DIGIT / "-")
       param        = param-name "=" param-value *("," param-value)      param-name = name
       param-value  = paramtext / quoted-string
       paramtext    = *SAFE-CHAR          quoted-string = DQUOTE *QSAFE-CHAR DQUOTE
       QSAFE-CHAR   = any character except CONTROL and DQUOTE
       SAFE-CHAR    = any character except CONTROL, DQUOTE, ";", ":", ","
       value        = *VALUE-CHAR         (any character except CONTROL)
       CONTROL      = %x00-08 / %x0A-1F / %x7F

   as structural functions over the abstract syntax of a well-formed line: NOT a scanner.  The
   grammar is unambiguous, so "what a text denotes" is the denotation of the syntax tree that
   prints to it.  Nothing here looks at the parser; only the result TYPE of [rfc_denote] (and
   [upper], parameter names being case-insensitive) is shared with Model/Params.v.  The side
   condition of the first-parse theorem, [first_parse_guard], is at the end and is the only
   definition that mentions the implementation (the patterns of its two replace chains).
   Definitions only. *)
Require Import Lib.Base Lib.Chain Gen.Gen_parser Gen.Gen_cal Model.Params Model.Contentline Model.Tree.

(* ------------------------------------------------------------------ abstract syntax *)
Inductive pvalue : Type :=
| Plain (s : str)        (* paramtext *)
| Quoted (s : str).      (* quoted-string; [s] is the text between the DQUOTEs *)

Record rfc_line : Type := { rl_name : str; rl_params : list (str * list pvalue); rl_value : str }.

(* ------------------------------------------------------------------ well-formedness, clause by clause *)
Definition rfc_alpha (c : chr) : bool := ((65 <=? c) && (c <=? 90)) || ((97 <=? c) && (c <=? 122)).
Definition rfc_digit (c : chr) : bool := (48 <=? c) && (c <=? 57).
Definition name_char (c : chr) : bool := rfc_alpha c || rfc_digit c || (c =? 45).
Definition rfc_name_ok (s : str) : bool := match s with [] => false | _ => forallb name_char s end.

Definition rfc_control (c : chr) : bool := (c <=? 8) || ((10 <=? c) && (c <=? 31)) || (c =? 127).
Definition qsafe_char (c : chr) : bool := negb (rfc_control c) && negb (c =? 34).
Definition safe_char (c : chr) : bool := qsafe_char c && negb (c =? 59) && negb (c =? 58) && negb (c =? 44).
Definition value_char (c : chr) : bool := negb (rfc_control c).

Definition pvalue_ok (v : pvalue) : bool :=
  match v with Plain s => forallb safe_char s | Quoted s => forallb qsafe_char s end.
Definition param_ok (p : str * list pvalue) : bool :=
  rfc_name_ok (fst p) && match snd p with [] => false | vs => forallb pvalue_ok vs end.
Definition rfc_line_ok (l : rfc_line) : bool :=
  rfc_name_ok (rl_name l) && forallb param_ok (rl_params l) && forallb value_char (rl_value l).

(* ------------------------------------------------------------------ the text the grammar generates *)
Definition print_pvalue (v : pvalue) : str := match v with Plain s => s | Quoted s => 34 :: s ++ [34] end.
Fixpoint print_pvalues (vs : list pvalue) : str :=
  match vs with
  | [] => []
  | [v] => print_pvalue v
  | v :: r => print_pvalue v ++ 44 :: print_pvalues r
  end.
Definition print_param (p : str * list pvalue) : str := fst p ++ 61 :: print_pvalues (snd p).
Definition rfc_print (l : rfc_line) : str :=
  rl_name l ++ flat_map (fun p => 59 :: print_param p) (rl_params l) ++ 58 :: rl_value l.

(* ------------------------------------------------------------------ what the text denotes *)
(* a quoted-string denotes its content; one value is a string, several are a list; parameter
   names are case-insensitive and reported in upper case; the property name as written *)
Definition pvalue_text (v : pvalue) : str := match v with Plain s => s | Quoted s => s end.
Definition denote_values (vs : list pvalue) : pval :=
  match vs with
  | [v] => PStr (pvalue_text v)
  | _ => PList (map pvalue_text vs)
  end.
Definition rfc_denote (l : rfc_line) : str * params * str :=
  (rl_name l, map (fun p : str * list pvalue => (upper (fst p), denote_values (snd p))) (rl_params l), rl_value l).

(* ------------------------------------------------------------------ the side condition of the first-parse theorem *)
(* (1) the printed line contains no backslash followed by , : ; or backslash (the patterns
       escape_string replaces, wherever they stand: inside a value, a quoted string, or
       straddling a delimiter as in  P=a\;Q=b  or  P="a\":v);
   (2) it contains none of the placeholder texts %2C %3A %3B %5C that unescape_string expands;
   (3) no parameter name occurs twice (Parameters is a dict: the last occurrence wins). *)
Definition guard_no_escape (l : rfc_line) : bool := avoids forb_esc (rfc_print l).
Definition guard_no_placeholder (l : rfc_line) : bool := avoids forb_unesc (rfc_print l).
Definition guard_names_distinct (l : rfc_line) : bool :=
  nodup_strs (map (fun p : str * list pvalue => upper (fst p)) (rl_params l)).
Definition first_parse_guard (l : rfc_line) : bool :=
  guard_no_escape l && guard_no_placeholder l && guard_names_distinct l.

(* decidable comparison of what parts() returns with a denotation (used by the bounded
   exactness check of the guard and by the dispatcher) *)
Definition pval_beq (a b : pval) : bool :=
  match a, b with
  | PStr x, PStr y => str_eqb x y
  | PList x, PList y => strs_eqb x y
  | _, _ => false
  end.
Fixpoint params_beq (a b : params) : bool :=
  match a, b with
  | [], [] => true
  | (k, v) :: a', (k', v') :: b' => str_eqb k k' && pval_beq v v' && params_beq a' b'
  | _, _ => false
  end.
Definition parts_is (r : res (str * params * str)) (d : str * params * str) : bool :=
  match r with
  | Ok (n, ps, v) => let '(n', ps', v') := d in str_eqb n n' && params_beq ps ps' && str_eqb v v'
  | _ => false
  end.
Definition first_parse_agrees (l : rfc_line) : bool := parts_is (parts (rfc_print l)) (rfc_denote l).

(* every syntax tree with a property name from [names], at most [np] parameters named from
   [pnames] with 1..[nv] values each, paramtexts from [asafe], quoted contents from [aq] and a
   value from [av] *)
Fixpoint lists_exact {A} (xs : list A) (n : nat) : list (list A) :=
  match n with
  | O => [[]]
  | S k => flat_map (fun r => map (fun x => x :: r) xs) (lists_exact xs k)
  end.
Definition lists_between {A} (xs : list A) (lo hi : nat) : list (list A) :=
  flat_map (lists_exact xs) (seq lo (S hi - lo)).
Definition strs_upto (alpha : str) (n : nat) : list str := lists_between alpha 0 n.
Definition small_lines (names pnames asafe aq av : list str) (nv np : nat) : list rfc_line :=
  let pvs := map Plain asafe ++ map Quoted aq in
  let ps := flat_map (fun k => map (fun vs => (k, vs)) (lists_between pvs 1 nv)) pnames in
  flat_map (fun nm => flat_map (fun pl => map (fun v => {| rl_name := nm; rl_params := pl; rl_value := v |}) av)
                               (lists_between ps 0 np)) names.

(* ------------------------------------------------------------------ the line loop on already split lines *)
(* [run_lines] (Model/Tree.v) with the results of parts() given instead of the lines: what the
   from_ical stack machine does once every line has been split into (name, parameters, value) *)
Fixpoint run_parts (dec : decoder) (s : pstate) (rs : list (res (str * params * str))) : res pstate :=
  match rs with
  | [] => Ok s
  | r :: rest => match step_parts dec s r with
                 | Next s' => run_parts dec s' rest
                 | Break s' => Ok s'
                 | Raise ValueErr => ValueErr
                 | Raise (Escape k) => Escape k
                 | Raise _ => Unsup
                 end
  end.
Definition parse_parts (dec : decoder) (cache0 : list (res unit)) (multiple : bool)
           (rs : list (res (str * params * str))) : res (list comp) :=
  bind (run_parts dec {| stack := []; done := []; cache := cache0 |} rs) (fun s =>
  if multiple then Ok (done s)
  else match done s with [c] => Ok [c] | _ => ValueErr end).
Definition line_in_guard (l : rfc_line) : bool := rfc_line_ok l && first_parse_guard l.
Definition denoted (ls : list rfc_line) : list (res (str * params * str)) := map (fun l => Ok (rfc_denote l)) ls.
