(* Dispatcher of the recurrence-rule codec (C19): [dispatch_recur f a] = Some result when [f] names a
   function of this area.  Definitions only.

   Wire format:
     value = ( sint i<z> ) | ( smonth i<m> i<leap> ) | ( sstr s<text> ) | ( sdate i<y> i<m> i<d> )
           | ( sdatetime i<y> i<m> i<d> i<h> i<mi> i<s> i<utc> )
     vals  = ( sone value ) | ( smany ( value ... ) )
     rule  = ( ( s<key> vals ) ... )
   Every text must be ASCII (the models are of the ASCII behaviour of str.upper, \d, \w, int()). *)
Require Import Lib.Base Gen.Gen_recur Model.Params Model.Sort Model.Caseless Model.Dispatch Model.Recur.
From Coq Require Import String.
Local Open Scope string_scope.

Definition isr (f : list N) (name : string) : bool := str_eqb f (s2l name).

Definition nz (z : Z) : N := Z.to_N z.

Definition rv_of (v : jv) : option rv :=
  match v with
  | JL [JS t; JZ z] => if isr t "int" then Some (RInt z) else None
  | JL [JS t; JZ m; JZ l] => if isr t "month" then Some (RMonth m (negb (l =? 0)%Z)) else None
  | JL [JS t; JS s] => if isr t "str" then Some (RStr s) else None
  | JL [JS t; JZ y; JZ m; JZ d] => if isr t "date" then Some (RDate (nz y) (nz m) (nz d)) else None
  | JL [JS t; JZ y; JZ m; JZ d; JZ h; JZ mi; JZ s; JZ u] =>
      if isr t "datetime" then Some (RDateTime (nz y) (nz m) (nz d) (nz h) (nz mi) (nz s) (negb (u =? 0)%Z)) else None
  | _ => None
  end.

Fixpoint rvs_of (l : list jv) : option (list rv) :=
  match l with
  | [] => Some []
  | v :: r => match rv_of v, rvs_of r with
              | Some x, Some r' => Some (x :: r')
              | _, _ => None
              end
  end.

Definition rvals_of (v : jv) : option rvals :=
  match v with
  | JL [JS t; x] =>
      if isr t "one" then option_map One (rv_of x)
      else if isr t "many" then match x with JL l => option_map Many (rvs_of l) | _ => None end
      else None
  | _ => None
  end.

Fixpoint items_of (l : list jv) : option (list (key * rvals)) :=
  match l with
  | [] => Some []
  | JL [JS k; v] :: r => match rvals_of v, items_of r with
                         | Some x, Some r' => Some ((KStr k, x) :: r')
                         | _, _ => None
                         end
  | _ => None
  end.

Definition rv_ascii (v : rv) : bool := match v with RStr s => all_ascii s | _ => true end.
Definition items_ascii (l : list (key * rvals)) : bool :=
  forallb (fun kv : key * rvals => key_ascii (fst kv) && forallb rv_ascii (vals_list (snd kv))) l.

Definition jrv (v : rv) : jv :=
  match v with
  | RInt z => jtag "int" [JZ z]
  | RMonth m l => jtag "month" [JZ m; jbool l]
  | RStr s => jtag "str" [JS s]
  | RDate y m d => jtag "date" [jN y; jN m; jN d]
  | RDateTime y m d h mi s u => jtag "datetime" [jN y; jN m; jN d; jN h; jN mi; jN s; jbool u]
  end.

Definition jrvals (v : rvals) : jv :=
  match v with
  | One x => jtag "one" [jrv x]
  | Many l => jtag "many" [JL (map jrv l)]
  end.

Definition jrdict (d : rdict) : jv := JL (map (fun kv : str * rvals => JL [JS (fst kv); jrvals (snd kv)]) d).

Definition dispatch_recur (f : list N) (a : jv) : option jv :=
  if isr f "recur_roundtrip" then
    Some match a with
         | JL l =>
             match items_of l with
             | Some items =>
                 if items_ascii items then
                   let d := recur_new items in
                   let t := recur_to_ical d in
                   JL [jres JS t;
                       match t with Ok txt => jres jrdict (recur_from_ical txt) | _ => jtag "none" [] end;
                       jrdict (canon_rule d);
                       jbool (rule_ok d);
                       jbool (rfc_rule_ok d);
                       match t with Ok txt => jbool (recur_grammar txt) | _ => jtag "none" [] end;
                       match t with
                       | Ok txt => match recur_from_ical txt with
                                   | Ok d' => jres JS (recur_to_ical d')
                                   | _ => jtag "none" []
                                   end
                       | _ => jtag "none" []
                       end]
                 else junsupported
             | None => junsupported
             end
         | _ => junsupported
         end
  else if isr f "recur_from_ical" then
    Some match a with
         | JS txt => if all_ascii txt then jres jrdict (recur_from_ical txt) else junsupported
         | _ => junsupported
         end
  else if isr f "recur_grammar" then
    Some match a with
         | JS txt => if all_ascii txt then jbool (recur_grammar txt) else junsupported
         | _ => junsupported
         end
  else if isr f "recur_dec_val" then
    Some match a with
         | JL [JS k; JS txt] =>
             if all_ascii k && all_ascii txt then
               match dec_val (vtype_for k) txt with
               | Escape _ => jerr "ValueError"       (* inside vRecur.from_ical every exception becomes ValueError *)
               | r => jres jrv r
               end
             else junsupported
         | _ => junsupported
         end
  else None.
