(* Model of icalendar.caselessdict: CaselessDict (an OrderedDict subclass that upper-cases its
   keys) as a state machine over mapping operations, the reference machine (a plain
   insertion-ordered dictionary keyed by the upper-cased name), and canonsort_keys.
   Definitions only.

   A dictionary is an association list in insertion order (collections.OrderedDict).  Every
   overridden method of CaselessDict is modelled as written: "to_unicode, upper, delegate to
   OrderedDict".  The inherited, not overridden methods are modelled by what actually happens
   on CPython 3.12: OrderedDict.__init__/update-style paths (__init__, __or__, __ior__,
   __ror__, fromkeys, copy) store through self.__setitem__ and therefore fold the key;
   move_to_end does not go through any overridden method and therefore does NOT fold. *)
Require Import Lib.Base Model.Params Model.Sort.

(* ---------------------------------------------------------------- keys as the caller writes them *)
Inductive key :=
| KStr (s : list N)          (* a str, code points *)
| KBytes (b : list N).       (* a bytes object, octets *)

(* parser_tools.to_unicode: str unchanged, bytes decoded as UTF-8 (identity on ASCII octets; the
   dispatcher declines non-ASCII keys, for which neither decoding nor str.upper is modelled) *)
Definition to_unicode (k : key) : list N := match k with KStr s => s | KBytes b => b end.
Definition ckey (k : key) : list N := upper (to_unicode k).
Definition key_ascii (k : key) : bool := all_ascii (to_unicode k).

Section Dict.
  Variable V : Type.
  Variable veqb : V -> V -> bool.

  Definition dict := list (list N * V).
  Definition keys (d : dict) : list (list N) := map fst d.

  (* ------------------------------------------------------------ OrderedDict primitives *)
  Definition dict_mem (k : list N) (d : dict) : bool :=
    match dict_get k d with Some _ => true | None => false end.

  Fixpoint dict_del (k : list N) (d : dict) : dict :=
    match d with
    | [] => []
    | (k', v') :: r => if str_eqb k k' then r else (k', v') :: dict_del k r
    end.

  Definition dict_update (d : dict) (ps : dict) : dict :=
    fold_left (fun acc kv => dict_set (fst kv) (snd kv) acc) ps d.
  Definition dict_of (ps : dict) : dict := dict_update [] ps.

  (* popitem(): the last item *)
  Fixpoint dict_popitem (d : dict) : option (dict * (list N * V)) :=
    match d with
    | [] => None
    | x :: r => match dict_popitem r with
                | None => Some ([], x)
                | Some (r', y) => Some (x :: r', y)
                end
    end.

  Definition dict_move_to_end (k : list N) (last : bool) (d : dict) : option dict :=
    match dict_get k d with
    | None => None
    | Some v => Some (if last then dict_del k d ++ [(k, v)] else (k, v) :: dict_del k d)
    end.

  (* dict.__eq__: same number of items and every item of a found in b with an equal value *)
  Definition dict_eq (a b : dict) : bool :=
    Nat.eqb (List.length a) (List.length b) &&
    forallb (fun kv => match dict_get (fst kv) b with Some v' => veqb (snd kv) v' | None => false end) a.

  (* ------------------------------------------------------------ operations and results *)
  Definition kdict := list (key * V).          (* items with keys as the caller wrote them *)

  Inductive op :=
  | OInit (args : kdict)            (* CaselessDict(mapping | pairs, **kw): a new object replaces the state *)
  | OFromKeys (ks : list key) (v : V)   (* CaselessDict.fromkeys(ks, v): likewise *)
  | OGetItem (k : key)
  | OSetItem (k : key) (v : V)
  | ODelItem (k : key)
  | OContains (k : key)
  | OHasKey (k : key)
  | OGet (k : key) (dflt : option V)       (* get(k) / get(k, dflt) *)
  | OSetDefault (k : key) (v : V)
  | OPop (k : key) (dflt : option V)       (* pop(k) / pop(k, dflt) *)
  | OPopItem
  | OUpdate (ps : kdict)            (* update(mapping | pairs, ..., **kw): all items in call order *)
  | OCopy
  | OOr (other : kdict)             (* self | other *)
  | ORor (other : kdict)            (* other | self, other a plain dict *)
  | OIor (other : kdict)            (* self |= other *)
  | OEq (other : dict)              (* self == mapping with these items (str keys as written) *)
  | ONe (other : dict)
  | OEqNonMapping                   (* self == 5 *)
  | OClear
  | OLen
  | OKeys
  | OReversed
  | OMoveToEnd (k : key) (last : bool).

  Inductive out :=
  | RNone
  | RVal (v : V)
  | RBool (b : bool)
  | RKeyError
  | RErr (kind : list N)
  | RDict (d : dict)
  | RItem (k : list N) (v : V)
  | RKeys (l : list (list N))
  | RLen (n : nat).

  (* ------------------------------------------------------------ CaselessDict *)
  (* __setitem__: key = to_unicode(key); super().__setitem__(key.upper(), value) *)
  Definition c_setitem (d : dict) (k : key) (v : V) : dict := dict_set (ckey k) v d.
  (* every path that stores item after item through self[key] = value *)
  Definition c_update (d : dict) (ps : kdict) : dict :=
    fold_left (fun acc kv => c_setitem acc (fst kv) (snd kv)) ps d.
  (* __init__: OrderedDict.__init__ stores through __setitem__ (keys arrive folded), then the
     loop of CaselessDict.__init__ finds every key equal to its upper and changes nothing *)
  Definition c_init (ps : kdict) : dict := c_update [] ps.
  (* a dict passed where a mapping is expected is iterated as its items with str keys *)
  Definition as_kdict (d : dict) : kdict := map (fun kv => (KStr (fst kv), snd kv)) d.
  (* copy(): type(self)(super().copy()) ; OrderedDict.copy is self.__class__(self) *)
  Definition c_copy (d : dict) : dict := c_init (as_kdict (c_init (as_kdict d))).

  Definition get_out (o : option V) (dflt : option V) : out :=
    match o with
    | Some v => RVal v
    | None => match dflt with Some x => RVal x | None => RNone end
    end.

  Definition step (s : dict) (o : op) : dict * out :=
    match o with
    | OInit args => (c_init args, RNone)
    | OFromKeys ks v => (c_init (map (fun k => (k, v)) ks), RNone)
    | OGetItem k => (s, match dict_get (ckey k) s with Some v => RVal v | None => RKeyError end)
    | OSetItem k v => (c_setitem s k v, RNone)
    | ODelItem k => if dict_mem (ckey k) s then (dict_del (ckey k) s, RNone) else (s, RKeyError)
    | OContains k => (s, RBool (dict_mem (ckey k) s))
    | OHasKey k => (s, RBool (dict_mem (ckey k) s))
    | OGet k dflt => (s, get_out (dict_get (ckey k) s) dflt)
    | OSetDefault k v =>
        match dict_get (ckey k) s with
        | Some v' => (s, RVal v')
        | None => (dict_set (upper (ckey k)) v s, RVal v)   (* OrderedDict.setdefault stores through __setitem__ *)
        end
    (* pop(self, key, default=None): super().pop(key.upper(), default) -- the default is always
       passed on, so a missing key never raises *)
    | OPop k dflt =>
        match dict_get (ckey k) s with
        | Some v => (dict_del (ckey k) s, RVal v)
        | None => (s, get_out None dflt)
        end
    | OPopItem =>
        match dict_popitem s with
        | Some (s', (k, v)) => (s', RItem k v)
        | None => (s, RKeyError)
        end
    | OUpdate ps => (c_update s ps, RNone)
    | OCopy => (s, RDict (c_copy s))
    | OOr other => (s, RDict (c_update (c_init (as_kdict s)) other))
    | ORor other => (s, RDict (c_update (c_init other) (as_kdict s)))
    | OIor other => (c_update s other, RNone)
    (* __eq__: self is other or dict(self.items()) == dict(other.items()) *)
    | OEq other => (s, RBool (dict_eq (dict_of s) (dict_of other)))
    | ONe other => (s, RBool (negb (dict_eq (dict_of s) (dict_of other))))
    | OEqNonMapping => (s, RErr (s2l "AttributeError"))
    | OClear => ([], RNone)
    | OLen => (s, RLen (List.length s))
    | OKeys => (s, RKeys (keys s))
    | OReversed => (s, RKeys (rev (keys s)))
    (* inherited OrderedDict.move_to_end: the key is looked up as written (a bytes key never
       equals a stored str key) *)
    | OMoveToEnd k last =>
        match k with
        | KStr raw => match dict_move_to_end raw last s with
                      | Some s' => (s', RNone)
                      | None => (s, RKeyError)
                      end
        | KBytes _ => (s, RKeyError)
        end
    end.

  Definition run (s : dict) (ops : list op) : dict * list out :=
    fold_left (fun acc o => let '(s', r) := step (fst acc) o in (s', snd acc ++ [r])) ops (s, []).

  (* ------------------------------------------------------------ the reference: a dictionary keyed by upper *)
  Definition fold_items (ps : kdict) : dict := map (fun kv => (ckey (fst kv), snd kv)) ps.
  Definition upper_items (ps : dict) : dict := map (fun kv => (upper (fst kv), snd kv)) ps.

  Definition rstep (s : dict) (o : op) : dict * out :=
    match o with
    | OInit args => (dict_of (fold_items args), RNone)
    | OFromKeys ks v => (dict_of (map (fun k => (ckey k, v)) ks), RNone)
    | OGetItem k => (s, match dict_get (ckey k) s with Some v => RVal v | None => RKeyError end)
    | OSetItem k v => (dict_set (ckey k) v s, RNone)
    | ODelItem k => if dict_mem (ckey k) s then (dict_del (ckey k) s, RNone) else (s, RKeyError)
    | OContains k => (s, RBool (dict_mem (ckey k) s))
    | OHasKey k => (s, RBool (dict_mem (ckey k) s))
    | OGet k dflt => (s, get_out (dict_get (ckey k) s) dflt)
    | OSetDefault k v =>
        match dict_get (ckey k) s with
        | Some v' => (s, RVal v')
        | None => (dict_set (ckey k) v s, RVal v)
        end
    | OPop k dflt =>
        match dict_get (ckey k) s with
        | Some v => (dict_del (ckey k) s, RVal v)
        | None => (s, match dflt with Some x => RVal x | None => RKeyError end)   (* dict.pop raises *)
        end
    | OPopItem =>
        match dict_popitem s with
        | Some (s', (k, v)) => (s', RItem k v)
        | None => (s, RKeyError)
        end
    | OUpdate ps => (dict_update s (fold_items ps), RNone)
    | OCopy => (s, RDict s)
    | OOr other => (s, RDict (dict_update s (fold_items other)))
    | ORor other => (s, RDict (dict_update (dict_of (fold_items other)) s))
    | OIor other => (dict_update s (fold_items other), RNone)
    (* equal to any mapping with the same upper-cased content *)
    | OEq other => (s, RBool (dict_eq s (dict_of (upper_items other))))
    | ONe other => (s, RBool (negb (dict_eq s (dict_of (upper_items other)))))
    | OEqNonMapping => (s, RBool false)          (* dict.__eq__ gives NotImplemented, == is then False *)
    | OClear => ([], RNone)
    | OLen => (s, RLen (List.length s))
    | OKeys => (s, RKeys (keys s))
    | OReversed => (s, RKeys (rev (keys s)))
    | OMoveToEnd k last =>
        match dict_move_to_end (ckey k) last s with
        | Some s' => (s', RNone)
        | None => (s, RKeyError)
        end
    end.

  Definition rrun (s : dict) (ops : list op) : dict * list out :=
    fold_left (fun acc o => let '(s', r) := rstep (fst acc) o in (s', snd acc ++ [r])) ops (s, []).

  (* ------------------------------------------------------------ guard: the operation classes in which the
     pinned code is known to deviate from the reference (known findings C17-F1..F3) *)
  Definition is_upper_str (k : list N) : bool := str_eqb (upper k) k.
  Definition op_ok (s : dict) (o : op) : bool :=
    match o with
    | OPop k None => dict_mem (ckey k) s                      (* F1: pop(missing) without default *)
    | OEq other | ONe other => forallb (fun kv => is_upper_str (fst kv)) other   (* F2: == with lower-case keys *)
    | OEqNonMapping => false                                  (* F2: == with a non-mapping *)
    | OMoveToEnd (KStr raw) _ => is_upper_str raw             (* F3: move_to_end bypasses folding *)
    | OMoveToEnd (KBytes _) _ => false
    | _ => true
    end.

  (* the guard along a run of the model *)
  Fixpoint ops_ok (s : dict) (ops : list op) : bool :=
    match ops with
    | [] => true
    | o :: r => op_ok s o && ops_ok (fst (step s o)) r
    end.

  (* invariants of the stored state *)
  Definition keys_upper (d : dict) : Prop := Forall (fun k => upper k = k) (keys d).
End Dict.

Arguments OInit {V}. Arguments OFromKeys {V}. Arguments OGetItem {V}. Arguments OSetItem {V}.
Arguments ODelItem {V}. Arguments OContains {V}. Arguments OHasKey {V}. Arguments OGet {V}.
Arguments OSetDefault {V}. Arguments OPop {V}. Arguments OPopItem {V}. Arguments OUpdate {V}.
Arguments OCopy {V}. Arguments OOr {V}. Arguments ORor {V}. Arguments OIor {V}. Arguments OEq {V}.
Arguments ONe {V}. Arguments OEqNonMapping {V}. Arguments OClear {V}. Arguments OLen {V}.
Arguments OKeys {V}. Arguments OReversed {V}. Arguments OMoveToEnd {V}.
Arguments RNone {V}. Arguments RVal {V}. Arguments RBool {V}. Arguments RKeyError {V}.
Arguments RErr {V}. Arguments RDict {V}. Arguments RItem {V}. Arguments RKeys {V}. Arguments RLen {V}.
Arguments keys {V}. Arguments dict_mem {V}. Arguments dict_del {V}. Arguments dict_update {V}.
Arguments dict_of {V}. Arguments dict_popitem {V}. Arguments dict_move_to_end {V}.
Arguments dict_eq {V}. Arguments c_setitem {V}. Arguments c_update {V}. Arguments c_init {V}.
Arguments as_kdict {V}. Arguments c_copy {V}. Arguments get_out {V}. Arguments step {V}.
Arguments run {V}. Arguments fold_items {V}. Arguments upper_items {V}. Arguments rstep {V}.
Arguments rrun {V}. Arguments op_ok {V}. Arguments ops_ok {V}. Arguments keys_upper {V}.

(* first occurrences, in order *)
Fixpoint dedup_first (l : list (list N)) : list (list N) :=
  match l with
  | [] => []
  | k :: r => k :: filter (fun x => negb (str_eqb k x)) (dedup_first r)
  end.

(* ---------------------------------------------------------------- canonsort_keys *)
(* canonical_map = {k: i for i, k in enumerate(canonical_order)}: a repeated name keeps its LAST index *)
Fixpoint last_index (k : list N) (order : list (list N)) (i : nat) : option nat :=
  match order with
  | [] => None
  | c :: r => match last_index k r (S i) with
              | Some j => Some j
              | None => if str_eqb k c then Some i else None
              end
  end.
Definition canon_idx (order : list (list N)) (k : list N) : option nat := last_index k order 0.
Definition in_canon (order : list (list N)) (k : list N) : bool :=
  match canon_idx order k with Some _ => true | None => false end.
Definition idx_or (order : list (list N)) (k : list N) : nat :=
  match canon_idx order k with Some i => i | None => List.length order end.
Definition idx_leb (order : list (list N)) (a b : list N) : bool := Nat.leb (idx_or order a) (idx_or order b).

(* head = [k for k in keys if k in canonical_map]; tail = the others;
   sorted(head, key=canonical_map.get) + sorted(tail) *)
Definition canonsort_keys (ks order : list (list N)) : list (list N) :=
  sort_by (idx_leb order) (filter (in_canon order) ks)
  ++ sort_by str_leb (filter (fun k => negb (in_canon order k)) ks).

(* canonsort_items / sorted_items: [(k, d[k]) for k in canonsort_keys(d.keys(), order)] *)
Definition canonsort_items {V} (d : list (list N * V)) (order : list (list N)) : list (list N * option V) :=
  map (fun k => (k, dict_get k d)) (canonsort_keys (map fst d) order).

(* the specification side: membership in a list of names *)
Definition mem_str (k : list N) (l : list (list N)) : bool := existsb (str_eqb k) l.
