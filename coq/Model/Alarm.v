(* Model of alarms.py (Alarms, AlarmTime) and of the Alarm component's TRIGGER,
   TRIGGER_RELATED, REPEAT, DURATION, ACKNOWLEDGED, triggers (C14, C15).  Definitions only.
   Times, zone oracle and the component's start/end come from Model/StartEnd.v. *)
Require Import Lib.Base Model.Params Gen.Gen_sched Model.StartEnd.
From Coq Require Import String.
Local Open Scope Z_scope.

(* ------------------------------------------------------------------ the VALARM component *)
Record alarm := {
  a_trigger : entry;          (* what is stored under TRIGGER: nothing / one vDDDTypes / a list *)
  a_related : option str;     (* the RELATED parameter of TRIGGER as written, if any *)
  a_repeat : option Z;        (* REPEAT, if present (an int) *)
  a_duration : option Z;      (* DURATION, if present (a timedelta) *)
  a_ack : option Z            (* ACKNOWLEDGED as a UTC instant, if present *)
}.

(* Alarm.TRIGGER: create_single_property("TRIGGER", "dt", (datetime, timedelta)) *)
Definition get_TRIGGER (e : entry) : sres (option pyval) :=
  match e with
  | Absent => SOk None
  | Many => SVal InvalidCal
  | One v => if accepts Alarm_TRIGGER_types v then SOk (Some v) else SVal InvalidCal
  end.

(* Alarm.TRIGGER_RELATED: trigger.params.get("RELATED", "START") -- the raw parameter value *)
Definition trigger_related (a : alarm) : str :=
  match a_related a with Some r => r | None => related_default end.

(* Alarm.REPEAT: int(self.get("REPEAT", 0)) *)
Definition get_REPEAT (a : alarm) : Z := match a_repeat a with Some n => n | None => 0 end.

(* Alarms.add_alarm: where an alarm goes.  `isinstance(trigger, date)` selects the absolute
   ones; the others are START-relative iff TRIGGER_RELATED == "START" (case-sensitive
   comparison with the generated literal), END-relative in every other case *)
Inductive aclass := CNone | CAbs (t : time) | CStart (td : Z) | CEnd (td : Z).

Definition classify (a : alarm) : sres aclass :=
  sbind (get_TRIGGER (a_trigger a)) (fun tr =>
    match tr with
    | None => SOk CNone
    | Some (VTime t) => SOk (CAbs t)
    | Some (VDelta td) => if str_eqb (trigger_related a) related_start_literal then SOk (CStart td) else SOk (CEnd td)
    | Some VOther => SVal InvalidCal     (* not reachable: get_TRIGGER rejects it *)
    end).

Record alarm_lists := {
  l_end : list (alarm * Z); l_start : list (alarm * Z); l_abs : list (alarm * time) }.
Definition no_alarms : alarm_lists := {| l_end := []; l_start := []; l_abs := [] |}.

(* add_alarm for every alarm of the component, in order; the first error aborts *)
Fixpoint add_alarms (als : list alarm) : sres alarm_lists :=
  match als with
  | [] => SOk no_alarms
  | a :: r =>
      sbind (classify a) (fun c =>
      sbind (add_alarms r) (fun ls =>
        SOk match c with
            | CNone => ls
            | CAbs t => {| l_end := l_end ls; l_start := l_start ls; l_abs := (a, t) :: l_abs ls |}
            | CStart td => {| l_end := l_end ls; l_start := (a, td) :: l_start ls; l_abs := l_abs ls |}
            | CEnd td => {| l_end := (a, td) :: l_end ls; l_start := l_start ls; l_abs := l_abs ls |}
            end))
  end.

(* Alarms._add: a date plus whole days stays a date; otherwise the date becomes midnight;
   the sum is normalised (pytz) *)
Definition alarm_add (o : zoracle) (dt : time) (td : Z) : time :=
  match dt with
  | Date d => if td mod day =? 0 then Date (d + td / day)
              else normalize o (tadd (to_datetime dt) td)
  | _ => normalize o (tadd dt td)
  end.

(* Alarms._repeat: the first time, then `if repeat and duration:` (truthiness: REPEAT 0 and
   timedelta(0) count as absent) one further time per i in range(1, repeat + 1) *)
Definition truthy_dur (d : option Z) : bool := match d with Some x => negb (x =? 0) | None => false end.
Definition repeat_times (o : zoracle) (first : time) (a : alarm) : list time :=
  first ::
  (if negb (get_REPEAT a =? 0) && truthy_dur (a_duration a) then
     match a_duration a with
     | Some d => map (fun i => alarm_add o first (d * Z.of_nat i)) (seq 1 (Z.to_nat (get_REPEAT a)))
     | None => []
     end
   else []).

(* the alarm times before localisation: (alarm, trigger) pairs *)
Definition rel_times (o : zoracle) (anchor : option time) (missing : vtag) (l : list (alarm * Z))
  : sres (list (alarm * time)) :=
  match anchor, l with
  | None, _ :: _ => SVal missing
  | None, [] => SOk []
  | Some t0, _ =>
      SOk (flat_map (fun p : alarm * Z =>
                       map (fun t => (fst p, t)) (repeat_times o (alarm_add o t0 (snd p)) (fst p))) l)
  end.

Definition abs_times (o : zoracle) (l : list (alarm * time)) : list (alarm * time) :=
  flat_map (fun p : alarm * time => map (fun t => (fst p, t)) (repeat_times o (snd p) (fst p))) l.

(* Alarms.times without _alarm_time: end alarms, then start alarms, then absolute ones *)
Definition raw_times (o : zoracle) (start end_ : option time) (ls : alarm_lists) : sres (list (alarm * time)) :=
  sbind (rel_times o end_ EndMissing (l_end ls)) (fun te =>
  sbind (rel_times o start StartMissing (l_start ls)) (fun ts =>
  SOk (te ++ ts ++ abs_times o (l_abs ls)))).

(* ------------------------------------------------------------------ AlarmTime *)
Record atime := {
  at_trigger : time;          (* _trigger *)
  at_alarm_ack : option Z;    (* alarm.ACKNOWLEDGED (UTC instant) *)
  at_last_ack : option Z;     (* the component-level acknowledgement (UTC instant) *)
  at_snooze : option Z        (* snoozed until (UTC instant) *)
}.

(* Alarms._alarm_time: a trigger without tzinfo gets the local zone when one is set
   (`trigger.replace(tzinfo=...)`: a date has no such argument -> TypeError), then normalize *)
Definition localize (o : zoracle) (local : option zkey) (t : time) : sres time :=
  match local with
  | None => SOk t
  | Some L =>
      match t with
      | Date _ => SEsc TypeErr
      | Naive s => SOk (normalize o (Zoned L s))
      | _ => SOk t
      end
  end.

Fixpoint map_sres {A B} (f : A -> sres B) (l : list A) : sres (list B) :=
  match l with
  | [] => SOk []
  | x :: r => sbind (f x) (fun y => sbind (map_sres f r) (fun ys => SOk (y :: ys)))
  end.

Definition mk_atime (o : zoracle) (local : option zkey) (ack snooze : option Z) (p : alarm * time) : sres atime :=
  sbind (localize o local (snd p)) (fun t =>
    SOk {| at_trigger := t; at_alarm_ack := a_ack (fst p); at_last_ack := ack; at_snooze := snooze |}).

(* Alarms.times for an Alarms object with the given start, end, acknowledgement, snooze,
   local zone and alarms *)
Definition alarms_times (o : zoracle) (start end_ : option time) (ack snooze : option Z) (local : option zkey)
           (ls : alarm_lists) : sres (list atime) :=
  sbind (raw_times o start end_ ls) (fun l => map_sres (mk_atime o local ack snooze) l).

(* ------------------------------------------------------------------ the parent component *)
Record parent := {
  p_kind : ckind;
  p_comp : comp;               (* DTSTART, DTEND|DUE, DURATION *)
  p_dtstamp : option Z;        (* DTSTAMP as a UTC instant *)
  p_moz : bool;                (* some key starts with X-MOZ- (Component.is_thunderbird) *)
  p_lastack : option Z;        (* X-MOZ-LASTACK *)
  p_snooze : option Z          (* X-MOZ-SNOOZE-TIME *)
}.

Definition parent_ack (p : parent) : option Z := if p_moz p then p_lastack p else p_dtstamp p.
Definition parent_snooze (p : parent) : option Z := if p_moz p then p_snooze p else None.

(* Alarms(component).times: add_component evaluates component.start and component.end
   eagerly, then classifies the alarms; then times *)
Definition component_raw_times (o : zoracle) (p : parent) (als : list alarm) : sres (list (alarm * time)) :=
  sbind (get_start (p_kind p) (p_comp p)) (fun s =>
  sbind (get_end (p_kind p) (p_comp p)) (fun e =>
  sbind (add_alarms als) (fun ls => raw_times o (Some s) (Some e) ls))).

Definition component_times (o : zoracle) (p : parent) (local : option zkey) (als : list alarm) : sres (list atime) :=
  sbind (component_raw_times o p als) (fun l =>
    map_sres (mk_atime o local (parent_ack p) (parent_snooze p)) l).

(* what C14 observes: the trigger of every alarm time, in order *)
Definition component_triggers (o : zoracle) (p : parent) (als : list alarm) : sres (list time) :=
  sbind (component_raw_times o p als) (fun l => SOk (map snd l)).

(* ------------------------------------------------------------------ C14 specification *)
(* RELATED=END, parameter values being case-insensitive (RFC 5545 3.2) *)
Definition spec_related_end (a : alarm) : bool :=
  match a_related a with Some r => str_eqb (upper r) (s2l "END") | None => false end.

(* REPEAT further times spaced by DURATION when both are present *)
Definition spec_repeats (o : zoracle) (first : time) (a : alarm) : list time :=
  match a_repeat a, a_duration a with
  | Some n, Some d => map (fun i => alarm_add o first (d * Z.of_nat i)) (seq 1 (Z.to_nat n))
  | _, _ => []
  end.

Inductive sclass := SNone | SAbs | SStart | SEnd | SInvalid.
Definition spec_class (a : alarm) : sclass :=
  match a_trigger a with
  | Absent => SNone
  | One (VDelta _) => if spec_related_end a then SEnd else SStart
  | One (VTime (Date _)) => SInvalid
  | One (VTime _) => SAbs
  | _ => SInvalid
  end.

(* the times of one alarm; [start] and [end_] are the component's start and end as C16
   defines them (values or their documented errors) and are consulted only when needed *)
Definition spec_alarm (o : zoracle) (start end_ : sres time) (a : alarm) : sres (list time) :=
  match a_trigger a with
  | Absent => SOk []
  | One (VDelta td) =>
      sbind (if spec_related_end a then end_ else start) (fun anchor =>
        let first := alarm_add o anchor td in SOk (first :: spec_repeats o first a))
  | One (VTime (Date _)) => SVal InvalidCal
  | One (VTime t) => SOk (t :: spec_repeats o t a)
  | _ => SVal InvalidCal
  end.

Definition is_class (c : sclass) (a : alarm) : bool :=
  match c, spec_class a with
  | SNone, SNone | SAbs, SAbs | SStart, SStart | SEnd, SEnd | SInvalid, SInvalid => true
  | _, _ => false
  end.

Fixpoint concat_sres {A} (l : list (sres (list A))) : sres (list A) :=
  match l with
  | [] => SOk []
  | x :: r => sbind x (fun a => sbind (concat_sres r) (fun b => SOk (a ++ b)))
  end.

(* all times, in the order the library reports them: END-relative alarms, START-relative
   alarms, absolute alarms, each group in component order *)
Definition spec_times (o : zoracle) (start end_ : sres time) (als : list alarm) : sres (list time) :=
  if existsb (is_class SInvalid) als then SVal InvalidCal
  else concat_sres (map (spec_alarm o start end_)
                        (filter (is_class SEnd) als ++ filter (is_class SStart) als ++ filter (is_class SAbs) als)).

(* guards = complements of the three finding classes *)
(* C14-F1: a RELATED value that is neither exactly START nor END up to case *)
Definition related_ok (a : alarm) : bool :=
  match a_related a with
  | None => true
  | Some r => str_eqb r related_start_literal || str_eqb (upper r) (s2l "END")
  end.
(* C14-F2: REPEAT n > 0 with a DURATION of zero *)
Definition repeat_ok (a : alarm) : bool :=
  match a_repeat a, a_duration a with
  | Some n, Some d => negb ((0 <? n) && (d =? 0))
  | _, _ => true
  end.
Definition alarms_ok (als : list alarm) : bool := forallb (fun a => related_ok a && repeat_ok a) als.
(* C14-F3: the times are computable but the component's start or end is not (eager evaluation) *)
Definition eager_ok (o : zoracle) (p : parent) (als : list alarm) : bool :=
  let s := get_start (p_kind p) (p_comp p) in
  let e := get_end (p_kind p) (p_comp p) in
  negb (is_ok (spec_times o s e als)) || (is_ok s && is_ok e).

Definition documented (t : vtag) : bool :=
  match t with InvalidCal | IncompleteComp | StartMissing | EndMissing => true | LocalTzMissing => false end.

(* Alarm.triggers (cal.py): the trigger and `for _ in range(REPEAT): add.append(add[-1] + duration)`
   when DURATION is not None; relative triggers are timedeltas, absolute ones datetimes *)
Inductive trigs := TrigStart (l : list Z) | TrigEnd (l : list Z) | TrigAbs (l : list time) | TrigNone.
Definition alarm_triggers (a : alarm) : sres trigs :=
  sbind (get_TRIGGER (a_trigger a)) (fun tr =>
    let n := match a_duration a with Some _ => Z.to_nat (get_REPEAT a) | None => O end in
    let d := match a_duration a with Some d => d | None => 0 end in
    match tr with
    | None => SOk TrigNone
    | Some (VTime t) => SOk (TrigAbs (map (fun i => tadd t (d * Z.of_nat i)) (seq 0 (S n))))
    | Some (VDelta td) =>
        let l := map (fun i => td + d * Z.of_nat i) (seq 0 (S n)) in
        if str_eqb (trigger_related a) triggers_related_start_literal then SOk (TrigStart l) else SOk (TrigEnd l)
    | Some VOther => SVal InvalidCal
    end).

(* ------------------------------------------------------------------ C15: acknowledgement *)
Definition max_opt (a b : option Z) : option Z :=
  match a, b with
  | None, _ => b
  | _, None => a
  | Some x, Some y => Some (Z.max x y)
  end.

(* AlarmTime.acknowledged *)
Definition acknowledged (x : atime) : option Z := max_opt (at_alarm_ack x) (at_last_ack x).

(* `utc_datetime > t` / `t > utc_datetime`: a date or a naive datetime cannot be compared
   with an aware one (TypeError); aware ones compare as instants *)
Definition cmp_instant (o : zoracle) (t : time) : sres Z :=
  if is_aware t then SOk (instant o t) else SEsc TypeErr.

(* AlarmTime.trigger: the snooze time when it is later than the trigger *)
Definition at_trigger_prop (o : zoracle) (x : atime) : sres time :=
  match at_snooze x with
  | None => SOk (at_trigger x)
  | Some sn => sbind (cmp_instant o (at_trigger x)) (fun ti =>
                 if ti <? sn then SOk (Utc sn) else SOk (at_trigger x))
  end.

(* `.tzinfo is None` on the result of .trigger: a date has no attribute tzinfo *)
Definition tzinfo_is_none (t : time) : sres bool :=
  match t with Date _ => SEsc AttributeErr | Naive _ => SOk true | _ => SOk false end.

(* AlarmTime.is_active *)
Definition is_active (o : zoracle) (x : atime) : sres bool :=
  match acknowledged x with
  | None => SOk true
  | Some ack =>
      if match at_snooze x with Some sn => ack <? sn | None => false end then SOk true
      else
        sbind (at_trigger_prop o x) (fun tr =>
        sbind (tzinfo_is_none tr) (fun floating =>
          if floating then SVal LocalTzMissing
          else SOk (ack <? instant o tr)))
  end.

(* Alarms.active: [t for t in times if t.is_active()] *)
Fixpoint filter_sres {A} (f : A -> sres bool) (l : list A) : sres (list A) :=
  match l with
  | [] => SOk []
  | x :: r => sbind (f x) (fun b => sbind (filter_sres f r) (fun ys => SOk (if b then x :: ys else ys)))
  end.

Definition active_of (o : zoracle) (times : sres (list atime)) : sres (list atime) :=
  sbind times (filter_sres (is_active o)).

Definition component_active (o : zoracle) (p : parent) (local : option zkey) (als : list alarm) : sres (list atime) :=
  active_of o (component_times o p local als).

(* ------------------------------------------------------------------ C15 specification *)
(* the property's decision rule on instants: active iff nothing is acknowledged, or snoozed
   until after the acknowledgement, or the trigger is later than the acknowledgement *)
Definition spec_ack (alarm_ack comp_ack : option Z) : option Z := max_opt alarm_ack comp_ack.
Definition spec_active (trigger : Z) (alarm_ack comp_ack snooze : option Z) : bool :=
  match spec_ack alarm_ack comp_ack with
  | None => true
  | Some a => match snooze with Some sn => (a <? sn) || (a <? trigger) | None => a <? trigger end
  end.
(* a comparison with the trigger is needed: something is acknowledged and no snooze settles it *)
Definition needs_trigger (alarm_ack comp_ack snooze : option Z) : bool :=
  match spec_ack alarm_ack comp_ack with
  | None => false
  | Some a => match snooze with Some sn => negb (a <? sn) | None => true end
  end.
(* the reported trigger: the snooze time when it is later than the trigger *)
Definition spec_trigger (o : zoracle) (t : time) (snooze : option Z) : time :=
  match snooze with
  | Some sn => if instant o t <? sn then Utc sn else t
  | None => t
  end.

(* guards = complements of the finding classes *)
(* C15-F1: the trigger is a date (all-day start with a whole-day relative trigger) *)
Definition not_date_trigger (x : atime) : bool := negb (is_date (at_trigger x)).
(* C15-F2: a floating trigger together with a snooze time (no local zone was applied) *)
Definition floating (x : atime) : bool := match at_trigger x with Naive _ => true | _ => false end.
Definition snooze_ok (x : atime) : bool := negb (floating x && is_some (at_snooze x)).

(* [sublist a b]: a is obtained from b by deleting elements (order kept) *)
Inductive sublist {A : Type} : list A -> list A -> Prop :=
| sub_nil : sublist [] []
| sub_keep : forall x a b, sublist a b -> sublist (x :: a) (x :: b)
| sub_drop : forall x a b, sublist a b -> sublist a (x :: b).

(* an acknowledgement that is absent, or present and not earlier than before *)
Definition ack_later (a a' : option Z) : Prop :=
  match a, a' with
  | None, _ => True
  | Some x, Some y => x <= y
  | Some _, None => False
  end.
