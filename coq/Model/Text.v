(* TEXT escaping: parser.escape_char / unescape_char / escape_string / unescape_string as
   the generated replace chains, vText, vCategory.  Definitions only. *)
Require Import Lib.Base Lib.Chain Gen.Gen_parser.

Definition escape_char (s : list N) : list N := seq_run escape_char_chain s.
Definition unescape_char (s : list N) : list N := seq_run unescape_char_chain s.
Definition escape_string (s : list N) : list N := seq_run escape_string_chain s.
Definition unescape_string (s : list N) : list N := seq_run unescape_string_chain s.

(* the documented normalisations, in the order escape_char itself applies them:
   literal backslash-N -> LF, then CRLF -> LF *)
Definition norm_chain : chain := [([92; 78], [10]); ([13; 10], [10])].
Definition norm (s : list N) : list N := seq_run norm_chain s.

(* vText(s).to_ical() / vText.from_ical(t) on code points *)
Definition vtext_to_ical (s : list N) : list N := escape_char s.
Definition vtext_from_ical (t : list N) : list N := unescape_char t.

(* what a content line does to its value text between from_parts and parts():
   escape_string on the way in, unescape_string on the way out (see Model/Contentline.v) *)
Definition line_value_path (v : list N) : list N := unescape_string (escape_string v).

(* the value read back from  SUMMARY:<escape_char s>  *)
Definition text_via_line (s : list N) : list N :=
  unescape_char (line_value_path (escape_char s)).

(* str.split(sep) for a one-character separator *)
Fixpoint split_chr (sep : N) (s : list N) : list (list N) :=
  match s with
  | [] => [[]]
  | c :: r => if c =? sep then [] :: split_chr sep r
              else match split_chr sep r with
                   | h :: t => (c :: h) :: t
                   | [] => [[c]]
                   end
  end.

Fixpoint join_chr (sep : N) (l : list (list N)) : list N :=
  match l with
  | [] => []
  | [x] => x
  | x :: r => x ++ sep :: join_chr sep r
  end.

(* vCategory(items).to_ical() and vCategory.from_ical *)
Definition vcategory_to_ical (items : list (list N)) : list N := join_chr 44 (map escape_char items).
Definition vcategory_from_ical (t : list N) : list (list N) := split_chr 44 (unescape_char t).
Definition categories_via_line (items : list (list N)) : list (list N) :=
  vcategory_from_ical (line_value_path (vcategory_to_ical items)).

(* guards (forbidden substrings) *)
Definition forb_direct : list (list N) := [[92; 110]].                       (* \n *)
Definition forb_line : list (list N) :=
  [[92; 110]; [92; 92]; [92; 44]; [92; 59];                                  (* \n \\ \, \; *)
   [37; 50; 67]; [37; 51; 65]; [37; 51; 66]; [37; 53; 67]].                  (* %2C %3A %3B %5C *)
Definition direct_safe (s : list N) : bool := avoids forb_direct s.
Definition line_safe (s : list N) : bool := avoids forb_line s.

(* chain compositions whose equivalence with [norm_chain] the certificates establish *)
Definition direct_chain : chain := escape_char_chain ++ unescape_char_chain.
Definition line_chain : chain :=
  escape_char_chain ++ escape_string_chain ++ unescape_string_chain ++ unescape_char_chain.

Definition direct_crit := crit_of direct_chain norm_chain forb_direct.
Definition line_crit := crit_of line_chain norm_chain forb_line.
Definition direct_explore := explore direct_chain norm_chain forb_direct direct_crit (2 * 1000).
Definition line_explore := explore line_chain norm_chain forb_line line_crit (20 * 1000).
(* without the guards: the explorer's counterexample words are the refutation witnesses *)
Definition direct_explore_noguard := explore direct_chain norm_chain [] direct_crit (2 * 1000).
Definition line_explore_noguard := explore line_chain norm_chain forb_direct line_crit (20 * 1000).

Definition direct_cert : cert := cert_of direct_chain norm_chain forb_direct direct_crit (2 * 1000).
Definition line_cert : cert := cert_of line_chain norm_chain forb_line line_crit (20 * 1000).

(* ------------------------------------------------------------------ well-escapedness (C07) *)
(* escape_char as "normalise, then map each character": the chain the certificate relates it to *)
Definition percharchain : chain := [([92], [92; 92]); ([59], [92; 59]); ([44], [92; 44]); ([10], [92; 110])].
Definition esc_spec_chain : chain := norm_chain ++ percharchain.
Definition esc_map (c : N) : list N :=
  if c =? 92 then [92; 92] else if c =? 59 then [92; 59] else if c =? 44 then [92; 44]
  else if c =? 10 then [92; 110] else [c].
Definition esc_crit := crit_of escape_char_chain esc_spec_chain [].
Definition esc_cert : cert := cert_of escape_char_chain esc_spec_chain [] esc_crit (2 * 1000).

(* a TEXT is well escaped: read left to right, a backslash takes the next character with it; outside such
   pairs there is no LF, no semicolon and no comma *)
Fixpoint well_escaped_from (esc : bool) (t : list N) : bool :=
  match t with
  | [] => true
  | c :: r => if esc then well_escaped_from false r
              else if c =? 92 then well_escaped_from true r
              else if (c =? 10) || (c =? 59) || (c =? 44) then false
              else well_escaped_from false r
  end.
Definition well_escaped (t : list N) : bool := well_escaped_from false t.

(* ------------------------------------------------------------------ CATEGORIES through a content line (C07) *)
(* The item separator as a symbol of its own: the first number that is not a code point, so that "the items
   are Python strings" is all that keeps it out of them.  join(",", map escape_char items) is then the chain
   "escape_char, then SEP -> comma" applied to the items joined by SEP. *)
Definition SEP : N := 1114112.
Definition sep_stage : chain := [([SEP], [44])].
Definition cat_chain : chain :=
  escape_char_chain ++ sep_stage ++ escape_string_chain ++ unescape_string_chain ++ unescape_char_chain.
Definition cat_spec_chain : chain := norm_chain ++ sep_stage.
Definition forb_cat : list (list N) := forb_line ++ [[92; SEP]].
Definition cat_crit := crit_of cat_chain cat_spec_chain forb_cat.
Definition cat_explore := explore cat_chain cat_spec_chain forb_cat cat_crit (40 * 1000).
Definition cat_cert : cert := cert_of cat_chain cat_spec_chain forb_cat cat_crit (40 * 1000).

Definition ends_bs (s : list N) : bool := match rev s with 92 :: _ => true | _ => false end.
Definition cat_item_ok (s : list N) : bool :=
  line_safe s && negb (mem_chr 44 s) && negb (mem_chr SEP s).
(* every item is line-safe, comma-free and a string; none but the last ends in a backslash *)
Fixpoint cat_items_ok (items : list (list N)) : bool :=
  match items with
  | [] => false
  | [x] => cat_item_ok x
  | x :: r => cat_item_ok x && negb (ends_bs x) && cat_items_ok r
  end.
