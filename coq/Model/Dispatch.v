(* The single entry point of the extracted model: function name + wire value -> wire value.
   Definitions only. *)
Require Import Lib.Base Lib.Chain Gen.Gen_parser Model.Fold Model.Text.
From Coq Require Import String.
Local Open Scope string_scope.

Definition is (f : list N) (name : string) : bool := str_eqb f (s2l name).

Definition jxres (x : xres) : jv :=
  match x with
  | XDone c => jtag "closed" [jnat (List.length c)]
  | XCounter w => jtag "counterexample" [JS w]
  | XFuel => jtag "fuel" []
  end.

Definition dispatch (f : list N) (a : jv) : jv :=
  if is f "foldline" then
    match a with JS l => JS (foldline l) | _ => junsupported end
  else if is f "unfold" then
    match a with JS l => JS (unfold l) | _ => junsupported end
  else if is f "rfc_unfold" then
    match a with JS l => JS (rfc_unfold l) | _ => junsupported end
  else if is f "phys_lines" then
    match a with JS l => jstrs (phys_lines l) | _ => junsupported end
  else if is f "escape_char" then
    match a with JS l => JS (escape_char l) | _ => junsupported end
  else if is f "unescape_char" then
    match a with JS l => JS (unescape_char l) | _ => junsupported end
  else if is f "escape_string" then
    match a with JS l => JS (escape_string l) | _ => junsupported end
  else if is f "unescape_string" then
    match a with JS l => JS (unescape_string l) | _ => junsupported end
  else if is f "norm" then
    match a with JS l => JS (norm l) | _ => junsupported end
  else if is f "text_via_line" then
    match a with JS l => JS (text_via_line l) | _ => junsupported end
  else if is f "categories_via_line" then
    match a with JL l => match jv_strs l with Some items => jstrs (categories_via_line items) | None => junsupported end
    | _ => junsupported end
  else if is f "direct_safe" then
    match a with JS l => jbool (direct_safe l) | _ => junsupported end
  else if is f "line_safe" then
    match a with JS l => jbool (line_safe l) | _ => junsupported end
  else if is f "c07_explore" then
    JL [jxres direct_explore; jxres line_explore; jxres direct_explore_noguard; jxres line_explore_noguard]
  else jtag "nofunc" [].
