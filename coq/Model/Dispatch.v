(* The single entry point of the extracted model: function name + wire value -> wire value.
   Definitions only. *)
Require Import Lib.Base Lib.Chain Gen.Gen_parser Model.Fold Model.Text Model.Params Model.Contentline.
From Coq Require Import String.
Local Open Scope string_scope.

Definition is (f : list N) (name : string) : bool := str_eqb f (s2l name).

Definition jxres (x : xres) : jv :=
  match x with
  | XDone c => jtag "closed" [jnat (List.length c)]
  | XCounter w => jtag "counterexample" [JS w]
  | XFuel => jtag "fuel" []
  end.

Definition jres {A} (f : A -> jv) (r : res A) : jv :=
  match r with
  | Ok a => f a
  | ValueErr => jerr "ValueError"
  | Escape k => jtag "err" [JS k]
  | Unsup => junsupported
  end.

Definition jpval (v : pval) : jv := match v with PStr s => JS s | PList l => jstrs l end.
Definition jparams (ps : params) : jv := JL (map (fun kv : list N * pval => JL [JS (fst kv); jpval (snd kv)]) ps).

Definition pval_of (v : jv) : option pval :=
  match v with
  | JS s => Some (PStr s)
  | JL l => option_map PList (jv_strs l)
  | _ => None
  end.
Fixpoint params_of (l : list jv) : option params :=
  match l with
  | [] => Some []
  | JL [JS k; v] :: r =>
      match pval_of v, params_of r with
      | Some pv, Some r' => Some ((k, pv) :: r')
      | _, _ => None
      end
  | _ => None
  end.
Definition keys_ascii (ps : params) : bool := forallb (fun kv : list N * pval => all_ascii (fst kv)) ps.
Definition maxsplit_of (z : Z) : option nat := if (z <? 0)%Z then None else Some (Z.to_nat z).

Definition dispatch (f : list N) (a : jv) : jv :=
  if is f "foldline" then
    match a with JS l => JS (foldline l) | _ => junsupported end
  else if is f "unfold" then
    match a with JS l => JS (unfold l) | _ => junsupported end
  else if is f "rfc_unfold" then
    match a with JS l => JS (rfc_unfold l) | _ => junsupported end
  else if is f "phys_lines" then
    match a with JS l => jstrs (phys_lines l) | _ => junsupported end
  else if is f "escape_char" then
    match a with JS l => JS (escape_char l) | _ => junsupported end
  else if is f "unescape_char" then
    match a with JS l => JS (unescape_char l) | _ => junsupported end
  else if is f "escape_string" then
    match a with JS l => JS (escape_string l) | _ => junsupported end
  else if is f "unescape_string" then
    match a with JS l => JS (unescape_string l) | _ => junsupported end
  else if is f "norm" then
    match a with JS l => JS (norm l) | _ => junsupported end
  else if is f "text_via_line" then
    match a with JS l => JS (text_via_line l) | _ => junsupported end
  else if is f "categories_via_line" then
    match a with JL l => match jv_strs l with Some items => jstrs (categories_via_line items) | None => junsupported end
    | _ => junsupported end
  else if is f "cat_items_ok" then
    match a with JL l => match jv_strs l with Some items => jbool (cat_items_ok items) | None => junsupported end
    | _ => junsupported end
  else if is f "direct_safe" then
    match a with JS l => jbool (direct_safe l) | _ => junsupported end
  else if is f "line_safe" then
    match a with JS l => jbool (line_safe l) | _ => junsupported end
  else if is f "c07_explore" then
    JL [jxres direct_explore; jxres line_explore; jxres direct_explore_noguard; jxres line_explore_noguard;
        jxres cat_explore]
  else if is f "dquote" then
    match a with JS l => JS (dquote l) | _ => junsupported end
  else if is f "q_join" then
    match a with JL l => match jv_strs l with Some ss => JS (q_join ss) | None => junsupported end | _ => junsupported end
  else if is f "q_split" then
    match a with
    | JL [JS st; JZ sep; JZ ms] => jstrs (q_split st (Z.to_N sep) (maxsplit_of ms))
    | _ => junsupported end
  else if is f "params_to_ical" then
    match a with
    | JL [JZ sorted; JL ps] =>
        match params_of ps with
        | Some ps => if keys_ascii ps then JS (params_to_ical (negb (sorted =? 0)%Z) ps) else junsupported
        | None => junsupported end
    | _ => junsupported end
  else if is f "params_from_ical" then
    match a with JS st => jres jparams (params_from_ical st) | _ => junsupported end
  else if is f "from_parts" then
    match a with
    | JL [JS name; JL ps; JZ sorted; JS v] =>
        match params_of ps with
        | Some ps => if keys_ascii ps then jres JS (from_parts name ps (negb (sorted =? 0)%Z) v) else junsupported
        | None => junsupported end
    | _ => junsupported end
  else if is f "parts" then
    match a with
    | JS line => jres (fun x : list N * params * list N =>
                         let '(n, ps, v) := x in JL [JS n; jparams ps; JS v]) (parts line)
    | _ => junsupported end
  else if is f "c05_guards" then
    (* [is_token name; wf_params ps; head_safe; params_unesc_safe; value_safe v]: the guards of the C05/C08 theorems *)
    match a with
    | JL [JS name; JL ps; JZ sorted; JS v] =>
        match params_of ps with
        | Some ps => let sd := negb (sorted =? 0)%Z in
                     JL [jbool (is_token name); jbool (wf_params ps); jbool (head_safe name ps sd);
                         jbool (params_unesc_safe ps); jbool (value_safe v)]
        | None => junsupported end
    | _ => junsupported end
  else if is f "contentlines_from_ical" then
    match a with JS st => jstrs (contentlines_from_ical st) | _ => junsupported end
  else if is f "contentlines_to_ical" then
    match a with JL l => match jv_strs l with Some ss => JS (contentlines_to_ical ss) | None => junsupported end
    | _ => junsupported end
  else jtag "nofunc" [].

(* every area of the model has its own dispatcher [list N -> jv -> option jv]; the driver
   calls [dispatch_all], which tries them in turn and ends with the core one above *)
