(* The single entry point of the extracted model: function name + wire value -> wire value.
   Definitions only. *)
Require Import Lib.Base Gen.Gen_parser Model.Fold.
From Coq Require Import String.
Local Open Scope string_scope.

Definition is (f : list N) (name : string) : bool := str_eqb f (s2l name).

Definition dispatch (f : list N) (a : jv) : jv :=
  if is f "foldline" then
    match a with JS l => JS (foldline l) | _ => junsupported end
  else if is f "unfold" then
    match a with JS l => JS (unfold l) | _ => junsupported end
  else if is f "rfc_unfold" then
    match a with JS l => JS (rfc_unfold l) | _ => junsupported end
  else if is f "phys_lines" then
    match a with JS l => jstrs (phys_lines l) | _ => junsupported end
  else jtag "nofunc" [].
