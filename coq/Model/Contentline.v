(* Contentline.from_parts / parts exactly as written (placeholder escaping through the
   generated chains, quote-aware scan with the index-0-is-unset quirk), Contentline.__new__
   LF refusal, Contentlines.from_ical / to_ical.  Definitions only. *)
Require Import Lib.Base Lib.Chain Gen.Gen_parser Model.Text Model.Params Model.Fold.
From Coq Require Import Arith.

(* Contentline(value): assert '\n' not in value *)
Definition contentline_new (s : list N) : res (list N) :=
  if mem_chr 10 s then Escape (s2l "AssertionError") else Ok s.

(* from_parts(name, params, value_text): value_text is the already rendered value *)
Definition from_parts (name : list N) (ps : params) (sorted : bool) (v : list N) : res (list N) :=
  match ps with
  | [] => contentline_new (name ++ 58 :: v)
  | _ => contentline_new (name ++ 59 :: params_to_ical sorted ps ++ 58 :: v)
  end.

(* the scan of parts(): Python's `not name_split` is true for None and for 0 *)
Definition falsy (o : option nat) : bool :=
  match o with None => true | Some O => true | Some (S _) => false end.

Fixpoint scan (i : nat) (inq : bool) (ns vs : option nat) (s : list N) : option nat * option nat :=
  match s with
  | [] => (ns, vs)
  | ch :: r =>
      let ns' := if negb inq && ((ch =? 58) || (ch =? 59)) && falsy ns then Some i else ns in
      let vs' := if negb inq && (ch =? 58) && falsy vs then Some i else vs in
      let inq' := if ch =? 34 then negb inq else inq in
      scan (S i) inq' ns' vs' r
  end.

Definition slice (a b : nat) (s : list N) : list N := firstn (b - a) (skipn a s).

Definition unescape_pval (v : pval) : pval :=
  match v with
  | PStr s => PStr (unescape_string s)
  | PList l => PList (map unescape_string l)
  end.

(* Parameters(generator of (unescape_string(key), unescape(value))): keys are re-folded to
   upper case by CaselessDict.__init__; a key that changes moves to the end.  Keys coming out
   of params_from_ical are validated tokens (no '%'), so unescape_string leaves them alone and
   nothing moves; the model still performs the assignment sequence faithfully. *)
Fixpoint rebuild_params (l : params) (acc : params) : params :=
  match l with
  | [] => acc
  | (k, v) :: r => rebuild_params r (dict_set (upper (unescape_string k)) (unescape_pval v) acc)
  end.

Definition parts (line : list N) : res (list N * params * list N) :=
  let st := escape_string line in
  let '(ns, vs) := scan 0 false None None st in
  let name := unescape_string (match ns with Some n => firstn n st | None => st end) in
  match name with
  | [] => ValueErr
  | _ =>
      bind (validate_token name) (fun _ =>
      let vsp := if falsy vs then length st else match vs with Some v => v | None => O end in
      match ns with
      | None => ValueErr
      | Some O => ValueErr
      | Some nsp =>
          if (S nsp =? vsp)%nat then ValueErr
          else
            bind (params_from_ical (slice (S nsp) vsp st)) (fun ps =>
            Ok (name, rebuild_params ps [], unescape_string (skipn (S vsp) st)))
      end)
  end.

(* NEWLINE.split(unfolded) keeping non-empty pieces; NEWLINE = \r?\n *)
Fixpoint split_lines_aux (cur : list N) (s : list N) : list (list N) :=
  match s with
  | [] => [rev cur]
  | c :: r =>
      if c =? 10 then rev cur :: split_lines_aux [] r
      else if c =? 13 then
        match r with
        | d :: r' => if d =? 10 then rev cur :: split_lines_aux [] r'
                     else split_lines_aux (c :: cur) r
        | [] => split_lines_aux (c :: cur) r
        end
      else split_lines_aux (c :: cur) r
  end.

Definition nonempty (s : list N) : bool := match s with [] => false | _ => true end.

(* Contentlines.from_ical on text: unfold, split, drop empty lines *)
Definition contentlines_from_ical (st : list N) : list (list N) :=
  filter nonempty (split_lines_aux [] (unfold st)).

(* Contentlines.to_ical: CRLF-join of the folded non-empty lines + final CRLF *)
Fixpoint join_strs (sep : list N) (l : list (list N)) : list N :=
  match l with
  | [] => []
  | [x] => x
  | x :: r => x ++ sep ++ join_strs sep r
  end.

Definition contentlines_to_ical (ls : list (list N)) : list N :=
  join_strs [13; 10] (map foldline (filter nonempty ls)) ++ [13; 10].

(* ------------------------------------------------------------------ guards used by C05 *)
(* everything of a rendered line up to and including the colon that starts the value *)
Definition head_of (name : list N) (ps : params) (sorted : bool) : list N :=
  match ps with
  | [] => name ++ [58]
  | _ => name ++ 59 :: params_to_ical sorted ps ++ [58]
  end.
(* the patterns parts() replaces before it scans, and the placeholders it expands afterwards *)
Definition forb_esc : list (list N) := map fst escape_string_chain.
Definition forb_unesc : list (list N) := map fst unescape_string_chain.
(* the parameter section contains no backslash-delimiter pair (the final colon included) *)
Definition head_safe (name : list N) (ps : params) (sorted : bool) : bool :=
  avoids forb_esc (head_of name ps sorted).
Definition pval_strs (v : pval) : list (list N) := match v with PStr s => [s] | PList l => l end.
(* no parameter value contains placeholder text (%2C %3A %3B %5C) *)
Definition params_unesc_safe (ps : params) : bool :=
  forallb (fun kv : list N * pval => forallb (fun s => avoids forb_unesc (dq_clean s)) (pval_strs (snd kv))) ps.
(* simple sufficient condition: no backslash and no percent sign anywhere in the parameters *)
Definition params_plain (ps : params) : bool :=
  forallb (fun kv : list N * pval => forallb (fun s => no_chr 92 s && no_chr 37 s) (pval_strs (snd kv))) ps.
Definition value_safe (v : list N) : bool := avoids (forb_esc ++ forb_unesc) v.
