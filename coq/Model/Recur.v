(* Model of the RECUR codec of icalendar/prop.py: vRecur.to_ical / from_ical / parse_type with the
   value classes vInt, vMonth, vWeekday (regex WEEKDAY_RULE), vFrequency, vSkip, vText and the DATE /
   DATE-TIME part of vDDDTypes (UNTIL); a RECUR recogniser written from the RFC 5545 3.3.10 /
   RFC 7529 ABNF.  Definitions only.  The functions model the code on ASCII text: str.upper,
   str.isdigit, \d, \w and int() go beyond ASCII in Python, so the dispatcher
   (Model/DispatchRecur.v) declines every input that contains a non-ASCII character.  The tables (canonical part order, part -> value class,
   weekday / frequency / skip names) are regenerated from the source (Gen/Gen_recur.v). *)
Require Import Lib.Base Lib.Chain Gen.Gen_parser Gen.Gen_recur Model.Params Model.Sort Model.Caseless Model.Text.
From Coq Require Import Decimal DecimalZ.
From Coq Require Import String.

(* ---------------------------------------------------------------- values *)
(* a value as the caller supplies it / as decoding yields it *)
Inductive rv :=
| RInt (z : Z)                                   (* int / vInt *)
| RMonth (m : Z) (leap : bool)                   (* vMonth *)
| RStr (s : str)                                 (* str / vWeekday / vFrequency / vSkip / vText *)
| RDate (y m d : N)                              (* datetime.date *)
| RDateTime (y m d h mi s : N) (utc : bool).     (* datetime.datetime, naive or UTC *)

(* a part's value: a scalar or a list/tuple (SEQUENCE_TYPES) *)
Inductive rvals := One (v : rv) | Many (l : list rv).
Definition vals_list (v : rvals) : list rv := match v with One x => [x] | Many l => l end.

Inductive vtype := TInt | TMonth | TUntil | TWeekday | TFreq | TSkip | TText.

Definition vtype_of_class (c : str) : vtype :=
  if str_eqb c (s2l "vInt") then TInt
  else if str_eqb c (s2l "vMonth") then TMonth
  else if str_eqb c (s2l "vDDDTypes") then TUntil
  else if str_eqb c (s2l "vWeekday") then TWeekday
  else if str_eqb c (s2l "vFrequency") then TFreq
  else if str_eqb c (s2l "vSkip") then TSkip
  else TText.

(* self.types.get(key, vText): a CaselessDict lookup, i.e. by the upper-cased name *)
Definition vtype_for (k : str) : vtype :=
  match dict_get (upper k) recur_types with
  | Some c => vtype_of_class c
  | None => TText
  end.

(* ---------------------------------------------------------------- integers: str(int) and int(str) *)
Fixpoint uint_str (u : uint) : str :=
  match u with
  | Nil => []
  | D0 r => 48 :: uint_str r | D1 r => 49 :: uint_str r | D2 r => 50 :: uint_str r
  | D3 r => 51 :: uint_str r | D4 r => 52 :: uint_str r | D5 r => 53 :: uint_str r
  | D6 r => 54 :: uint_str r | D7 r => 55 :: uint_str r | D8 r => 56 :: uint_str r
  | D9 r => 57 :: uint_str r
  end.

Definition dec_Z (z : Z) : str :=
  match Z.to_int z with
  | Pos u => uint_str u
  | Neg u => 45 :: uint_str u
  end.

Fixpoint str_uint (s : str) : option uint :=
  match s with
  | [] => Some Nil
  | c :: r =>
      match str_uint r with
      | None => None
      | Some u =>
          if c =? 48 then Some (D0 u) else if c =? 49 then Some (D1 u) else if c =? 50 then Some (D2 u)
          else if c =? 51 then Some (D3 u) else if c =? 52 then Some (D4 u) else if c =? 53 then Some (D5 u)
          else if c =? 54 then Some (D6 u) else if c =? 55 then Some (D7 u) else if c =? 56 then Some (D8 u)
          else if c =? 57 then Some (D9 u) else None
      end
  end.

(* characters for which Python's int() does more than the model (blanks are stripped, single
   underscores are allowed): the model declines *)
Definition int_fancy (c : N) : bool :=
  (c =? 32) || ((9 <=? c) && (c <=? 13)) || ((28 <=? c) && (c <=? 31)) || (c =? 95).

Definition py_int (s : str) : res Z :=
  if existsb int_fancy s then Unsup
  else
    let '(neg, body) := match s with
                        | c :: r => if c =? 45 then (true, r) else if c =? 43 then (false, r) else (false, s)
                        | [] => (false, s)
                        end in
    match body with
    | [] => ValueErr
    | _ => match str_uint body with
           | Some u => Ok (Z.of_int (if neg then Neg u else Pos u))
           | None => ValueErr
           end
    end.

(* str.isdigit() on ASCII *)
Definition isdigit_str (s : str) : bool :=
  match s with [] => false | _ => forallb is_digit s end.

(* ---------------------------------------------------------------- vMonth *)
(* vMonth.__new__(str): digits -> plain month; otherwise the last character is taken for the leap
   marker (the code only rejects "<digits><not L>") *)
Definition vmonth_of_str (s : str) : res (Z * bool) :=
  if isdigit_str s then bind (py_int s) (fun z => Ok (z, false))
  else match List.rev s with
       | [] => Escape (s2l "IndexError")
       | last :: init_rev =>
           let init := List.rev init_rev in
           if negb (last =? 76) && isdigit_str init then ValueErr
           else bind (py_int init) (fun z => Ok (z, true))
       end.

Definition vmonth_str (m : Z) (leap : bool) : str := dec_Z m ++ (if leap then [76] else []).

(* ---------------------------------------------------------------- vWeekday *)
Definition is_word (c : N) : bool := is_lower c || is_upper c || is_digit c || (c =? 95).

Definition strip_final_lf (s : str) : str :=
  match List.rev s with
  | c :: r => if c =? 10 then List.rev r else s
  | [] => s
  end.

(* WEEKDAY_RULE.match(s) for  (?P<signal>[+-]?)(?P<relative>[\d]{0,2})(?P<weekday>[\w]{2})$  on ASCII:
   "$" also matches before one final LF; the sign is taken iff present; the lengths of the groups
   are determined by the length of the rest (2, 3 or 4 characters) *)
Definition weekday_match (s : str) : option (str * str * str) :=
  let s1 := strip_final_lf s in
  let '(sig, t) := match s1 with
                   | c :: r => if (c =? 43) || (c =? 45) then ([c], r) else ([], s1)
                   | [] => ([], [])
                   end in
  let n := List.length t in
  if (Nat.leb 2 n) && (Nat.leb n 4) then
    let rel := firstn (n - 2) t in
    let wd := skipn (n - 2) t in
    if forallb is_digit rel && forallb is_word wd then Some (sig, rel, wd) else None
  else None.

(* vWeekday.__new__: the value is the text as given *)
Definition vweekday (s : str) : res str :=
  match weekday_match s with
  | None => ValueErr
  | Some (_, _, wd) => if dict_mem (upper wd) weekday_table then Ok s else ValueErr
  end.

(* vFrequency.__new__ *)
Definition vfrequency (s : str) : res str :=
  if mem_str (upper s) frequency_names then Ok s else ValueErr.

(* vSkip(value): Enum lookup by value *)
Definition vskip (s : str) : res str := if mem_str s skip_values then Ok s else ValueErr.

(* ---------------------------------------------------------------- DATE and DATE-TIME (UNTIL) *)
Definition dig (n : N) : N := 48 + n.
Definition pad2 (n : N) : str := [dig (n / 10); dig (n mod 10)].
Definition pad4 (n : N) : str := [dig (n / 1000); dig ((n / 100) mod 10); dig ((n / 10) mod 10); dig (n mod 10)].

Definition leap_year (y : N) : bool :=
  ((y mod 4 =? 0) && negb (y mod 100 =? 0)) || (y mod 400 =? 0).
Definition days_in_month (y m : N) : N :=
  if m =? 2 then (if leap_year y then 29 else 28)
  else if (m =? 4) || (m =? 6) || (m =? 9) || (m =? 11) then 30 else 31.
(* datetime.date(y, m, d) / datetime.datetime(...) accept exactly these *)
Definition valid_date (y m d : N) : bool :=
  (1 <=? y) && (y <=? 9999) && (1 <=? m) && (m <=? 12) && (1 <=? d) && (d <=? days_in_month y m).
Definition valid_time (h mi s : N) : bool := (h <? 24) && (mi <? 60) && (s <? 60).

Definition date_str (y m d : N) : str := pad4 y ++ pad2 m ++ pad2 d.
Definition datetime_str (y m d h mi s : N) (utc : bool) : str :=
  date_str y m d ++ 84 :: pad2 h ++ pad2 mi ++ pad2 s ++ (if utc then [90] else []).

(* int(ical[a:b]) on a slice: digits give the number; int() would also accept a sign, blanks
   and underscores, which the model declines *)
Definition num_of (s : str) : res N :=
  if existsb (fun c => int_fancy c || (c =? 43) || (c =? 45)) s then Unsup
  else match s with
       | [] => ValueErr
       | _ => if forallb is_digit s then Ok (fold_left (fun a c => 10 * a + (c - 48)) s 0) else ValueErr
       end.

Definition slice (a b : nat) (s : str) : str := firstn (b - a) (skipn a s).

Definition vdate_from_ical (s : str) : res rv :=
  bind (num_of (slice 0 4 s)) (fun y =>
  bind (num_of (slice 4 6 s)) (fun m =>
  bind (num_of (slice 6 8 s)) (fun d =>
  if valid_date y m d then Ok (RDate y m d) else ValueErr))).

Definition vdatetime_from_ical (s : str) : res rv :=
  bind (num_of (slice 0 4 s)) (fun y =>
  bind (num_of (slice 4 6 s)) (fun m =>
  bind (num_of (slice 6 8 s)) (fun d =>
  bind (num_of (slice 9 11 s)) (fun h =>
  bind (num_of (slice 11 13 s)) (fun mi =>
  bind (num_of (slice 13 15 s)) (fun sec =>
  if valid_date y m d && valid_time h mi sec then
    match skipn 15 s with
    | [] => Ok (RDateTime y m d h mi sec false)
    | c :: _ => if c =? 90 then Ok (RDateTime y m d h mi sec true) else ValueErr
    end
  else ValueErr)))))).

Definition starts_with (p s : str) : bool := is_prefix p s.

(* vDDDTypes.from_ical: durations, periods and times are other value types (not modelled here) *)
Definition vddd_from_ical (s : str) : res rv :=
    let u := upper s in
    if starts_with [80] u || starts_with [45; 80] u || starts_with [43; 80] u then Unsup
    else if mem_chr 47 u then Unsup
    else
      let n := List.length s in
      if Nat.eqb n 15 || Nat.eqb n 16 then vdatetime_from_ical s
      else if Nat.eqb n 8 then vdate_from_ical s
      else if Nat.eqb n 6 || Nat.eqb n 7 then Unsup
      else ValueErr.

(* ---------------------------------------------------------------- typ(val).to_ical() *)
Definition enc_val (t : vtype) (v : rv) : res str :=
  match t, v with
  | TInt, RInt z => Ok (dec_Z z)
  | TInt, RMonth m _ => Ok (dec_Z m)                       (* vInt(vMonth) = its integer *)
  | TInt, RStr s => bind (py_int s) (fun z => Ok (dec_Z z))
  | TMonth, RInt z => Ok (vmonth_str z false)
  | TMonth, RMonth m l => Ok (vmonth_str m l)
  | TMonth, RStr s => bind (vmonth_of_str s) (fun ml => Ok (vmonth_str (fst ml) (snd ml)))
  | TWeekday, RStr s => bind (vweekday s) (fun s' => Ok (upper s'))
  | TFreq, RStr s => bind (vfrequency s) (fun s' => Ok (upper s'))
  | TSkip, RStr s => bind (vskip s) (fun s' => Ok (escape_char s'))
  | TText, RStr s => Ok (escape_char s)
  | TUntil, RDate y m d => Ok (date_str y m d)
  | TUntil, RDateTime y m d h mi s utc => Ok (datetime_str y m d h mi s utc)
  | TUntil, _ => ValueErr                                   (* vDDDTypes: "You must use datetime, date, ..." *)
  | _, _ => Unsup
  end.

(* parser.from_ical(text) *)
Definition dec_val (t : vtype) (s : str) : res rv :=
  match t with
  | TInt => bind (py_int s) (fun z => Ok (RInt z))
  | TMonth => bind (vmonth_of_str s) (fun ml => Ok (RMonth (fst ml) (snd ml)))
  | TWeekday => bind (vweekday (upper s)) (fun s' => Ok (RStr s'))
  | TFreq => bind (vfrequency (upper s)) (fun s' => Ok (RStr s'))
  | TSkip => bind (vskip (unescape_char s)) (fun s' => Ok (RStr s'))
  | TText => Ok (RStr (unescape_char s))
  | TUntil => vddd_from_ical s
  end.

Fixpoint map_res {A B} (f : A -> res B) (l : list A) : res (list B) :=
  match l with
  | [] => Ok []
  | x :: r => bind (f x) (fun y => bind (map_res f r) (fun r' => Ok (y :: r')))
  end.

(* ---------------------------------------------------------------- vRecur *)
Definition rdict := list (str * rvals).        (* the CaselessDict content: upper-case names, insertion order *)

(* vRecur(mapping) -- keyword arguments have their scalars wrapped in a list first (the harness
   passes them already wrapped); stored through CaselessDict.__setitem__ *)
Definition recur_new (items : list (key * rvals)) : rdict := c_init items.

Definition enc_part (d : rdict) (k : str) : res str :=
  match dict_get k d with
  | None => Unsup
  | Some vals =>
      bind (map_res (enc_val (vtype_for k)) (vals_list vals)) (fun ts =>
      Ok (k ++ 61 :: join_chr 44 ts))
  end.

(* vRecur.to_ical: sorted_items() by canonical_order, key=v1,v2 joined by ";" *)
Definition recur_to_ical (d : rdict) : res str :=
  bind (map_res (enc_part d) (canonsort_keys (keys d) recur_canonical_order)) (fun parts =>
  Ok (join_chr 59 parts)).

(* parse_type *)
Definition parse_type (k vals : str) : res (list rv) :=
  map_res (dec_val (vtype_for k)) (split_chr 44 vals).

Fixpoint parse_pairs (pieces : list str) (acc : rdict) : res rdict :=
  match pieces with
  | [] => Ok acc
  | p :: r =>
      match split_chr 61 p with
      | [k; vals] => bind (parse_type k vals) (fun l => parse_pairs r (dict_set (upper k) (Many l) acc))
      | _ => parse_pairs r acc            (* "key, vals = ..." fails to unpack: the piece is skipped *)
      end
  end.

(* vRecur.from_ical(str): any exception leaves as ValueError; the result is copied with cls(recur) *)
Definition recur_from_ical (txt : str) : res rdict :=
  match parse_pairs (split_chr 59 txt) [] with
  | Ok d => Ok (c_init (as_kdict d))
  | Escape _ => ValueErr
  | r => r
  end.

(* ---------------------------------------------------------------- what a round trip must give back *)
Definition canon_val (t : vtype) (v : rv) : rv :=
  match t, v with
  | TInt, RMonth m _ => RInt m
  | TMonth, RInt z => RMonth z false
  | TMonth, RStr s => match vmonth_of_str s with Ok (z, l) => RMonth z l | _ => v end
  | TWeekday, RStr s => RStr (upper s)
  | TFreq, RStr s => RStr (upper s)
  | _, _ => v
  end.

Definition canon_rule (d : rdict) : rdict :=
  map (fun k => (k, Many (map (canon_val (vtype_for k))
                              (match dict_get k d with Some vals => vals_list vals | None => [] end))))
      (canonsort_keys (keys d) recur_canonical_order).

(* ---------------------------------------------------------------- domain of the round-trip theorem *)
Definition is_token_char (c : N) : bool := is_lower c || is_upper c || is_digit c || (c =? 45).
Definition is_token (s : str) : bool := match s with [] => false | _ => forallb is_token_char s end.

Definition month_text_ok (s : str) : bool :=
  isdigit_str s || match List.rev s with
                   | last :: init_rev => (last =? 76) && isdigit_str (List.rev init_rev)
                   | [] => false
                   end.

Definition is_ok {A} (r : res A) : bool := match r with Ok _ => true | _ => false end.

(* free of the three framing characters , ; = *)
Definition no_sep (s : str) : bool := negb (mem_chr 44 s || mem_chr 59 s || mem_chr 61 s).
(* TEXT on which the escaping of vText is the identity (C07 is about the others) *)
Definition text_plain (s : str) : bool :=
  str_eqb (escape_char s) s && str_eqb (unescape_char s) s && no_sep s.

Definition rv_eqb (a b : rv) : bool :=
  match a, b with
  | RInt x, RInt y => (x =? y)%Z
  | RMonth x l, RMonth y l' => (x =? y)%Z && Bool.eqb l l'
  | RStr x, RStr y => str_eqb x y
  | RDate y1 m1 d1, RDate y2 m2 d2 => (y1 =? y2) && (m1 =? m2) && (d1 =? d2)
  | RDateTime y1 m1 d1 h1 i1 s1 u1, RDateTime y2 m2 d2 h2 i2 s2 u2 =>
      (y1 =? y2) && (m1 =? m2) && (d1 =? d2) && (h1 =? h2) && (i1 =? i2) && (s1 =? s2) && Bool.eqb u1 u2
  | _, _ => false
  end.

(* the value's own codec round-trips: the value class accepts it, its text is free of the framing
   characters, decoding the text gives the canonical value, and that encodes to the same text.
   This is a decidable condition on one value; Proofs/RecurProofs.v proves it for EVERY integer,
   every non-negative month (leap or not), every frequency name in any letter case, every SKIP
   value and every plain text, and by finite table for every RFC weekdaynum; for UNTIL values and
   mixed-case weekdays it is evaluated (the harness checks that every generated in-domain rule
   satisfies it). *)
Definition val_ok (t : vtype) (v : rv) : bool :=
  match enc_val t v with
  | Ok s =>
      no_sep s
      && match dec_val t s with Ok v' => rv_eqb v' (canon_val t v) | _ => false end
      && match enc_val t (canon_val t v) with Ok s' => str_eqb s' s | _ => false end
  | _ => false
  end.

Definition part_ok (kv : str * rvals) : bool :=
  mem_str (fst kv) recur_canonical_order
  && match vals_list (snd kv) with [] => false | l => forallb (val_ok (vtype_for (fst kv))) l end.

Definition rule_ok (d : rdict) : bool := forallb part_ok d.

(* ---------------------------------------------------------------- RECUR recogniser (RFC 5545 3.3.10, RFC 7529 4.1) *)
Definition g_digits (lo hi : nat) (s : str) : bool :=
  forallb is_digit s && Nat.leb lo (List.length s) && (Nat.eqb hi 0 || Nat.leb (List.length s) hi).

(* [plus / minus] lo*hiDIGIT *)
Definition g_signed (lo hi : nat) (s : str) : bool :=
  match s with
  | c :: r => if (c =? 43) || (c =? 45) then g_digits lo hi r else g_digits lo hi s
  | [] => false
  end.

Definition rfc_weekdays : list str :=
  [s2l "SU"; s2l "MO"; s2l "TU"; s2l "WE"; s2l "TH"; s2l "FR"; s2l "SA"].
Definition rfc_freqs : list str :=
  [s2l "SECONDLY"; s2l "MINUTELY"; s2l "HOURLY"; s2l "DAILY"; s2l "WEEKLY"; s2l "MONTHLY"; s2l "YEARLY"].
Definition rfc_skips : list str := [s2l "OMIT"; s2l "BACKWARD"; s2l "FORWARD"].

(* weekdaynum = [[plus / minus] ordwk] weekday ; ordwk = 1*2DIGIT *)
Definition g_weekdaynum (s : str) : bool :=
  let n := List.length s in
  if Nat.leb 2 n then
    let pre := firstn (n - 2) s in
    mem_str (skipn (n - 2) s) rfc_weekdays && (match pre with [] => true | _ => g_signed 1 2 pre end)
  else false.

(* monthnum = 1*2DIGIT ["L"] *)
Definition g_month (s : str) : bool :=
  g_digits 1 2 s || match List.rev s with
                    | c :: r => (c =? 76) && g_digits 1 2 (List.rev r)
                    | [] => false
                    end.

(* enddate = date / date-time ; date = 8DIGIT ; date-time = date "T" 6DIGIT ["Z"] *)
Definition g_until (s : str) : bool :=
  let n := List.length s in
  if Nat.eqb n 8 then g_digits 8 8 s
  else if Nat.eqb n 15 || Nat.eqb n 16 then
    g_digits 8 8 (firstn 8 s) && str_eqb (slice 8 9 s) [84] && g_digits 6 6 (slice 9 15 s)
    && (match skipn 15 s with [] => true | [c] => c =? 90 | _ => false end)
  else false.

Definition g_list (g : str -> bool) (s : str) : bool := forallb g (split_chr 44 s).

Definition g_value (name vals : str) : bool :=
  if str_eqb name (s2l "FREQ") then mem_str vals rfc_freqs
  else if str_eqb name (s2l "UNTIL") then g_until vals
  else if str_eqb name (s2l "COUNT") then g_digits 1 0 vals
  else if str_eqb name (s2l "INTERVAL") then g_digits 1 0 vals
  else if str_eqb name (s2l "BYSECOND") then g_list (g_digits 1 2) vals
  else if str_eqb name (s2l "BYMINUTE") then g_list (g_digits 1 2) vals
  else if str_eqb name (s2l "BYHOUR") then g_list (g_digits 1 2) vals
  else if str_eqb name (s2l "BYDAY") then g_list g_weekdaynum vals
  else if str_eqb name (s2l "BYMONTHDAY") then g_list (g_signed 1 2) vals
  else if str_eqb name (s2l "BYYEARDAY") then g_list (g_signed 1 3) vals
  else if str_eqb name (s2l "BYWEEKNO") then g_list (g_signed 1 2) vals
  else if str_eqb name (s2l "BYMONTH") then g_list g_month vals
  else if str_eqb name (s2l "BYSETPOS") then g_list (g_signed 1 3) vals
  else if str_eqb name (s2l "WKST") then mem_str vals rfc_weekdays
  else if str_eqb name (s2l "RSCALE") then is_token vals
  else if str_eqb name (s2l "SKIP") then mem_str vals rfc_skips
  else false.

Definition g_part (p : str) : option str :=
  match split_chr 61 p with
  | [name; vals] => if g_value name vals then Some name else None
  | _ => None
  end.

Fixpoint nodup_strs (l : list str) : bool :=
  match l with
  | [] => true
  | x :: r => negb (mem_str x r) && nodup_strs r
  end.

Fixpoint all_some {A} (l : list (option A)) : option (list A) :=
  match l with
  | [] => Some []
  | Some x :: r => match all_some r with Some r' => Some (x :: r') | None => None end
  | None :: _ => None
  end.

(* recur = recur-rule-part *( ";" recur-rule-part ), every part at most once, FREQ required and
   first (RSCALE, which RFC 7529 puts in front, may precede it), COUNT and UNTIL not together *)
Definition recur_grammar (txt : str) : bool :=
  match all_some (map g_part (split_chr 59 txt)) with
  | None => false
  | Some names =>
      nodup_strs names
      && negb (mem_str (s2l "COUNT") names && mem_str (s2l "UNTIL") names)
      && match names with
         | n1 :: rest => str_eqb n1 (s2l "FREQ")
                         || (str_eqb n1 (s2l "RSCALE")
                             && match rest with n2 :: _ => str_eqb n2 (s2l "FREQ") | [] => false end)
         | [] => false
         end
  end.

(* the RFC value domain: the guard of the grammar theorem *)
Definition in_range (lo hi z : Z) : bool := (lo <=? z)%Z && (z <=? hi)%Z.
Definition signed_range (hi z : Z) : bool := in_range 1 hi z || in_range (- hi) (-1) z.

Definition rfc_val_ok (name : str) (v : rv) : bool :=
  match v with
  | RInt z =>
      if str_eqb name (s2l "COUNT") || str_eqb name (s2l "INTERVAL") then (0 <=? z)%Z
      else if str_eqb name (s2l "BYSECOND") then in_range 0 60 z
      else if str_eqb name (s2l "BYMINUTE") then in_range 0 59 z
      else if str_eqb name (s2l "BYHOUR") then in_range 0 23 z
      else if str_eqb name (s2l "BYMONTHDAY") then signed_range 31 z
      else if str_eqb name (s2l "BYYEARDAY") || str_eqb name (s2l "BYSETPOS") then signed_range 366 z
      else if str_eqb name (s2l "BYWEEKNO") then signed_range 53 z
      else if str_eqb name (s2l "BYMONTH") then in_range 1 13 z
      else false
  | RMonth m _ => str_eqb name (s2l "BYMONTH") && in_range 1 13 m
  | RStr s =>
      if str_eqb name (s2l "BYDAY") then g_weekdaynum (upper s)
      else if str_eqb name (s2l "WKST") then mem_str (upper s) rfc_weekdays
      else if str_eqb name (s2l "BYMONTH") then g_month s
      else if str_eqb name (s2l "RSCALE") then is_token s
      else true
  | _ => true
  end.

Definition single_valued (name : str) : bool :=
  mem_str name [s2l "FREQ"; s2l "UNTIL"; s2l "COUNT"; s2l "INTERVAL"; s2l "WKST"; s2l "RSCALE"; s2l "SKIP"].

Definition rfc_part_ok (kv : str * rvals) : bool :=
  negb (str_eqb (fst kv) (s2l "BYWEEKDAY"))
  && forallb (rfc_val_ok (fst kv)) (vals_list (snd kv))
  && (negb (single_valued (fst kv)) || Nat.eqb (List.length (vals_list (snd kv))) 1).

Definition rfc_rule_ok (d : rdict) : bool :=
  rule_ok d && forallb rfc_part_ok d
  && dict_mem (s2l "FREQ") d
  && negb (dict_mem (s2l "COUNT") d && dict_mem (s2l "UNTIL") d).
