(* Building a tree through the API (C02): Component.add after _encode (accumulation into lists), item
   assignment, add_component; the parameters vDDDTypes / vDDDLists derive from the Python value; the RFC
   5545 table of default value types.  Definitions only. *)
Require Import Lib.Base Lib.Chain Gen.Gen_parser Gen.Gen_cal Model.Text Model.Params Model.Contentline Model.Sort Model.Tree.
From Coq Require Import String.
Local Open Scope string_scope.

(* the value handed to Component.add, after _encode: one typed value or a list of them *)
Inductive newval := NOne (v : value) | NMany (l : list value).
Definition newval_values (nv : newval) : list value := match nv with NOne v => [v] | NMany l => l end.

(* Component.add(name, value) (after the fix bd2ffb7: a list extends a single old value) *)
Definition api_add (props : list (list N * pentry)) (name : list N) (nv : newval) : list (list N * pentry) :=
  let k := upper name in
  match dict_get k props with
  | None => dict_set k (match nv with NOne v => One v | NMany l => Many l end) props
  | Some (One o) => dict_set k (Many (o :: newval_values nv)) props
  | Some (Many old) => dict_set k (Many (old ++ newval_values nv)%list) props
  end.

(* component[name] = value *)
Definition api_set (props : list (list N * pentry)) (name : list N) (nv : newval) : list (list N * pentry) :=
  dict_set (upper name) (match nv with NOne v => One v | NMany l => Many l end) props.

Inductive api_op := OpAdd (name : list N) (nv : newval) | OpSet (name : list N) (nv : newval).
Definition api_step (props : list (list N * pentry)) (op : api_op) : list (list N * pentry) :=
  match op with OpAdd n nv => api_add props n nv | OpSet n nv => api_set props n nv end.
Definition api_build (ops : list api_op) : list (list N * pentry) := fold_left api_step ops [].

Definition props_values (props : list (list N * pentry)) (k : list N) : list value :=
  match dict_get k props with Some e => entry_values e | None => [] end.

(* the values supplied for the (upper-cased) name k, in supply order, counting from the last assignment *)
Fixpoint supplied (k : list N) (ops : list api_op) (acc : list value) : list value :=
  match ops with
  | [] => acc
  | OpAdd n nv :: r => if str_eqb (upper n) k then supplied k r (acc ++ newval_values nv)%list else supplied k r acc
  | OpSet n nv :: r => if str_eqb (upper n) k then supplied k r (newval_values nv) else supplied k r acc
  end.

(* ---------------------------------------------------------------- vDDDTypes / vDDDLists constructors *)
Inductive pykind :=
| KDate | KNaive | KUtc | KZoned (zone : list N) | KTimeNaive | KTimedelta | KPeriod.

(* vDDDTypes.__init__: VALUE for date / time / tuple, TZID for a zoned datetime whose id is not UTC *)
Definition ddd_params (k : pykind) : params :=
  match k with
  | KDate => [(s2l "VALUE", PStr (s2l "DATE"))]
  | KTimeNaive => [(s2l "VALUE", PStr (s2l "TIME"))]
  | KPeriod => [(s2l "VALUE", PStr (s2l "PERIOD"))]
  | KZoned z => [(s2l "TZID", PStr z)]
  | KNaive | KUtc | KTimedelta => []
  end.

(* vDDDLists.__init__: only the TZID of the LAST entry that has one; no VALUE *)
Definition dddlist_params (ks : list pykind) : params :=
  match fold_left (fun acc k => match dict_get (s2l "TZID") (ddd_params k) with Some t => Some t | None => acc end) ks None with
  | Some t => [(s2l "TZID", t)]
  | None => []
  end.

(* the RFC 5545 value type of what the value is rendered as *)
Definition rendered_type (k : pykind) : list N :=
  match k with
  | KDate => s2l "DATE" | KNaive | KUtc | KZoned _ => s2l "DATE-TIME" | KTimeNaive => s2l "TIME"
  | KTimedelta => s2l "DURATION" | KPeriod => s2l "PERIOD"
  end.
(* the RFC default value type behind a type key of types_map *)
Definition default_type (key : list N) : list N :=
  if str_is key "date-time" || str_is key "date-time-list" then s2l "DATE-TIME"
  else if str_is key "duration" then s2l "DURATION"
  else if str_is key "period" then s2l "PERIOD"
  else if str_is key "date" then s2l "DATE"
  else if str_is key "time" then s2l "TIME" else upper key.

Definition value_param_ok (name : list N) (rendered : list N) (ps : params) : bool :=
  str_eqb rendered (default_type (type_key name))
  || match dict_get (s2l "VALUE") ps with Some (PStr v) => str_eqb v rendered | _ => false end.

(* ---------------------------------------------------------------- RFC 5545 sections 3.7-3.8: default value types *)
Definition rfc5545_types : list (string * string) :=
  [("CALSCALE","text"); ("METHOD","text"); ("PRODID","text"); ("VERSION","text");
   ("ATTACH","uri"); ("CATEGORIES","text"); ("CLASS","text"); ("COMMENT","text"); ("DESCRIPTION","text"); ("GEO","float");
   ("LOCATION","text"); ("PERCENT-COMPLETE","integer"); ("PRIORITY","integer"); ("RESOURCES","text"); ("STATUS","text");
   ("SUMMARY","text"); ("COMPLETED","date-time"); ("DTEND","date-time"); ("DUE","date-time"); ("DTSTART","date-time");
   ("DURATION","duration"); ("FREEBUSY","period"); ("TRANSP","text"); ("TZID","text"); ("TZNAME","text");
   ("TZOFFSETFROM","utc-offset"); ("TZOFFSETTO","utc-offset"); ("TZURL","uri"); ("ATTENDEE","cal-address"); ("CONTACT","text");
   ("ORGANIZER","cal-address"); ("RECURRENCE-ID","date-time"); ("RELATED-TO","text"); ("URL","uri"); ("UID","text");
   ("EXDATE","date-time"); ("RDATE","date-time"); ("RRULE","recur"); ("ACTION","text"); ("REPEAT","integer");
   ("TRIGGER","duration"); ("CREATED","date-time"); ("DTSTAMP","date-time"); ("LAST-MODIFIED","date-time"); ("SEQUENCE","integer");
   ("REQUEST-STATUS","text")].

(* the library's type keys that implement an RFC value type (lists and structured text have their own keys) *)
Definition implements (key rfc : list N) : bool :=
  str_eqb key rfc
  || (str_is rfc "date-time" && str_is key "date-time-list")      (* EXDATE / RDATE: comma-separated list *)
  || (str_is rfc "text" && str_is key "categories")                (* CATEGORIES: comma-separated TEXT *)
  || (str_is rfc "float" && str_is key "geo").                     (* GEO: two FLOATs *)
