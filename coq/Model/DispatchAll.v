(* The single entry point of the extracted model: tries the per-area dispatchers in turn. *)
Require Import Lib.Base Model.Dispatch Model.DispatchCodec Model.DispatchDict Model.DispatchSched
        Model.DispatchTree Model.DispatchTz Model.DispatchRecur.

Definition first_some (l : list (list N -> jv -> option jv)) (f : list N) (a : jv) : option jv :=
  fold_left (fun acc d => match acc with Some r => Some r | None => d f a end) l None.

Definition dispatch_all (f : list N) (a : jv) : jv :=
  match first_some [dispatch_codec; dispatch_recur; dispatch_dict; dispatch_sched; dispatch_tree; dispatch_tz] f a with
  | Some r => r
  | None => dispatch f a
  end.
