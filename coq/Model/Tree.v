(* The component tree: Component.from_ical (the line loop as a stack machine), Component.add
   with encode=0, property_items / content_lines / to_ical.  Typed values are seen by the tree
   as (class name, parameters, wire text = value.to_ical()); the value codecs themselves are a
   parameter [dec] of the parser (C03, C07, C19 are about them).  Definitions only. *)
Require Import Lib.Base Lib.Chain Gen.Gen_parser Gen.Gen_cal Model.Text Model.Params Model.Fold Model.Contentline Model.Sort.
From Coq Require Import String.
Local Open Scope string_scope.

Record value := { v_class : list N; v_params : params; v_text : list N }.
Inductive pentry := One (v : value) | Many (l : list value).
Definition entry_values (e : pentry) : list value := match e with One v => [v] | Many l => l end.

(* errors of a lenient component: the upper-cased property name, or None for an unsplittable line *)
Inductive comp := Comp (name : list N) (props : list (list N * pentry)) (subs : list comp)
                       (errs : list (option (list N))).
Definition c_name (c : comp) := let '(Comp n _ _ _) := c in n.
Definition c_props (c : comp) := let '(Comp _ p _ _) := c in p.
Definition c_subs (c : comp) := let '(Comp _ _ s _) := c in s.
Definition c_errs (c : comp) := let '(Comp _ _ _ e) := c in e.

(* ------------------------------------------------------------------ tables *)
Fixpoint find_class (n : list N) (l : list comp_class) : option comp_class :=
  match l with
  | [] => None
  | c :: r => if str_eqb (cc_name c) n then Some c else find_class n r
  end.
Definition class_of (n : list N) : option comp_class := find_class n component_classes.
Definition ignores (n : list N) : bool := match class_of n with Some c => cc_ignore c | None => false end.
Definition canonical_of (n : list N) : list (list N) :=
  match class_of n with Some c => cc_canonical c | None => [] end.

(* TypesFactory.for_property(name): the type key, default 'text'; then the class registered for it *)
Definition type_key (name : list N) : list N :=
  match dict_get (upper name) types_map with Some k => k | None => s2l "text" end.
Definition class_name_of_key (k : list N) : option (list N) := dict_get (upper k) type_classes.
Definition mem_str (x : list N) (l : list (list N)) : bool := existsb (str_eqb x) l.

(* ------------------------------------------------------------------ Component.add(name, value, encode=0) *)
Definition comp_add (props : list (list N * pentry)) (name : list N) (v : value) : list (list N * pentry) :=
  let k := upper name in
  match dict_get k props with
  | None => dict_set k (One v) props
  | Some (One o) => dict_set k (Many [o; v]) props
  | Some (Many l) => dict_set k (Many (l ++ [v])) props
  end.

(* ------------------------------------------------------------------ the parser *)
Record frame := { f_name : list N; f_props : list (list N * pentry); f_subs : list comp;
                  f_errs : list (option (list N)) }.
Definition close (f : frame) : comp := Comp (f_name f) (f_props f) (f_subs f) (f_errs f).
Definition new_frame (n : list N) : frame := {| f_name := n; f_props := []; f_subs := []; f_errs := [] |}.
Definition add_err (f : frame) (e : option (list N)) : frame :=
  {| f_name := f_name f; f_props := f_props f; f_subs := f_subs f; f_errs := f_errs f ++ [e] |}.
Definition add_sub (f : frame) (c : comp) : frame :=
  {| f_name := f_name f; f_props := f_props f; f_subs := f_subs f ++ [c]; f_errs := f_errs f |}.
Definition add_vals (f : frame) (name : list N) (vs : list value) : frame :=
  {| f_name := f_name f; f_props := fold_left (fun p v => comp_add p name v) vs (f_props f);
     f_subs := f_subs f; f_errs := f_errs f |}.

(* [cache]: the outcomes of the successive tzp.cache_timezone_component calls (an oracle: building a
   time zone object from a VTIMEZONE is zoneinfo/pytz/dateutil work, see C12) *)
Record pstate := { stack : list frame; done : list comp; cache : list (res unit) }.

Inductive outcome := Next (s : pstate) | Break (s : pstate) | Raise (e : res unit).

(* a value decoder: type key -> value text -> TZID parameter (if handed over) -> wire text of the
   decoded value, or the exception class *)
Definition decoder := list N -> list N -> option pval -> res (list N).

Fixpoint dec_all (dec : decoder) (key : list N) (tz : option pval) (vals : list (list N)) : res (list (list N)) :=
  match vals with
  | [] => Ok []
  | v :: r => bind (dec key v tz) (fun t => bind (dec_all dec key tz r) (fun ts => Ok (t :: ts)))
  end.

Definition str_is (s : list N) (lit : string) : bool := str_eqb s (s2l lit).

Definition decode_line (dec : decoder) (name : list N) (ps : params) (vals : list N) : res (list (list N)) :=
  let key := type_key name in
  let tz := dict_get (s2l "TZID") ps in
  (* the comparisons with 'FREEBUSY' and datetime_names use the upper-cased name (fixed in /repo) *)
  if str_is (upper name) "FREEBUSY" then dec_all dec key tz (split_chr 44 vals)
  else if mem_str (upper name) datetime_names then
         match tz with Some _ => dec_all dec key tz [vals] | None => dec_all dec key None [vals] end
  else dec_all dec key None [vals].

Definition step_parts (dec : decoder) (s : pstate) (r : res (list N * params * list N)) : outcome :=
  match r with
  | ValueErr =>
      match stack s with
      | f :: r => if ignores (f_name f) then Next {| stack := add_err f None :: r; done := done s; cache := cache s |}
                  else Raise ValueErr
      | [] => Raise ValueErr
      end
  | Escape k => Raise (Escape k)
  | Unsup => Raise Unsup
  | Ok (name, ps, vals) =>
      let uname := upper name in
      if str_is uname "BEGIN" then
        if all_ascii vals then Next {| stack := new_frame (upper vals) :: stack s; done := done s; cache := cache s |}
        else Raise Unsup
      else if str_is uname "END" then
        match stack s with
        | [] => Raise ValueErr
        | f :: rest =>
            let s1 := match rest with
                      | [] => {| stack := []; done := done s ++ [close f]; cache := cache s |}
                      | g :: r => {| stack := add_sub g (close f) :: r; done := done s; cache := cache s |}
                      end in
            (* if component.name == 'VTIMEZONE' and 'TZID' in component: tzp.cache_timezone_component(component) *)
            if str_is (f_name f) "VTIMEZONE" && match dict_get (s2l "TZID") (f_props f) with Some _ => true | None => false end
            then match cache s1 with
                 | [] => Next s1            (* no recorded outcome left: the call is taken to return normally *)
                 | Ok _ :: c' => Next {| stack := stack s1; done := done s1; cache := c' |}
                 | e :: _ => Raise e
                 end
            else Next s1
        end
      else
        match stack s with
        | [] => if str_is uname "X-COMMENT" then Break s else Raise ValueErr
        | f :: r =>
            match class_name_of_key (type_key name) with
            | None => Raise (Escape (s2l "KeyError"))
            | Some cls =>
                match decode_line dec name ps vals with
                | Ok texts =>
                    let vs := map (fun t => {| v_class := cls; v_params := ps; v_text := t |}) texts in
                    Next {| stack := add_vals f name vs :: r; done := done s; cache := cache s |}
                | ValueErr => if ignores (f_name f)
                              then Next {| stack := add_err f (Some uname) :: r; done := done s; cache := cache s |}
                              else Raise ValueErr
                | Escape k => Raise (Escape k)
                | Unsup => Raise Unsup
                end
            end
        end
  end.

Definition step (dec : decoder) (s : pstate) (line : list N) : outcome := step_parts dec s (parts line).

Fixpoint run_lines (dec : decoder) (s : pstate) (lines : list (list N)) : res pstate :=
  match lines with
  | [] => Ok s
  | l :: r => match step dec s l with
              | Next s' => run_lines dec s' r
              | Break s' => Ok s'
              | Raise ValueErr => ValueErr
              | Raise (Escape k) => Escape k
              | Raise _ => Unsup
              end
  end.

(* Component.from_ical(st, multiple) on text *)
Definition parse (dec : decoder) (cache0 : list (res unit)) (multiple : bool) (st : list N) : res (list comp) :=
  bind (run_lines dec {| stack := []; done := []; cache := cache0 |} (contentlines_from_ical st)) (fun s =>
  if multiple then Ok (done s)
  else match done s with [c] => Ok [c] | _ => ValueErr end).

(* ------------------------------------------------------------------ the serialiser *)
(* canonsort_keys(keys, canonical_order) *)
Fixpoint index_of (k : list N) (l : list (list N)) (i : nat) : option nat :=
  match l with [] => None | x :: r => if str_eqb x k then Some i else index_of k r (S i) end.

(* Python's sorted: the stable insertion sort of Model/Sort.v *)
Definition canonsort_keys (keys canonical : list (list N)) : list (list N) :=
  let head := filter (fun k => match index_of k canonical O with Some _ => true | None => false end) keys in
  let tail := filter (fun k => match index_of k canonical O with Some _ => false | None => true end) keys in
  let idx k := match index_of k canonical O with Some i => i | None => O end in
  sort_by (fun a b => Nat.leb (idx a) (idx b)) head ++ sort_by str_leb tail.

Definition prop_line := (list N * params * list N)%type.     (* name, parameters, value text *)

(* BEGIN/END value: vText(vText(name).to_ical()).to_ical() -- escaped twice, as the code does *)
Definition begin_end_text (n : list N) : list N := escape_char (escape_char n).

Definition own_items (sorted : bool) (c : comp) : list prop_line :=
  let keys := map fst (c_props c) in
  let keys' := if sorted then canonsort_keys keys (canonical_of (c_name c)) else keys in
  flat_map (fun k => match dict_get k (c_props c) with
                     | Some e => map (fun v => (k, v_params v, v_text v)) (entry_values e)
                     | None => []
                     end) keys'.

Fixpoint property_items (sorted : bool) (c : comp) : list prop_line :=
  let '(Comp n ps subs es) := c in
  ((s2l "BEGIN", [], begin_end_text n) : prop_line)
    :: own_items sorted c
    ++ flat_map (property_items sorted) subs
    ++ [((s2l "END", [], begin_end_text n) : prop_line)].

Fixpoint lines_of (sorted : bool) (items : list prop_line) : res (list (list N)) :=
  match items with
  | [] => Ok []
  | (n, ps, v) :: r => bind (from_parts n ps sorted v) (fun l =>
                       bind (lines_of sorted r) (fun ls => Ok (l :: ls)))
  end.

(* Component.to_ical(sorted) as text (the octets are its UTF-8 encoding) *)
Definition ser (sorted : bool) (c : comp) : res (list N) :=
  bind (lines_of sorted (property_items sorted c)) (fun ls => Ok (contentlines_to_ical ls)).

(* ------------------------------------------------------------------ traversal, queries *)
Fixpoint preorder (c : comp) : list comp :=
  let '(Comp _ _ subs _) := c in c :: flat_map preorder subs.

(* Component.walk(name): the query is upper-cased and compared with the stored name *)
Fixpoint walk_raw (name : option (list N)) (c : comp) : list comp :=
  let '(Comp n _ subs _) := c in
  (if match name with None => true | Some q => str_eqb n q end then [c] else [])
  ++ flat_map (walk_raw name) subs.
Definition walk (name : option (list N)) (c : comp) : list comp :=
  walk_raw (option_map upper name) c.

(* Calendar.get_used_tzids: TZID parameter of every value yielded by property_items *)
Definition tzid_of (ps : params) : option pval := dict_get (s2l "TZID") ps.
Definition used_tzids (c : comp) : list pval :=
  flat_map (fun it : prop_line => match tzid_of (snd (fst it)) with Some t => [t] | None => [] end)
           (property_items false c).

(* ------------------------------------------------------------------ normal form and guards used by C01 *)
(* what a serialise-and-parse round trip makes of a tree: properties in emission order, parameters
   canonical (upper-cased names, sorted when sorting is on), a one-element list entry = a single
   value, no error list *)
Definition norm_value (sorted : bool) (v : value) : value :=
  {| v_class := v_class v; v_params := canon_params (order_params sorted (v_params v)); v_text := v_text v |}.
Definition norm_entry (sorted : bool) (e : pentry) : pentry :=
  match map (norm_value sorted) (entry_values e) with
  | [v] => One v
  | l => Many l
  end.
Definition emit_keys (sorted : bool) (n : list N) (ps : list (list N * pentry)) : list (list N) :=
  if sorted then canonsort_keys (map fst ps) (canonical_of n) else map fst ps.
Definition norm_props (sorted : bool) (n : list N) (ps : list (list N * pentry)) : list (list N * pentry) :=
  flat_map (fun k => match dict_get k ps with Some e => [(k, norm_entry sorted e)] | None => [] end)
           (emit_keys sorted n ps).
Fixpoint norm (sorted : bool) (c : comp) : comp :=
  let '(Comp n ps subs es) := c in Comp n (norm_props sorted n ps) (map (norm sorted) subs) [].

(* one value of property [k] survives the round trip: its line splits back into the same name and
   parameters (C05 guards), and what Contentline.parts makes of its wire text ([line_value_path]) is
   decoded to a value with the same wire text (codec stability: C03 / C07 / C19) and the class the name selects *)
Definition value_ok (dec : decoder) (sorted : bool) (k : list N) (v : value) : bool :=
  wf_params (v_params v) && head_safe k (v_params v) sorted && params_unesc_safe (v_params v)
  && no_chr 10 (v_text v)
  && match class_name_of_key (type_key k) with Some c => str_eqb c (v_class v) | None => false end
  && match decode_line dec k (canon_params (order_params sorted (v_params v))) (line_value_path (v_text v)) with
     | Ok [t] => str_eqb t (v_text v)
     | _ => false
     end.
Definition key_ok (k : list N) : bool :=
  is_token k && str_eqb (upper k) k && negb (str_is k "BEGIN") && negb (str_is k "END").
Definition nonempty_l {A} (l : list A) : bool := match l with [] => false | _ => true end.
Definition entry_ok (dec : decoder) (sorted : bool) (kv : list N * pentry) : bool :=
  key_ok (fst kv) && nonempty_l (entry_values (snd kv))
  && forallb (value_ok dec sorted (fst kv)) (entry_values (snd kv)).
(* component names are upper-case tokens; property names are pairwise different *)
Definition name_ok (n : list N) : bool := is_token n && str_eqb (upper n) n.
Fixpoint tree_ok (dec : decoder) (sorted : bool) (c : comp) : bool :=
  let '(Comp n ps subs es) := c in
  name_ok n && forallb (entry_ok dec sorted) ps && nodup_strs (map fst ps)
  && forallb (tree_ok dec sorted) subs.

(* parameter names stored upper-case (what CaselessDict guarantees, C17) *)
Definition params_upper (ps : params) : bool := forallb (fun kv : list N * pval => str_eqb (upper (fst kv)) (fst kv)) ps.
Fixpoint tree_upper (c : comp) : bool :=
  let '(Comp n ps subs es) := c in
  forallb (fun kv : list N * pentry => forallb (fun v => params_upper (v_params v)) (entry_values (snd kv))) ps
  && forallb tree_upper subs.

(* a concrete decoder for examples: TEXT through the generated escape chains, URI-like kinds unchanged *)
Definition dec_basic : decoder := fun key v _ =>
  if str_is key "text" then Ok (escape_char (unescape_char v))
  else if str_is key "uri" || str_is key "cal-address" || str_is key "inline" then Ok v
  else Unsup.
