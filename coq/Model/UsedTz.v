(* Calendar.get_used_tzids / get_missing_tzids / timezones / Timezone.tz_name /
   add_missing_timezones over the tree model.  Sets are duplicate-free lists; the iteration order
   of a Python set is an explicit parameter.  Definitions only. *)
Require Import Lib.Base Lib.Chain Gen.Gen_parser Gen.Gen_cal Model.Text Model.Params Model.Contentline Model.Sort Model.Tree.
From Coq Require Import String.
Local Open Scope string_scope.

Fixpoint dedupe_strs (l : list (list N)) : list (list N) :=
  match l with
  | [] => []
  | x :: r => if mem_str x r then dedupe_strs r else x :: dedupe_strs r
  end.

(* result.add(value.params.get("TZID")): a list-valued TZID parameter is unhashable *)
Fixpoint strs_of_pvals (l : list pval) : res (list (list N)) :=
  match l with
  | [] => Ok []
  | PStr s :: r => bind (strs_of_pvals r) (fun r' => Ok (s :: r'))
  | PList _ :: _ => Escape (s2l "TypeError")
  end.

(* get_used_tzids() as a duplicate-free list *)
Definition used_set (c : comp) : res (list (list N)) :=
  bind (strs_of_pvals (used_tzids c)) (fun l => Ok (dedupe_strs l)).

Definition timezones (c : comp) : list comp := walk (Some (s2l "VTIMEZONE")) c.

(* Timezone.tz_name = str(self['TZID']); the decoded TEXT is unescape_char of the wire text *)
Definition tz_name (tz : comp) : res (list N) :=
  match dict_get (s2l "TZID") (c_props tz) with
  | Some (One v) => Ok (unescape_char (v_text v))
  | Some (Many _) => Unsup            (* str() of a Python list: not modelled *)
  | None => Escape (s2l "KeyError")
  end.

Fixpoint discard_str (x : list N) (l : list (list N)) : list (list N) :=
  match l with
  | [] => []
  | y :: r => if str_eqb x y then r else y :: discard_str x r
  end.

(* for timezone in self.timezones: tzids.discard(timezone.tz_name) *)
Fixpoint remove_all (tzs : list comp) (ids : list (list N)) : res (list (list N)) :=
  match tzs with
  | [] => Ok ids
  | tz :: r => bind (tz_name tz) (fun n => remove_all r (discard_str n ids))
  end.

Definition missing_set (c : comp) : res (list (list N)) :=
  bind (used_set c) (fun ids => remove_all (timezones c) ids).

(* add_missing_timezones: [order] is the iteration order of the missing set (any permutation);
   [gen z] is Timezone.from_tzid (None = ValueError: unknown id) *)
Definition add_missing (gen : list N -> option comp) (order : list (list N) -> list (list N)) (c : comp) : res comp :=
  bind (missing_set c) (fun ms =>
  let '(Comp n ps subs es) := c in
  Ok (Comp n ps (subs ++ flat_map (fun z => match gen z with Some tz => [tz] | None => [] end) (order ms)) es)).

(* the call as the code now makes it: for tzid in sorted(missing) *)
Definition add_missing_sorted (gen : list N -> option comp) (c : comp) : res comp :=
  add_missing gen (sort_by str_leb) c.

(* the specification side: all TZID parameters of all values of all nested components *)
Definition comp_tzids (c : comp) : list pval :=
  flat_map (fun kv : list N * pentry =>
              flat_map (fun v => match tzid_of (v_params v) with Some t => [t] | None => [] end) (entry_values (snd kv)))
           (c_props c).
Definition all_tzids (c : comp) : list pval := flat_map comp_tzids (preorder c).
