(* Dispatcher of the model area: typed value codecs (C03) and recurrence rules (C19).
   [dispatch_codec f a] = Some result when [f] names a function of this area.  Definitions only. *)
Require Import Lib.Base Model.DispatchC03.
From Coq Require Import String.
Local Open Scope string_scope.

Definition dispatch_codec (f : list N) (a : jv) : option jv := dispatch_c03 f a.
