(* Model of parser.foldline, Contentline.to_ical/from_ical (fold / unfold) and the
   Contentlines joiner.  Definitions only. *)
Require Import Lib.Base Gen.Gen_parser.
From Coq Require Import Arith.

(* number of UTF-8 octets of a code point (scalar values; surrogates are not strings the
   encoder accepts and are excluded by every statement) *)
Definition ulen (c : chr) : nat :=
  if c <? 128 then 1 else if c <? 2048 then 2 else if c <? 65536 then 3 else 4.

Fixpoint bytes (l : str) : nat :=
  match l with [] => O | c :: r => (ulen c + bytes r)%nat end.

Definition is_ascii (l : str) : bool := forallb (fun c => c <? 128) l.

(* fast path: fold_sep.join(line[i:i+limit-1] for i in range(0, len(line), limit-1)) *)
Fixpoint fold_ascii (lim1 : nat) (sep : str) (k : nat) (l : str) : str :=
  match l with
  | [] => []
  | c :: r => if (k =? lim1)%nat then sep ++ c :: fold_ascii lim1 sep 1 r
              else c :: fold_ascii lim1 sep (S k) r
  end.

(* general path: per-character octet counting with [byte_count >= limit] *)
Fixpoint fold_gen (limit : nat) (sep : str) (bc : nat) (l : str) : str :=
  match l with
  | [] => []
  | c :: r => let n := ulen c in
              if (limit <=? bc + n)%nat then sep ++ c :: fold_gen limit sep n r
              else c :: fold_gen limit sep (bc + n)%nat r
  end.

Definition foldline_with (limit : nat) (sep : str) (l : str) : str :=
  if is_ascii l then fold_ascii (limit - 1) sep 0 l else fold_gen limit sep 0 l.

Definition foldline (l : str) : str := foldline_with fold_limit fold_sep l.

(* uFOLD.sub('', s) with uFOLD = (\r?\n)+[ \t] ------------------------------------------- *)
(* [after_nl l]: l is read just after one complete (\r?\n) group.  Returns the number of
   further characters the match consumes (further groups, then one SPACE/TAB), if it
   succeeds.  Greedy iteration never needs backtracking: after k-1 groups the next
   character starts the k-th group and so is not SPACE/TAB. *)
Fixpoint after_nl (l : str) : option nat :=
  match l with
  | [] => None
  | c :: r =>
      if (c =? 32) || (c =? 9) then Some 1%nat
      else if c =? 10 then option_map S (after_nl r)
      else if c =? 13 then
        match r with
        | d :: r' => if d =? 10 then option_map (fun n => S (S n)) (after_nl r') else None
        | [] => None
        end
      else None
  end.

(* length of the match of uFOLD at the head of l, 0 if there is none *)
Definition fold_match_len (l : str) : nat :=
  match l with
  | [] => O
  | c :: r =>
      if c =? 10 then match after_nl r with Some n => S n | None => O end
      else if c =? 13 then
        match r with
        | d :: r' => if d =? 10 then match after_nl r' with Some n => S (S n) | None => O end
                     else O
        | [] => O
        end
      else O
  end.

Fixpoint unfold_aux (skip : nat) (l : str) : str :=
  match l with
  | [] => []
  | c :: r =>
      match skip with
      | S k => unfold_aux k r
      | O => match fold_match_len l with
             | O => c :: unfold_aux O r
             | S k => unfold_aux k r
             end
      end
  end.

Definition unfold (l : str) : str := unfold_aux 0 l.

(* the RFC 5545 3.1 unfolding: remove every CRLF immediately followed by one SPACE/HTAB *)
Definition rfc_fold_here (l : str) : bool :=
  match l with
  | a :: b :: c :: _ => (a =? 13) && (b =? 10) && ((c =? 32) || (c =? 9))
  | _ => false
  end.

Fixpoint rfc_unfold_aux (skip : nat) (l : str) : str :=
  match l with
  | [] => []
  | c :: r =>
      match skip with
      | S k => rfc_unfold_aux k r
      | O => if rfc_fold_here l then rfc_unfold_aux 2 r else c :: rfc_unfold_aux O r
      end
  end.
Definition rfc_unfold (l : str) : str := rfc_unfold_aux 0 l.

(* physical lines: split on CR LF (always a non-empty list) *)
Definition cons_head (c : chr) (ls : list str) : list str :=
  match ls with [] => [[c]] | h :: t => (c :: h) :: t end.

Fixpoint phys_lines (l : str) : list str :=
  match l with
  | [] => [[]]
  | c :: r =>
      match r with
      | d :: r' => if (c =? 13) && (d =? 10) then [] :: phys_lines r'
                   else cons_head c (phys_lines r)
      | [] => cons_head c (phys_lines r)
      end
  end.

Definition no_lf (l : str) : bool := negb (mem_chr 10 l).
