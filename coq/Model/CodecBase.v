(* Shared pieces of the typed value codecs (C03): Python's int(str) on ASCII, str(int) through the
   standard library's decimal printer, zero-padded formatting, slicing with Python's clamping,
   proleptic Gregorian date validity, timedelta range.  Definitions only. *)
Require Import Lib.Base Model.Params.
From Coq Require Decimal DecimalZ.
Local Open Scope Z_scope.

(* ---------------------------------------------------------------- slicing: s[a:b], 0 <= a <= b *)
Definition slice (a b : nat) (s : str) : str := firstn (b - a) (skipn a s).

(* ---------------------------------------------------------------- str(int) *)
Fixpoint uint_chars (u : Decimal.uint) : str :=
  match u with
  | Decimal.Nil => []
  | Decimal.D0 r => 48%N :: uint_chars r
  | Decimal.D1 r => 49%N :: uint_chars r
  | Decimal.D2 r => 50%N :: uint_chars r
  | Decimal.D3 r => 51%N :: uint_chars r
  | Decimal.D4 r => 52%N :: uint_chars r
  | Decimal.D5 r => 53%N :: uint_chars r
  | Decimal.D6 r => 54%N :: uint_chars r
  | Decimal.D7 r => 55%N :: uint_chars r
  | Decimal.D8 r => 56%N :: uint_chars r
  | Decimal.D9 r => 57%N :: uint_chars r
  end.

(* str(z) without CPython's digit-count limit (see [py_str_int]) *)
Definition str_of_Z (z : Z) : str :=
  match Z.to_int z with
  | Decimal.Pos u => uint_chars u
  | Decimal.Neg u => 45%N :: uint_chars u
  end.

(* number of decimal digit characters *)
Definition ndigits (s : str) : Z := Z.of_nat (List.length (filter is_digit s)).

(* sys.get_int_max_str_digits() -- CPython's default; the harness asserts it *)
Definition int_max_str_digits : Z := 4300.

(* str(z): ValueError when the decimal expansion has more than 4300 digits *)
Definition py_str_int (z : Z) : res str :=
  let t := str_of_Z z in
  if int_max_str_digits <? ndigits t then ValueErr else Ok t.

(* format(z, '0w') for z >= 0:  left-padded with zeros to width w *)
Definition zpad (w : nat) (z : Z) : str :=
  let t := str_of_Z z in repeat 48%N (w - List.length t) ++ t.

(* ---------------------------------------------------------------- int(str), ASCII strings *)
(* Py_ISSPACE: HT LF VT FF CR SP.  (For non-ASCII strings CPython first maps every Unicode
   space to SP and every Unicode decimal digit to its ASCII digit; the model declines those.) *)
Definition is_space (c : N) : bool := ((9 <=? c)%N && (c <=? 13)%N) || (c =? 32)%N.

Fixpoint lstrip_sp (s : str) : str :=
  match s with
  | c :: r => if is_space c then lstrip_sp r else s
  | [] => []
  end.
Definition strip_sp (s : str) : str := rev (lstrip_sp (rev (lstrip_sp s))).

Definition dval (c : N) : Z := Z.of_N (c - 48).

(* value of a digit string, most significant first *)
Fixpoint digs_val (s : str) (acc : Z) : Z :=
  match s with
  | [] => acc
  | c :: r => digs_val r (10 * acc + dval c)
  end.

(* digits with single underscores strictly between digits; [prev]: the previous character was
   a digit.  Returns the value and the number of digits. *)
Fixpoint int_body (s : str) (acc : Z) (prev : bool) (nd : Z) : option (Z * Z) :=
  match s with
  | [] => if prev then Some (acc, nd) else None
  | c :: r =>
      if is_digit c then int_body r (10 * acc + dval c) true (nd + 1)
      else if (c =? 95)%N && prev then int_body r acc false nd
      else None
  end.

Definition py_int (s : str) : res Z :=
  if negb (all_ascii s) then Unsup
  else
    let t := strip_sp s in
    let '(neg, body) := match t with
                        | c :: r => if (c =? 45)%N then (true, r)
                                    else if (c =? 43)%N then (false, r) else (false, t)
                        | [] => (false, t)
                        end in
    match int_body body 0 false 0 with
    | Some (v, nd) => if int_max_str_digits <? nd then ValueErr
                      else Ok (if neg then - v else v)
    | None => ValueErr
    end.

(* maximal prefix of ASCII digits *)
Fixpoint span_digits (s : str) : str * str :=
  match s with
  | c :: r => if is_digit c then let '(d, t) := span_digits r in (c :: d, t) else ([], s)
  | [] => ([], [])
  end.

(* ---------------------------------------------------------------- calendar *)
Definition is_leap (y : Z) : bool := (y mod 4 =? 0) && (negb (y mod 100 =? 0) || (y mod 400 =? 0)).

Definition days_in_month (y m : Z) : Z :=
  if (m =? 2) then (if is_leap y then 29 else 28)
  else if (m =? 4) || (m =? 6) || (m =? 9) || (m =? 11) then 30
  else if (1 <=? m) && (m <=? 12) then 31 else 0.

(* datetime.date(y, m, d) does not raise *)
Definition valid_date (y m d : Z) : bool :=
  (1 <=? y) && (y <=? 9999) && (1 <=? m) && (m <=? 12) && (1 <=? d) && (d <=? days_in_month y m).

(* datetime.time(h, m, s) does not raise *)
Definition valid_time (h m s : Z) : bool :=
  (0 <=? h) && (h <=? 23) && (0 <=? m) && (m <=? 59) && (0 <=? s) && (s <=? 59).

(* date.toordinal(): days since 0000-12-31 *)
Definition days_before_month (y m : Z) : Z :=
  let fix go (k : nat) (i : Z) (acc : Z) : Z :=
      match k with
      | O => acc
      | S k' => if i <? m then go k' (i + 1) (acc + days_in_month y i) else acc
      end in go 12%nat 1 0.
Definition ordinal (y m d : Z) : Z :=
  let y1 := y - 1 in 365 * y1 + y1 / 4 - y1 / 100 + y1 / 400 + days_before_month y m + d.
Definition max_ordinal : Z := 3652059.   (* date(9999,12,31).toordinal() *)

(* ---------------------------------------------------------------- timedelta, whole seconds *)
Definition td_max : Z := 999999999 * 86400 + 86399.
Definition td_min : Z := - (999999999 * 86400).
Definition td_ok (s : Z) : bool := (td_min <=? s) && (s <=? td_max).

(* two- and four-digit numerals as the RFC writes them *)
Definition num2 (a b : N) : Z := 10 * dval a + dval b.
Definition num4 (a b c d : N) : Z := 1000 * dval a + 100 * dval b + 10 * dval c + dval d.

Definition s_overflow : str := s2l "OverflowError".
Definition s_index : str := s2l "IndexError".
