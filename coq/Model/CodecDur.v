(* vDuration (DURATION_REGEX modelled as a parser), vUTCOffset, vDDDTypes.from_ical, vPeriod, with
   timedelta as a whole number of seconds, and the RFC 5545 recognisers for DURATION,
   UTC-OFFSET and PERIOD.  Definitions only. *)
Require Import Lib.Base Model.Params Model.CodecBase Model.CodecDate.
Local Open Scope Z_scope.

(* ---------------------------------------------------------------- vDuration.to_ical *)
Definition seg (n : Z) (c : N) : str := str_of_Z n ++ [c].

Definition dur_timepart (secs : Z) : str :=
  if secs =? 0 then []
  else
    let h := secs / 3600 in
    let mi := secs mod 3600 / 60 in
    let se := secs mod 60 in
    84%N :: (if h =? 0 then [] else seg h 72)
        ++ (if negb (mi =? 0) || (negb (h =? 0) && negb (se =? 0)) then seg mi 77 else [])
        ++ (if se =? 0 then [] else seg se 83).

(* td.days = floor(s / 86400), td.seconds = s mod 86400; -td is exact on the range used *)
Definition enc_dur (s : Z) : res str :=
  if negb (td_ok s) then Unsup
  else
    let neg := s / 86400 <? 0 in
    let a := if neg then - s else s in
    let days := a / 86400 in
    let tp := dur_timepart (a mod 86400) in
    Ok ((if neg then [45%N] else [])
          ++ 80%N :: (if (days =? 0) && negb (match tp with [] => true | _ => false end)
                      then tp else str_of_Z (Z.abs days) ++ 68%N :: tp)).

(* ---------------------------------------------------------------- DURATION_REGEX as a parser *)
(* ([-+]?)P(?:(\d+)W)?(?:(\d+)D)?(?:T(?:(\d+)H)?(?:(\d+)M)?(?:(\d+)S)?)?$   with re.match.
   (?:(\d+)c)? : the digit run of any successful match is maximal (a shorter run would have to be
   followed by the designator, but is followed by a digit), and skipping a group that could match
   never helps (the skipped digits start nothing else), so the greedy reading is the only one. *)
Definition opt_group (c : N) (s : str) : option str * str :=
  let '(ds, r) := span_digits s in
  match ds, r with
  | _ :: _, x :: r' => if (x =? c)%N then (Some ds, r') else (None, s)
  | _, _ => (None, s)
  end.

(* "$": at the end, or just before a final LF *)
Definition at_end (s : str) : bool :=
  match s with [] => true | [c] => (c =? 10)%N | _ => false end.

Record dur_groups := { g_sign : str; g_w : option str; g_d : option str;
                       g_h : option str; g_m : option str; g_s : option str }.

Definition dur_match (t : str) : option dur_groups :=
  let '(sign, r0) := match t with
                     | c :: r => if (c =? 45)%N || (c =? 43)%N then ([c], r) else ([], t)
                     | [] => ([], t)
                     end in
  match r0 with
  | p :: r1 =>
      if (p =? 80)%N then
        let '(w, r2) := opt_group 87 r1 in
        let '(d, r3) := opt_group 68 r2 in
        match r3 with
        | ct :: r4 =>
            if (ct =? 84)%N then
              let '(h, r5) := opt_group 72 r4 in
              let '(m, r6) := opt_group 77 r5 in
              let '(s, r7) := opt_group 83 r6 in
              if at_end r7 then Some {| g_sign := sign; g_w := w; g_d := d; g_h := h; g_m := m; g_s := s |}
              else None
            else if at_end r3 then Some {| g_sign := sign; g_w := w; g_d := d; g_h := None; g_m := None; g_s := None |}
            else None
        | [] => Some {| g_sign := sign; g_w := w; g_d := d; g_h := None; g_m := None; g_s := None |}
        end
      else None
  | [] => None
  end.

(* int(group or 0) *)
Definition group_int (g : option str) : res Z :=
  match g with None => Ok 0 | Some ds => py_int ds end.

(* timedelta(weeks=, days=, hours=, minutes=, seconds=) of non-negative ints: OverflowError when
   the day count exceeds 999999999; unary minus likewise *)
Definition dec_dur (t : str) : res Z :=
  if negb (all_ascii t) then Unsup else
  match dur_match t with
  | None => ValueErr
  | Some g =>
      bind (group_int (g_w g)) (fun w =>
      bind (group_int (g_d g)) (fun d =>
      bind (group_int (g_h g)) (fun h =>
      bind (group_int (g_m g)) (fun m =>
      bind (group_int (g_s g)) (fun s =>
      let v := 604800 * w + 86400 * d + 3600 * h + 60 * m + s in
      if td_max <? v then Escape s_overflow
      else if str_eqb (g_sign g) [45%N] then
             (if - v <? td_min then Escape s_overflow else Ok (- v))
           else Ok v)))))
  end.

(* ---------------------------------------------------------------- RFC 5545 3.3.6 *)
(* 1*DIGIT c *)
Definition p_num (c : N) (s : str) : option (Z * str) :=
  match opt_group c s with
  | (Some ds, r) => Some (digs_val ds 0, r)
  | (None, _) => None
  end.

(* dur-second = 1*DIGIT "S" *)
Definition p_second (s : str) : option (Z * str) := p_num 83 s.
(* dur-minute = 1*DIGIT "M" [dur-second] *)
Definition p_minute (s : str) : option (Z * str) :=
  match p_num 77 s with
  | Some (n, r) => match p_second r with
                   | Some (k, r') => Some (60 * n + k, r')
                   | None => Some (60 * n, r)
                   end
  | None => None
  end.
(* dur-hour = 1*DIGIT "H" [dur-minute] *)
Definition p_hour (s : str) : option (Z * str) :=
  match p_num 72 s with
  | Some (n, r) => match p_minute r with
                   | Some (k, r') => Some (3600 * n + k, r')
                   | None => Some (3600 * n, r)
                   end
  | None => None
  end.
(* dur-time = "T" (dur-hour / dur-minute / dur-second) *)
Definition p_time (s : str) : option (Z * str) :=
  match s with
  | c :: r =>
      if (c =? 84)%N then
        match p_hour r with
        | Some x => Some x
        | None => match p_minute r with
                  | Some x => Some x
                  | None => p_second r
                  end
        end
      else None
  | [] => None
  end.
(* dur-date = dur-day [dur-time] ; dur-day = 1*DIGIT "D" *)
Definition p_date (s : str) : option (Z * str) :=
  match p_num 68 s with
  | Some (n, r) => match p_time r with
                   | Some (k, r') => Some (86400 * n + k, r')
                   | None => Some (86400 * n, r)
                   end
  | None => None
  end.
(* dur-week = 1*DIGIT "W" *)
Definition p_week (s : str) : option (Z * str) :=
  match p_num 87 s with Some (n, r) => Some (604800 * n, r) | None => None end.

(* dur-value = (["+"] / "-") "P" (dur-date / dur-time / dur-week) ; the whole text *)
Definition dur_value (t : str) : option Z :=
  let '(neg, r0) := match t with
                    | c :: r => if (c =? 45)%N then (true, r) else if (c =? 43)%N then (false, r) else (false, t)
                    | [] => (false, t)
                    end in
  match r0 with
  | p :: r1 =>
      if (p =? 80)%N then
        let body := match p_date r1 with
                    | Some x => Some x
                    | None => match p_time r1 with
                              | Some x => Some x
                              | None => p_week r1
                              end
                    end in
        match body with
        | Some (v, []) => Some (if neg then - v else v)
        | _ => None
        end
      else None
  | [] => None
  end.
Definition dur_grammar (t : str) : bool := match dur_value t with Some _ => true | None => false end.
Definition dur_grammar_ci (t : str) : bool := dur_grammar (upper t).

(* ---------------------------------------------------------------- vUTCOffset *)
Definition enc_offset (s : Z) : res str :=
  if negb (td_ok s) then Unsup
  else
    let neg := s <? 0 in
    let a := if neg then 0 - s else s in
    let days := a / 86400 in
    let seconds := a mod 86400 in
    let hours := Z.abs (days * 24 + seconds / 3600) in
    let minutes := Z.abs (seconds mod 3600 / 60) in
    let secs := Z.abs (seconds mod 60) in
    Ok ((if neg then 45%N else 43%N)
          :: zpad 2 hours ++ zpad 2 minutes ++ (if secs =? 0 then [] else zpad 2 secs)).

(* sign = ical[0:1] (only compared with '-'), int(ical[1:3]), int(ical[3:5]), int(ical[5:7] or 0);
   offsets of 24 h and more are refused (ignore_exceptions is False) *)
Definition dec_offset (t : str) : res Z :=
  if negb (all_ascii t) then Unsup else
  bind (py_int (slice 1 3 t)) (fun h =>
  bind (py_int (slice 3 5 t)) (fun m =>
  bind (match slice 5 7 t with [] => Ok 0 | x => py_int x end) (fun s =>
  let off := 3600 * h + 60 * m + s in
  if 86400 <=? off then ValueErr
  else if str_eqb (slice 0 1 t) [45%N] then Ok (- off) else Ok off))).

(* utc-offset = ("+" / "-") time-hour time-minute [time-second] ; seconds not 60 ;
   "-0000" and "-000000" are not allowed *)
Definition offset_value (t : str) : option Z :=
  let mk (sg : N) a b c d (ss : option (N * N)) :=
    if ((sg =? 43)%N || (sg =? 45)%N) && forallb is_digit [a; b; c; d]
       && match ss with Some (e, f) => is_digit e && is_digit f | None => true end then
      let h := num2 a b in let m := num2 c d in
      let s := match ss with Some (e, f) => num2 e f | None => 0 end in
      if (h <=? 23) && (m <=? 59) && (s <=? 59) then
        let v := 3600 * h + 60 * m + s in
        if (sg =? 45)%N then (if v =? 0 then None else Some (- v)) else Some v
      else None
    else None in
  match t with
  | [sg; a; b; c; d] => mk sg a b c d None
  | [sg; a; b; c; d; e; f] => mk sg a b c d (Some (e, f))
  | _ => None
  end.
Definition offset_grammar (t : str) : bool := match offset_value t with Some _ => true | None => false end.

(* ---------------------------------------------------------------- vDDDTypes.from_ical *)
Inductive ddd : Type :=
| DDate (y m d : Z)
| DDatetime (v : dt)
| DTime (h m s : Z) (utc : bool)
| DDur (s : Z)
| DPeriod (a b : ddd).

Definition starts_P (u : str) : bool :=
  is_prefix [80%N] u || is_prefix [45%N; 80%N] u || is_prefix [43%N; 80%N] u.

(* everything but the period branch *)
Definition ddd_simple (t : str) : res ddd :=
  if negb (all_ascii t) then Unsup else
  if starts_P (upper t) then bind (dec_dur t) (fun s => Ok (DDur s))
  else
    let n := List.length t in
    if (n =? 15)%nat || (n =? 16)%nat then bind (dec_datetime t) (fun v => Ok (DDatetime v))
    else if (n =? 8)%nat then bind (dec_date t) (fun v => let '(y, m, d) := v in Ok (DDate y m d))
    else if (n =? 6)%nat || (n =? 7)%nat then
      bind (dec_time t) (fun v => let '(h, m, s, u) := v in Ok (DTime h m s u))
    else ValueErr.

(* str.split('/') *)
Fixpoint split_slash (s : str) (cur : str) : list str :=
  match s with
  | [] => [rev cur]
  | c :: r => if (c =? 47)%N then rev cur :: split_slash r [] else split_slash r (c :: cur)
  end.

(* vPeriod.from_ical: exactly two parts, each through vDDDTypes.from_ical (neither contains '/');
   every exception, OverflowError included, becomes ValueError *)
Definition to_value_err {A} (r : res A) : res A :=
  match r with Escape _ => ValueErr | x => x end.

Definition dec_period (t : str) : res ddd :=
  if negb (all_ascii t) then Unsup else
  match split_slash t [] with
  | [a; b] => to_value_err (bind (ddd_simple a) (fun x => bind (ddd_simple b) (fun y => Ok (DPeriod x y))))
  | _ => ValueErr
  end.

Definition ddd_from_ical (t : str) : res ddd :=
  if negb (all_ascii t) then Unsup else
  if starts_P (upper t) then bind (dec_dur t) (fun s => Ok (DDur s))
  else if mem_chr 47 t then dec_period t
  else ddd_simple t.

(* ---------------------------------------------------------------- vPeriod(...).to_ical *)
(* seconds since 0001-01-01T00:00:00 of a (valid) datetime *)
Definition dt_secs (v : dt) : Z :=
  let '(y, m, d, h, mi, s, _) := v in (ordinal y m d - 1) * 86400 + 3600 * h + 60 * mi + s.
Definition dt_utc (v : dt) : bool := let '(_, _, _, _, _, _, u) := v in u.
Definition dt_valid (v : dt) : bool :=
  let '(y, m, d, h, mi, s, _) := v in valid_date y m d && valid_time h mi s.

(* vPeriod((start, end)) then to_ical; start, end datetimes both naive or both UTC (a mixed pair
   raises TypeError in the constructor's comparison: declined here); start > end -> ValueError *)
Definition enc_period_explicit (a b : dt) : res str :=
  if negb (dt_valid a && dt_valid b && Bool.eqb (dt_utc a) (dt_utc b)) then Unsup
  else if dt_secs b <? dt_secs a then ValueErr
  else bind (enc_datetime a) (fun x => bind (enc_datetime b) (fun y => Ok (x ++ 47%N :: y))).

(* vPeriod((start, duration)): end = start + duration must be a representable datetime
   (OverflowError otherwise) and not before start *)
Definition enc_period_dur (a : dt) (s : Z) : res str :=
  if negb (dt_valid a && td_ok s) then Unsup
  else
    let e := dt_secs a + s in
    if (e <? 0) || (max_ordinal * 86400 <=? e) then Escape s_overflow
    else if s <? 0 then ValueErr
    else bind (enc_datetime a) (fun x => bind (enc_dur s) (fun y => Ok (x ++ 47%N :: y))).

(* period = period-explicit / period-start ; date-time "/" (date-time / dur-value) *)
Definition period_value (t : str) : option ddd :=
  match split_slash t [] with
  | [a; b] =>
      match datetime_value a with
      | Some x =>
          match datetime_value b with
          | Some y => Some (DPeriod (DDatetime x) (DDatetime y))
          | None => match dur_value b with
                    | Some s => Some (DPeriod (DDatetime x) (DDur s))
                    | None => None
                    end
          end
      | None => None
      end
  | _ => None
  end.
Definition period_grammar (t : str) : bool := match period_value t with Some _ => true | None => false end.
Definition period_grammar_ci (t : str) : bool := period_grammar (upper t).

(* ---------------------------------------------------------------- the five grammars together *)
(* what RFC 5545 says about a text offered to vDDDTypes.from_ical (the value of a DTSTART, DUE, TRIGGER,
   RDATE, FREEBUSY ... property): every reading of it as DATE, DATE-TIME, TIME, DURATION or PERIOD.
   The five grammars are pairwise disjoint (Proofs.CodecGrammarProofs.ddd_readings_unique), so
   [ddd_value t = Some v] says "t is in exactly one of the five grammars and that one assigns it v". *)
Definition ddd_readings (t : str) : list ddd :=
  (match date_value t with Some (y, m, d) => [DDate y m d] | None => [] end)
  ++ (match datetime_value t with Some v => [DDatetime v] | None => [] end)
  ++ (match time_value t with Some (h, m, s, u) => [DTime h m s u] | None => [] end)
  ++ (match dur_value t with Some s => [DDur s] | None => [] end)
  ++ (match period_value t with Some p => [p] | None => [] end).
Definition ddd_value (t : str) : option ddd :=
  match ddd_readings t with [v] => Some v | _ => None end.
(* the same with RFC 5234's case-insensitive literals (T, Z, P, W, D, H, M, S also in lower case) *)
Definition ddd_grammar_ci (t : str) : bool := match ddd_value (upper t) with Some _ => true | None => false end.

(* the values that the decoders get right: no second 60 (C03-F1), no UTC TIME (C03-F2), durations
   inside timedelta's range (C03-F4) *)
Definition dt_no_leap (v : dt) : bool := let '(_, _, _, _, _, s, _) := v in negb (s =? 60).
Fixpoint ddd_guard (v : ddd) : bool :=
  match v with
  | DDate _ _ _ => true
  | DDatetime x => dt_no_leap x
  | DTime _ _ s u => negb (s =? 60) && negb u
  | DDur s => td_ok s
  | DPeriod a b => ddd_guard a && ddd_guard b
  end.

(* what the decoders return for a grammar-valid text denoting v, inside the guard or not (texts of at
   most 4300 characters: CPython's int() digit limit) *)
Fixpoint ddd_expected (v : ddd) : res ddd :=
  match v with
  | DDate _ _ _ => Ok v
  | DDatetime x => if dt_no_leap x then Ok v else ValueErr
  | DTime h m s u => if s =? 60 then ValueErr else Ok (DTime h m s false)
  | DDur s => if (td_max <? Z.abs s) || (s <? td_min) then Escape s_overflow else Ok v
  | DPeriod a b => to_value_err (bind (ddd_expected a) (fun x => bind (ddd_expected b) (fun y => Ok (DPeriod x y))))
  end.
