(* C12 -- interpretation of a VTIMEZONE.
   Specification: RFC 5545 onset rule [rfc_offset].
   Code models: Timezone._extract_offsets / _make_unique_tzname / get_transitions (cal.py) and
   pytz's DstTzInfo.fromutc (bisect_right - 1 over the UTC transition list).
   Times are Z seconds (local wall clock seconds for onsets, UTC seconds for instants);
   RRULE/RDATE expansion is supplied as data (the list of local onsets of each observance).
   Definitions only. *)
Require Import Lib.Base Model.Params.
From Coq Require Import Arith.
Open Scope Z_scope.

(* one STANDARD / DAYLIGHT sub-component, in the order Component.walk() yields them *)
Record obs : Type := mkObs {
  o_dst : bool;                 (* DAYLIGHT *)
  o_onsets : list Z;            (* local onsets: DTSTART and the expanded RRULE / RDATE (supplied) *)
  o_from : Z;                   (* TZOFFSETFROM, seconds *)
  o_to : Z;                     (* TZOFFSETTO, seconds *)
  o_name : option (list N);     (* TZNAME if present *)
  o_synth : list N              (* the name get_transitions synthesises when TZNAME is absent (supplied text) *)
}.
Definition vtz := list obs.

(* ------------------------------------------------------------------ specification *)
(* an onset of the definition: UTC onset, TZOFFSETTO, name, DAYLIGHT flag *)
Record onset : Type := mkOnset { n_utc : Z; n_to : Z; n_name : option (list N); n_dst : bool }.

Definition spec_onsets (v : vtz) : list onset :=
  flat_map (fun o => map (fun l => mkOnset (l - o_from o) (o_to o) (o_name o) (o_dst o)) (o_onsets o)) v.

(* the onset with the greatest UTC time <= t (the first such in list order when several are equal) *)
Fixpoint latest (t : Z) (best : option onset) (l : list onset) : option onset :=
  match l with
  | [] => best
  | e :: r =>
      let best' :=
        if n_utc e <=? t then
          match best with
          | None => Some e
          | Some b => if n_utc b <? n_utc e then Some e else best
          end
        else best in
      latest t best' r
  end.

Definition rfc_onset (v : vtz) (t : Z) : option onset := latest t None (spec_onsets v).

(* (utc offset, TZNAME, is DAYLIGHT) in force at instant t; None before the first onset *)
Definition rfc_offset (v : vtz) (t : Z) : option (Z * option (list N) * bool) :=
  match rfc_onset v t with Some e => Some (n_to e, n_name e, n_dst e) | None => None end.

Definition first_onset (v : vtz) : option Z :=
  match map n_utc (spec_onsets v) with
  | [] => None
  | x :: r => Some (fold_left Z.min r x)
  end.

(* ------------------------------------------------------------------ code: names *)
Fixpoint mem_str (s : list N) (l : list (list N)) : bool :=
  match l with [] => false | x :: r => str_eqb s x || mem_str s r end.

(* _make_unique_tzname: while tzname in tznames: tzname += '_1'   (fuel: one more than |tznames|) *)
Fixpoint uniq_name (fuel : nat) (n : list N) (used : list (list N)) : option (list N) :=
  if negb (mem_str n used) then Some n
  else match fuel with
       | O => None
       | S f => uniq_name f (n ++ [95; 49]%N) used
       end.

(* names as get_transitions assigns them: TZNAME as it is (NOT made unique, NOT recorded);
   a synthesised name is made unique against the synthesised names so far and recorded *)
Fixpoint assign_names (v : vtz) (used : list (list N)) : option (list (obs * list N)) :=
  match v with
  | [] => Some []
  | o :: r =>
      match o_name o with
      | Some n => option_map (cons (o, n)) (assign_names r used)
      | None =>
          match uniq_name (S (length used)) (o_synth o) used with
          | None => None
          | Some n => option_map (cons (o, n)) (assign_names r (n :: used))
          end
      end
  end.

(* dst[tzname]: a dict keyed by the name -- the LAST observance with that name decides *)
Fixpoint dst_of (named : list (obs * list N)) (n : list N) (acc : bool) : bool :=
  match named with
  | [] => acc
  | (o, m) :: r => dst_of r n (if str_eqb m n then o_dst o else acc)
  end.

(* ------------------------------------------------------------------ code: _extract_offsets *)
(* int((td.seconds + 30) / 60) * 60 with td.days kept *)
Definition round_min (z : Z) : Z := (z / 86400) * 86400 + ((z mod 86400 + 30) / 60) * 60.

Record tr : Type := mkTr { t_local : Z; t_from : Z; t_to : Z; t_name : list N }.
Definition t_utc (e : tr) : Z := t_local e - t_from e.

Definition obs_trs (on : obs * list N) : list tr :=
  let '(o, n) := on in
  map (fun l => mkTr l (round_min (o_from o)) (round_min (o_to o)) n) (nodup Z.eq_dec (o_onsets o)).

Definition all_trs (named : list (obs * list N)) : list tr := flat_map obs_trs named.

(* ------------------------------------------------------------------ code: transitions.sort() *)
Fixpoint str_ltb (a b : list N) : bool :=
  match a, b with
  | _, [] => false
  | [], _ :: _ => true
  | x :: a', y :: b' => if (x <? y)%N then true else if (y <? x)%N then false else str_ltb a' b'
  end.

(* tuple comparison (transtime, offsetfrom, offsetto, tzname), a <= b *)
Definition tr_leb (a b : tr) : bool :=
  if t_local a <? t_local b then true else if t_local b <? t_local a then false
  else if t_from a <? t_from b then true else if t_from b <? t_from a then false
  else if t_to a <? t_to b then true else if t_to b <? t_to a then false
  else negb (str_ltb (t_name b) (t_name a)).

Fixpoint tr_insert (x : tr) (l : list tr) : list tr :=
  match l with
  | [] => [x]
  | y :: r => if tr_leb x y then x :: l else y :: tr_insert x r
  end.
Definition tr_sort (l : list tr) : list tr := fold_right tr_insert [] l.

(* ------------------------------------------------------------------ code: transition_info *)
Definition is_dst (named : list (obs * list N)) (e : tr) : bool := dst_of named (t_name e) false.

Definition find_std (named : list (obs * list N)) (l : list tr) : option tr :=
  find (fun e => negb (is_dst named e)) l.

(* [prev] = the transitions before this one, nearest first; [here] = this one and the later ones *)
Definition dst_offset (named : list (obs * list N)) (prev here : list tr) (e : tr) : res Z :=
  if negb (is_dst named e) then Ok 0
  else
    let fwd := option_map (fun s => t_to e - t_to s) (find_std named here) in
    match option_map (fun s => t_to e - t_to s) (find_std named prev) with
    | Some d =>                                  (* found going back in time *)
        if d =? 0 then                           (* `if not dst_offset`: timedelta(0) is falsy *)
          match fwd with Some d' => Ok d' | None => Ok d end
        else Ok d
    | None =>
        match fwd with Some d' => Ok d' | None => Escape (s2l "AssertionError") end
    end.

Fixpoint infos (named : list (obs * list N)) (prev rest : list tr) : res (list (Z * Z * list N)) :=
  match rest with
  | [] => Ok []
  | e :: r =>
      bind (dst_offset named prev rest e) (fun d =>
      bind (infos named (e :: prev) r) (fun tl => Ok ((t_to e, d, t_name e) :: tl)))
  end.

(* get_transitions: (transition_times, transition_info) *)
Definition get_transitions (v : vtz) : res (list Z * list (Z * Z * list N)) :=
  match assign_names v [] with
  | None => Unsup
  | Some named =>
      let ts := tr_sort (all_trs named) in
      bind (infos named [] ts) (fun inf => Ok (map t_utc ts, inf))
  end.

(* ------------------------------------------------------------------ pytz: DstTzInfo.fromutc *)
(* bisect.bisect_right(a, t): the binary search itself, so that unsorted lists behave as in CPython *)
Fixpoint bisect_aux (fuel : nat) (a : list Z) (t : Z) (lo hi : nat) : nat :=
  match fuel with
  | O => lo
  | S f =>
      if (lo <? hi)%nat then
        let mid := ((lo + hi) / 2)%nat in
        if t <? nth mid a 0 then bisect_aux f a t lo mid else bisect_aux f a t (S mid) hi
      else lo
  end.
Definition bisect_right (a : list Z) (t : Z) : nat := bisect_aux (S (length a)) a t 0 (length a).

(* idx = max(0, bisect_right(utc_transition_times, t) - 1);  (utcoffset, dst, tzname) = info[idx];
   an empty transition list makes DstTzInfo.__init__ raise IndexError *)
Definition pytz_fromutc (times : list Z) (inf : list (Z * Z * list N)) (t : Z) : res (Z * Z * list N) :=
  match nth_error inf (Nat.pred (bisect_right times t)) with
  | Some i => Ok i
  | None => match inf with [] => Escape (s2l "IndexError") | _ => Unsup end
  end.

(* PYTZ.create_timezone: the DstTzInfo subclass is instantiated at once *)
Definition pytz_create (v : vtz) : res (list Z * list (Z * Z * list N)) :=
  bind (get_transitions v) (fun ti =>
    match snd ti with [] => Escape (s2l "IndexError") | _ => Ok ti end).

Definition pytz_path (v : vtz) (t : Z) : res (Z * Z * list N) :=
  bind (get_transitions v) (fun ti => pytz_fromutc (fst ti) (snd ti) t).

(* ------------------------------------------------------------------ guards *)
(* all offsets are whole minutes (the code rounds to minutes) *)
Definition whole_minutes (v : vtz) : bool :=
  forallb (fun o => (o_from o mod 60 =? 0) && (o_to o mod 60 =? 0)) v.

Fixpoint distinctb (l : list Z) : bool :=
  match l with
  | [] => true
  | x :: r => negb (existsb (Z.eqb x) r) && distinctb r
  end.

(* the onsets (one per observance and local time) have pairwise distinct UTC times and their
   local-time order is their UTC order *)
Definition onset_pairs (v : vtz) : list (Z * Z) :=
  flat_map (fun o => map (fun l => (l, l - o_from o)) (nodup Z.eq_dec (o_onsets o))) v.

Definition order_ok (v : vtz) : bool :=
  let ps := onset_pairs v in
  distinctb (map snd ps) &&
  forallb (fun a => forallb (fun b => Bool.eqb (fst a <? fst b) (snd a <? snd b)) ps) ps.

(* no DAYLIGHT observance carries the TZNAME of a STANDARD one: dst[] is keyed by name *)
Definition names_ok (v : vtz) : bool :=
  match assign_names v [] with
  | None => false
  | Some named => forallb (fun on : obs * list N => Bool.eqb (dst_of named (snd on) false) (o_dst (fst on))) named
  end.

(* at least one onset belongs to a STANDARD observance (else the DST-delta search asserts) *)
Definition has_std (v : vtz) : bool :=
  existsb (fun o => negb (o_dst o) && negb (match o_onsets o with [] => true | _ => false end)) v.

Definition pytz_guard (v : vtz) : bool := whole_minutes v && order_ok v && names_ok v && has_std v.
