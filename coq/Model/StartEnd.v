(* Model of the start / end / duration machinery of cal.py (C16, used by C14 and C15):
   create_single_property (getter, setter with the [exclusive] tuple, deleter), _get_duration,
   _set_duration, _del_duration, Component.add on the three entries, Event/Todo
   _get_start_end_duration, start, end, duration, and Journal.  Definitions only.

   Times.  [Date d]: a datetime.date, d = days since the epoch.  [Naive s], [Utc s],
   [Zoned k s]: datetime.datetime without tzinfo / with a UTC tzinfo / with a zone; s = WALL
   clock seconds since the epoch (whole seconds; Date d and Naive (d*86400) are the same
   midnight).  A zone key is the zone's identity plus, for pytz, the fixed offset of the
   tzinfo instance the datetime carries ([zfix = Some o]; pytz zones hand out one tzinfo
   object per offset period, and arithmetic keeps the stale object until normalize()); for
   zoneinfo [zfix = None] and the offset is a function of the wall time (fold = 0).
   The zone rules are an oracle: [off_wall z s] = UTC offset of zone z at wall time s,
   [off_utc z u] = UTC offset of zone z at the UTC instant u.  Theorems quantify over it.
   timedelta = Z seconds (whole seconds; td.seconds = td mod 86400, td.days = td / 86400). *)
Require Import Lib.Base Model.Params Gen.Gen_sched.
From Coq Require Import String.
Local Open Scope Z_scope.

Record zkey := { zid : Z; zfix : option Z }.

Inductive time :=
| Date (d : Z)
| Naive (s : Z)
| Utc (s : Z)
| Zoned (k : zkey) (s : Z).

Record zoracle := { off_wall : Z -> Z -> Z; off_utc : Z -> Z -> Z }.

(* results: a value, a ValueError subclass (tagged), or another exception class *)
Inductive vtag := InvalidCal | IncompleteComp | StartMissing | EndMissing | LocalTzMissing.
Inductive ekind := TypeErr | AttributeErr.
Inductive sres (A : Type) : Type :=
| SOk (a : A)
| SVal (t : vtag)      (* InvalidCalendar, IncompleteComponent, Component{Start,End}Missing, LocalTimezoneMissing *)
| SEsc (k : ekind).    (* TypeError, AttributeError *)
Arguments SOk {A} a.
Arguments SVal {A} t.
Arguments SEsc {A} k.

Definition sbind {A B} (r : sres A) (f : A -> sres B) : sres B :=
  match r with SOk a => f a | SVal t => SVal t | SEsc k => SEsc k end.

Definition is_ok {A} (r : sres A) : bool := match r with SOk _ => true | _ => false end.

(* ------------------------------------------------------------------ Python date/time algebra *)
Definition day : Z := 86400.

Definition opt_eqb (a b : option Z) : bool :=
  match a, b with
  | None, None => true
  | Some x, Some y => x =? y
  | _, _ => false
  end.
Definition zkey_eqb (a b : zkey) : bool := (zid a =? zid b) && opt_eqb (zfix a) (zfix b).

Definition is_date (t : time) : bool := match t with Date _ => true | _ => false end.
Definition is_aware (t : time) : bool := match t with Utc _ | Zoned _ _ => true | _ => false end.

(* dt.utcoffset() of an aware datetime *)
Definition zoff (o : zoracle) (k : zkey) (s : Z) : Z :=
  match zfix k with Some f => f | None => off_wall o (zid k) s end.

(* seconds of the UTC instant of an aware datetime (wall seconds for the others) *)
Definition instant (o : zoracle) (t : time) : Z :=
  match t with
  | Date d => d * day
  | Naive s => s
  | Utc s => s
  | Zoned k s => s - zoff o k s
  end.

(* `a.tzinfo is b.tzinfo` for two aware datetimes: then Python compares / subtracts wall clocks *)
Definition same_tzinfo (a b : time) : bool :=
  match a, b with
  | Utc _, Utc _ => true
  | Zoned k1 _, Zoned k2 _ => zkey_eqb k1 k2
  | _, _ => false
  end.

Definition wall (t : time) : Z :=
  match t with Date d => d * day | Naive s => s | Utc s => s | Zoned _ s => s end.

(* a - b  (date - date, datetime - datetime; every other mix is a TypeError) *)
Definition tsub (o : zoracle) (a b : time) : sres Z :=
  match a, b with
  | Date d1, Date d2 => SOk ((d1 - d2) * day)
  | Date _, _ => SEsc TypeErr
  | _, Date _ => SEsc TypeErr
  | Naive s1, Naive s2 => SOk (s1 - s2)
  | Naive _, _ => SEsc TypeErr
  | _, Naive _ => SEsc TypeErr
  | _, _ => if same_tzinfo a b then SOk (wall a - wall b) else SOk (instant o a - instant o b)
  end.

(* t + td: a date ignores everything but td.days; a datetime moves its wall clock and keeps
   its tzinfo object *)
Definition tadd (t : time) (td : Z) : time :=
  match t with
  | Date d => Date (d + td / day)
  | Naive s => Naive (s + td)
  | Utc s => Utc (s + td)
  | Zoned k s => Zoned k (s + td)
  end.

(* tools.normalize_pytz: only datetimes that carry a pytz tzinfo change *)
Definition normalize (o : zoracle) (t : time) : time :=
  match t with
  | Zoned k s =>
      match zfix k with
      | Some f => let u := s - f in
                  let f' := off_utc o (zid k) u in
                  Zoned {| zid := zid k; zfix := Some f' |} (u + f')
      | None => t
      end
  | _ => t
  end.

(* tools.to_datetime *)
Definition to_datetime (t : time) : time := match t with Date d => Naive (d * day) | _ => t end.

(* ------------------------------------------------------------------ stored entries *)
(* the Python object behind `.dt` of a stored vDDDTypes / vDuration *)
Inductive pyval :=
| VTime (t : time)       (* date or datetime *)
| VDelta (td : Z)        (* timedelta *)
| VOther.                (* time of day, period tuple: accepted by vDDDTypes, neither date nor timedelta *)

(* what the component dict holds under one name: nothing, one property object, or a list
   (made by [add] on an existing name or by two lines in a parsed text) *)
Inductive entry := Absent | One (v : pyval) | Many.

Record comp := { c_start : entry; c_end : entry; c_dur : entry }.
(* c_end is DTEND for an Event and DUE for a Todo *)

Definition empty_comp : comp := {| c_start := Absent; c_end := Absent; c_dur := Absent |}.

Inductive ckind := KEvent | KTodo.

Definition n_DTSTART : str := s2l "DTSTART".
Definition n_DTEND : str := s2l "DTEND".
Definition n_DUE : str := s2l "DUE".
Definition n_DURATION : str := s2l "DURATION".
Definition end_name (k : ckind) : str := match k with KEvent => n_DTEND | KTodo => n_DUE end.
Definition exclusive_of (k : ckind) : list str :=
  match k with KEvent => Event_exclusive | KTodo => Todo_exclusive end.
Definition start_types (k : ckind) : list str :=
  match k with KEvent => Event_DTSTART_types | KTodo => Todo_DTSTART_types end.
Definition end_types (k : ckind) : list str :=
  match k with KEvent => Event_DTEND_types | KTodo => Todo_DUE_types end.

Definition has (name : string) (l : list str) : bool := existsb (str_eqb (s2l name)) l.

(* isinstance(value, value_type) for the generated class tuples *)
Definition accepts (types : list str) (v : pyval) : bool :=
  match v with
  | VTime (Date _) => has "date" types
  | VTime _ => has "date" types || has "datetime" types
  | VDelta _ => has "timedelta" types
  | VOther => false
  end.

(* dict access by (upper-cased) name on the three modelled keys; other names are not part of
   the state *)
Definition set_entry (k : ckind) (name : str) (e : entry) (c : comp) : comp :=
  if str_eqb name n_DTSTART then {| c_start := e; c_end := c_end c; c_dur := c_dur c |}
  else if str_eqb name (end_name k) then {| c_start := c_start c; c_end := e; c_dur := c_dur c |}
  else if str_eqb name n_DURATION then {| c_start := c_start c; c_end := c_end c; c_dur := e |}
  else c.
Definition get_entry (k : ckind) (name : str) (c : comp) : entry :=
  if str_eqb name n_DTSTART then c_start c
  else if str_eqb name (end_name k) then c_end c
  else if str_eqb name n_DURATION then c_dur c
  else Absent.
Definition pop (k : ckind) (name : str) (c : comp) : comp := set_entry k name Absent c.

(* ------------------------------------------------------------------ operations *)
Inductive arg := ANone | AVal (v : pyval).   (* what the caller assigns: None or an object *)
Inductive outcome := ODone | ORaised (e : ekind).

(* create_single_property.p_set *)
Definition p_set (k : ckind) (name : str) (types : list str) (a : arg) (c : comp) : comp * outcome :=
  match a with
  | ANone => (pop k name c, ODone)
  | AVal v =>
      if accepts types v then
        let c1 := set_entry k name (One v) c in
        let c2 := if existsb (str_eqb name) (exclusive_of k)
                  then fold_left (fun acc other => if str_eqb other name then acc else pop k other acc)
                                 (exclusive_of k) c1
                  else c1 in
        (c2, ODone)
      else (c, ORaised TypeErr)
  end.

(* _set_duration *)
Definition set_duration (k : ckind) (a : arg) (c : comp) : comp * outcome :=
  match a with
  | ANone => (pop k n_DURATION c, ODone)
  | AVal (VDelta td) => (pop k n_DUE (pop k n_DTEND (set_entry k n_DURATION (One (VDelta td)) c)), ODone)
  | AVal _ => (c, ORaised TypeErr)
  end.

(* Component.add(name, value) on one of the three names: vDDDTypes(value) accepts every pyval *)
Definition add_entry (k : ckind) (name : str) (v : pyval) (c : comp) : comp :=
  match get_entry k name c with
  | Absent => set_entry k name (One v) c
  | _ => set_entry k name Many c
  end.

Inductive op :=
| SetDTSTART (a : arg) | SetEND (a : arg) | SetDURATION (a : arg)   (* ev.DTSTART = a, ev.DTEND / todo.DUE = a, .DURATION = a *)
| SetStart (a : arg) | SetEnd (a : arg)                              (* .start = a, .end = a *)
| DelDTSTART | DelEND | DelDURATION                                  (* del ev.DTSTART ... *)
| AddDTSTART (v : pyval) | AddEND (v : pyval) | AddDURATION (v : pyval).

Definition is_add (o : op) : bool :=
  match o with AddDTSTART _ | AddEND _ | AddDURATION _ => true | _ => false end.

Definition no_add (ops : list op) : bool := forallb (fun o => negb (is_add o)) ops.

Definition step (k : ckind) (c : comp) (o : op) : comp * outcome :=
  match o with
  | SetDTSTART a | SetStart a => p_set k n_DTSTART (start_types k) a c
  | SetEND a | SetEnd a => p_set k (end_name k) (end_types k) a c
  | SetDURATION a => set_duration k a c
  | DelDTSTART => (pop k n_DTSTART c, ODone)
  | DelEND => (pop k (end_name k) c, ODone)
  | DelDURATION => (pop k n_DURATION c, ODone)
  | AddDTSTART v => (add_entry k n_DTSTART v c, ODone)
  | AddEND v => (add_entry k (end_name k) v c, ODone)
  | AddDURATION v => (add_entry k n_DURATION v c, ODone)
  end.

Definition run (k : ckind) (ops : list op) (c : comp) : comp :=
  fold_left (fun acc o => fst (step k acc o)) ops c.

(* the outcomes of the operations of a history, in order *)
Fixpoint run_log (k : ckind) (ops : list op) (c : comp) : list outcome :=
  match ops with
  | [] => []
  | o :: r => snd (step k c o) :: run_log k r (fst (step k c o))
  end.

(* ------------------------------------------------------------------ getters *)
(* create_single_property.p_get *)
Definition get_single (types : list str) (e : entry) : sres (option time) :=
  match e with
  | Absent => SOk None
  | Many => SVal InvalidCal
  | One v => if accepts types v
             then match v with VTime t => SOk (Some t) | _ => SVal InvalidCal end
             else SVal InvalidCal
  end.

(* _get_duration: `.dt` of whatever single object is stored (not necessarily a timedelta) *)
Definition get_duration (e : entry) : sres (option pyval) :=
  match e with
  | Absent => SOk None
  | Many => SVal InvalidCal
  | One v => SOk (Some v)
  end.

Definition is_some {A} (o : option A) : bool := match o with Some _ => true | None => false end.

(* Event/Todo._get_start_end_duration *)
Definition get_sed (k : ckind) (c : comp) : sres (option time * option time * option pyval) :=
  sbind (get_single (start_types k) (c_start c)) (fun start =>
  sbind (get_single (end_types k) (c_end c)) (fun end_ =>
  sbind (get_duration (c_dur c)) (fun dur =>
    if is_some dur && is_some end_ then SVal InvalidCal
    else
      let date_dur_check : sres unit :=
        match start, dur with
        | Some (Date _), Some (VDelta td) => if td mod day =? 0 then SOk tt else SVal InvalidCal
        | Some (Date _), Some _ => SEsc AttributeErr        (* duration.seconds on a non-timedelta *)
        | _, _ => SOk tt
        end in
      sbind date_dur_check (fun _ =>
        match start, end_ with
        | Some s, Some e => if Bool.eqb (is_date s) (is_date e) then SOk (start, end_, dur) else SVal InvalidCal
        | _, _ => SOk (start, end_, dur)
        end)))).

Definition get_start (k : ckind) (c : comp) : sres time :=
  sbind (get_sed k c) (fun x =>
    match fst (fst x) with Some s => SOk s | None => SVal IncompleteComp end).

(* start + duration where duration is whatever _get_duration returned *)
Definition add_dur (s : time) (d : pyval) : sres time :=
  match d with VDelta td => SOk (tadd s td) | _ => SEsc TypeErr end.

Definition get_end (k : ckind) (c : comp) : sres time :=
  sbind (get_sed k c) (fun x =>
    let '(start, end_, dur) := x in
    match end_, dur with
    | None, None =>
        match start with
        | None => SVal IncompleteComp
        | Some s => if is_date s then SOk (tadd s day) else SOk s
        end
    | _, Some d =>
        match start with
        | Some s => add_dur s d
        | None => SVal IncompleteComp
        end
    | Some e, None => SOk e
    end).

(* duration = self.end - self.start *)
Definition get_dur (o : zoracle) (k : ckind) (c : comp) : sres Z :=
  sbind (get_end k c) (fun e => sbind (get_start k c) (fun s => tsub o e s)).

(* the upper-case getters *)
Definition get_DTSTART (k : ckind) (c : comp) := get_single (start_types k) (c_start c).
Definition get_END (k : ckind) (c : comp) := get_single (end_types k) (c_end c).
Definition get_DURATION (c : comp) := get_duration (c_dur c).

(* Journal: start = DTSTART or IncompleteComponent; end = start; duration = timedelta(0) *)
Definition journal_start (e : entry) : sres time :=
  sbind (get_single Journal_DTSTART_types e) (fun s =>
    match s with Some t => SOk t | None => SVal IncompleteComp end).
Definition journal_end (e : entry) : sres time := journal_start e.
Definition journal_duration (e : entry) : sres Z := SOk 0.

(* ------------------------------------------------------------------ specification side (C16) *)
(* what the three entries say, when they are well typed *)
Definition st_time (e : entry) : option time := match e with One (VTime t) => Some t | _ => None end.
Definition st_delta (e : entry) : option Z := match e with One (VDelta td) => Some td | _ => None end.
Definition present (e : entry) : bool := match e with Absent => false | _ => true end.

(* an entry that is not a single value of the right type: list, or a non-date under
   DTSTART/DTEND/DUE, or a non-timedelta under DURATION *)
Definition malformed_time (e : entry) : bool :=
  match e with Absent => false | One (VTime _) => false | _ => true end.
Definition malformed_dur (e : entry) : bool :=
  match e with Absent => false | One (VDelta _) => false | _ => true end.

(* states RFC 5545 forbids (3.6.1 / 3.6.2 / 3.8.2.x): repeated or wrongly typed properties;
   both the end property and DURATION; DTSTART and end of different value types;
   a DATE start with a DURATION that is not a whole number of days *)
Definition forbidden (c : comp) : bool :=
  malformed_time (c_start c) || malformed_time (c_end c) || malformed_dur (c_dur c)
  || (present (c_end c) && present (c_dur c))
  || match st_time (c_start c), st_time (c_end c) with
     | Some s, Some e => negb (Bool.eqb (is_date s) (is_date e))
     | _, _ => false
     end
  || match st_time (c_start c), st_delta (c_dur c) with
     | Some (Date _), Some td => negb (td mod day =? 0)
     | _, _ => false
     end.

(* guard classes of the two findings *)
(* C16-F1: start and end are both date-times, one floating and one with a zone *)
Definition tz_mix (a b : time) : bool :=
  negb (is_date a) && negb (is_date b) && negb (Bool.eqb (is_aware a) (is_aware b)).
Definition tz_consistent (c : comp) : bool :=
  match st_time (c_start c), st_time (c_end c) with
  | Some s, Some e => negb (tz_mix s e)
  | _, _ => true
  end.
(* C16-F2: a single DURATION object whose value is not a timedelta (a date, time, period) *)
Definition dur_typed (c : comp) : bool :=
  match c_dur c with One (VDelta _) => true | One _ => false | _ => true end.

(* the RFC default end of a component that has only a start *)
Definition default_end (s : time) : time := if is_date s then tadd s day else s.
Definition default_duration (s : time) : Z := if is_date s then day else 0.
