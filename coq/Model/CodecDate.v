(* vDate, vDatetime (naive and UTC; the [timezone] argument is C11's subject), vTime:
   to_ical / from_ical as written in prop.py, and the RFC 5545 recognisers for DATE, TIME and
   DATE-TIME.  Definitions only. *)
Require Import Lib.Base Model.Params Model.CodecBase.
Local Open Scope Z_scope.

(* ---------------------------------------------------------------- vDate *)
(* f"{year:04}{month:02}{day:02}" ; a Python date is always valid, other triples are declined *)
Definition enc_date (y m d : Z) : res str :=
  if valid_date y m d then Ok (zpad 4 y ++ zpad 2 m ++ zpad 2 d) else Unsup.

(* date(int(ical[:4]), int(ical[4:6]), int(ical[6:8])); every exception becomes ValueError.
   No length check: trailing text is ignored, a short last field is accepted. *)
Definition dec_date (t : str) : res (Z * Z * Z) :=
  if negb (all_ascii t) then Unsup else
  bind (py_int (slice 0 4 t)) (fun y =>
  bind (py_int (slice 4 6 t)) (fun m =>
  bind (py_int (slice 6 8 t)) (fun d =>
  if valid_date y m d then Ok (y, m, d) else ValueErr))).

(* ---------------------------------------------------------------- vTime *)
(* value = (hour, minute, second, utc?) ; to_ical is strftime("%H%M%S"): the zone is not written *)
Definition enc_time (h m s : Z) (utc : bool) : res str :=
  if valid_time h m s then Ok (zpad 2 h ++ zpad 2 m ++ zpad 2 s) else Unsup.

(* time(int(ical[:2]), int(ical[2:4]), int(ical[4:6])): whatever follows (a "Z") is ignored and
   the result is always naive *)
Definition dec_time (t : str) : res (Z * Z * Z * bool) :=
  if negb (all_ascii t) then Unsup else
  bind (py_int (slice 0 2 t)) (fun h =>
  bind (py_int (slice 2 4 t)) (fun m =>
  bind (py_int (slice 4 6 t)) (fun s =>
  if valid_time h m s then Ok (h, m, s, false) else ValueErr))).

(* ---------------------------------------------------------------- vDatetime (timezone=None) *)
Definition dt := (Z * Z * Z * Z * Z * Z * bool)%type.   (* y m d h mi s utc? *)

Definition enc_datetime (v : dt) : res str :=
  let '(y, m, d, h, mi, s, utc) := v in
  if valid_date y m d && valid_time h mi s
  then Ok (zpad 4 y ++ zpad 2 m ++ zpad 2 d ++ 84%N :: zpad 2 h ++ zpad 2 mi ++ zpad 2 s
           ++ (if utc then [90%N] else []))
  else Unsup.

(* the character at index 8 is never looked at; ical[15:] empty -> naive, ical[15:16] == 'Z' ->
   UTC (the rest ignored), anything else ValueError *)
Definition dec_datetime (t : str) : res dt :=
  if negb (all_ascii t) then Unsup else
  bind (py_int (slice 0 4 t)) (fun y =>
  bind (py_int (slice 4 6 t)) (fun m =>
  bind (py_int (slice 6 8 t)) (fun d =>
  bind (py_int (slice 9 11 t)) (fun h =>
  bind (py_int (slice 11 13 t)) (fun mi =>
  bind (py_int (slice 13 15 t)) (fun s =>
  if valid_date y m d && valid_time h mi s then
    match skipn 15 t with
    | [] => Ok (y, m, d, h, mi, s, false)
    | c :: _ => if (c =? 90)%N then Ok (y, m, d, h, mi, s, true) else ValueErr
    end
  else ValueErr)))))).

(* ---------------------------------------------------------------- RFC 5545 3.3.4 / 3.3.12 / 3.3.5 *)
(* date-value = date-fullyear date-month date-mday ; 4DIGIT 2DIGIT(01-12) 2DIGIT(01-28..31 based on
   month/year).  Years 0001-9999 (the property's domain; year 0000 has no Python date). *)
Definition date_value (t : str) : option (Z * Z * Z) :=
  match t with
  | [a; b; c; d; e; f; g; h] =>
      if forallb is_digit t then
        let '(y, m, dd) := (num4 a b c d, num2 e f, num2 g h) in
        if valid_date y m dd then Some (y, m, dd) else None
      else None
  | _ => None
  end.
Definition date_grammar (t : str) : bool := match date_value t with Some _ => true | None => false end.

(* time = time-hour time-minute time-second [time-utc] ; 00-23, 00-59, 00-60 ; time-utc = "Z" *)
Definition time_value (t : str) : option (Z * Z * Z * bool) :=
  let mk a b c d e f (utc : bool) :=
    if forallb is_digit [a; b; c; d; e; f] then
      let '(h, m, s) := (num2 a b, num2 c d, num2 e f) in
      if (h <=? 23) && (m <=? 59) && (s <=? 60) then Some (h, m, s, utc) else None
    else None in
  match t with
  | [a; b; c; d; e; f] => mk a b c d e f false
  | [a; b; c; d; e; f; z] => if (z =? 90)%N then mk a b c d e f true else None
  | _ => None
  end.
Definition time_grammar (t : str) : bool := match time_value t with Some _ => true | None => false end.

(* date-time = date "T" time *)
Definition datetime_value (t : str) : option dt :=
  match date_value (firstn 8 t), skipn 8 t with
  | Some (y, m, d), c :: r =>
      if (c =? 84)%N then
        match time_value r with
        | Some (h, mi, s, utc) => Some (y, m, d, h, mi, s, utc)
        | None => None
        end
      else None
  | _, _ => None
  end.
Definition datetime_grammar (t : str) : bool := match datetime_value t with Some _ => true | None => false end.

(* The same grammars read with RFC 5234's case-insensitive literals ("T", "Z" also match t, z) *)
Definition time_grammar_ci (t : str) : bool := time_grammar (upper t).
Definition datetime_grammar_ci (t : str) : bool := datetime_grammar (upper t).
