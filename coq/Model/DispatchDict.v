(* Dispatcher of the model area: CaselessDict / canonical ordering (C17).
   [dispatch_dict f a] = Some result when [f] names a function of this area.  Definitions only. *)
Require Import Lib.Base.
From Coq Require Import String.
Local Open Scope string_scope.

Definition dispatch_dict (f : list N) (a : jv) : option jv := None.
