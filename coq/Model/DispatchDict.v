(* Dispatcher of the model area: CaselessDict / canonical ordering (C17).
   [dispatch_dict f a] = Some result when [f] names a function of this area.  Definitions only.

   Wire format (values are integers):
     key   = ( i0|i1  s<text> )           0 = str, 1 = bytes
     items = ( ( key i<v> ) ... )         raw items: ( ( s<key> i<v> ) ... )
     op    = ( s<name> arg ... )
     c17_trace ops  ->  ( ( out ref_out ok state ref_state ) ... )   one entry per operation, from the empty dict:
                        the model's result, the reference's result on the same (model) state, the
                        guard op_ok, the model's state after the operation *)
Require Import Lib.Base Model.Params Model.Sort Model.Caseless.
From Coq Require Import String.
Local Open Scope string_scope.

Definition isd (f : list N) (name : string) : bool := str_eqb f (s2l name).

Definition key_of (v : jv) : option key :=
  match v with
  | JL [JZ b; JS s] => Some (if (b =? 0)%Z then KStr s else KBytes s)
  | _ => None
  end.

Fixpoint keys_of (l : list jv) : option (list key) :=
  match l with
  | [] => Some []
  | k :: r => match key_of k, keys_of r with
              | Some k', Some r' => Some (k' :: r')
              | _, _ => None
              end
  end.

Fixpoint kdict_of (l : list jv) : option (list (key * Z)) :=
  match l with
  | [] => Some []
  | JL [k; JZ v] :: r => match key_of k, kdict_of r with
                         | Some k', Some r' => Some ((k', v) :: r')
                         | _, _ => None
                         end
  | _ => None
  end.

Fixpoint rawdict_of (l : list jv) : option (list (list N * Z)) :=
  match l with
  | [] => Some []
  | JL [JS k; JZ v] :: r => match rawdict_of r with
                            | Some r' => Some ((k, v) :: r')
                            | None => None
                            end
  | _ => None
  end.

Definition optz_of (v : jv) : option (option Z) :=
  match v with
  | JL [] => Some None
  | JL [JZ z] => Some (Some z)
  | _ => None
  end.

Definition op_of (v : jv) : option (op Z) :=
  match v with
  | JL (JS name :: args) =>
      if isd name "init" then match args with [JL ps] => option_map OInit (kdict_of ps) | _ => None end
      else if isd name "fromkeys" then
        match args with [JL ks; JZ v] => option_map (fun ks' => OFromKeys ks' v) (keys_of ks) | _ => None end
      else if isd name "getitem" then match args with [k] => option_map OGetItem (key_of k) | _ => None end
      else if isd name "setitem" then
        match args with [k; JZ v] => option_map (fun k' => OSetItem k' v) (key_of k) | _ => None end
      else if isd name "delitem" then match args with [k] => option_map ODelItem (key_of k) | _ => None end
      else if isd name "contains" then match args with [k] => option_map OContains (key_of k) | _ => None end
      else if isd name "has_key" then match args with [k] => option_map OHasKey (key_of k) | _ => None end
      else if isd name "get" then
        match args with
        | [k; d] => match key_of k, optz_of d with Some k', Some d' => Some (OGet k' d') | _, _ => None end
        | _ => None end
      else if isd name "setdefault" then
        match args with [k; JZ v] => option_map (fun k' => OSetDefault k' v) (key_of k) | _ => None end
      else if isd name "pop" then
        match args with
        | [k; d] => match key_of k, optz_of d with Some k', Some d' => Some (OPop k' d') | _, _ => None end
        | _ => None end
      else if isd name "popitem" then Some OPopItem
      else if isd name "update" then match args with [JL ps] => option_map OUpdate (kdict_of ps) | _ => None end
      else if isd name "copy" then Some OCopy
      else if isd name "or" then match args with [JL ps] => option_map OOr (kdict_of ps) | _ => None end
      else if isd name "ror" then match args with [JL ps] => option_map ORor (kdict_of ps) | _ => None end
      else if isd name "ior" then match args with [JL ps] => option_map OIor (kdict_of ps) | _ => None end
      else if isd name "eq" then match args with [JL ps] => option_map OEq (rawdict_of ps) | _ => None end
      else if isd name "ne" then match args with [JL ps] => option_map ONe (rawdict_of ps) | _ => None end
      else if isd name "eq_nonmapping" then Some OEqNonMapping
      else if isd name "clear" then Some OClear
      else if isd name "len" then Some OLen
      else if isd name "keys" then Some OKeys
      else if isd name "reversed" then Some OReversed
      else if isd name "move_to_end" then
        match args with [k; JZ l] => option_map (fun k' => OMoveToEnd k' (negb (l =? 0)%Z)) (key_of k) | _ => None end
      else None
  | _ => None
  end.

Fixpoint ops_of (l : list jv) : option (list (op Z)) :=
  match l with
  | [] => Some []
  | v :: r => match op_of v, ops_of r with
              | Some o, Some r' => Some (o :: r')
              | _, _ => None
              end
  end.

(* only ASCII keys are decided by the model (str.upper and UTF-8 decoding are not modelled beyond ASCII) *)
Definition kdict_ascii (ps : list (key * Z)) : bool := forallb (fun kv => key_ascii (fst kv)) ps.
Definition rawdict_ascii (ps : list (list N * Z)) : bool := forallb (fun kv => all_ascii (fst kv)) ps.
Definition op_ascii (o : op Z) : bool :=
  match o with
  | OInit ps | OUpdate ps | OOr ps | ORor ps | OIor ps => kdict_ascii ps
  | OFromKeys ks _ => forallb key_ascii ks
  | OGetItem k | OSetItem k _ | ODelItem k | OContains k | OHasKey k | OGet k _ | OSetDefault k _
  | OPop k _ | OMoveToEnd k _ => key_ascii k
  | OEq ps | ONe ps => rawdict_ascii ps
  | _ => true
  end.

Definition jdict (d : list (list N * Z)) : jv := JL (map (fun kv : list N * Z => JL [JS (fst kv); JZ (snd kv)]) d).

Definition jout (o : out Z) : jv :=
  match o with
  | RNone => jtag "none" []
  | RVal v => jtag "val" [JZ v]
  | RBool b => jtag "bool" [jbool b]
  | RKeyError => jerr "KeyError"
  | RErr k => jtag "err" [JS k]
  | RDict d => jtag "dict" [jdict d]
  | RItem k v => jtag "item" [JS k; JZ v]
  | RKeys l => jtag "keys" [jstrs l]
  | RLen n => jtag "len" [jnat n]
  end.

Fixpoint trace (s : list (list N * Z)) (ops : list (op Z)) : list jv :=
  match ops with
  | [] => []
  | o :: r =>
      let '(s', res) := step Z.eqb s o in
      let '(rs, rres) := rstep Z.eqb s o in
      JL [jout res; jout rres; jbool (op_ok s o); jdict s'; jdict rs] :: trace s' r
  end.

Definition dispatch_dict (f : list N) (a : jv) : option jv :=
  if isd f "c17_trace" then
    Some match a with
         | JL l => match ops_of l with
                   | Some ops => if forallb op_ascii ops then JL (trace [] ops) else junsupported
                   | None => junsupported
                   end
         | _ => junsupported
         end
  else if isd f "canonsort_keys" then
    Some match a with
         | JL [JL ks; JL order] =>
             match jv_strs ks, jv_strs order with
             | Some ks', Some order' => jstrs (canonsort_keys ks' order')
             | _, _ => junsupported
             end
         | _ => junsupported
         end
  else if isd f "canonsort_items" then
    Some match a with
         | JL [JL d; JL order] =>
             match rawdict_of d, jv_strs order with
             | Some d', Some order' =>
                 JL (map (fun kv : list N * option Z =>
                            JL [JS (fst kv); match snd kv with Some v => JZ v | None => jtag "none" [] end])
                         (canonsort_items d' order'))
             | _, _ => junsupported
             end
         | _ => junsupported
         end
  else None.
