(* Dispatcher of the typed value codecs (C03); Model/DispatchCodec.v delegates to it.
   [dispatch_c03 f a] = Some result when [f] names a function of this area.  Definitions only. *)
Require Import Lib.Base Model.Params Model.CodecBase Model.CodecDate Model.CodecDur Model.CodecMisc.
From Coq Require Import String.
Local Open Scope string_scope.
Local Open Scope Z_scope.

Definition cis (f : list N) (name : string) : bool := str_eqb f (s2l name).

Definition cres {A} (f : A -> jv) (r : res A) : jv :=
  match r with
  | Ok a => f a
  | ValueErr => jerr "ValueError"
  | Escape k => jtag "err" [JS k]
  | Unsup => junsupported
  end.

(* integers beyond the wire's 60 bits travel as decimal text *)
Definition jbig (z : Z) : jv :=
  if (Z.abs z <? 2 ^ 59) then JZ z else jtag "big" [JS (str_of_Z z)].
Definition big_of (v : jv) : option Z :=
  match v with
  | JZ z => Some z
  | JS s => match py_int s with Ok z => Some z | _ => None end
  | _ => None
  end.

Definition jnone : jv := jtag "none" [].
Definition jopt {A} (f : A -> jv) (o : option A) : jv := match o with Some a => f a | None => jnone end.
Definition jdate (v : Z * Z * Z) : jv := let '(y, m, d) := v in JL [JZ y; JZ m; JZ d].
Definition jtime (v : Z * Z * Z * bool) : jv := let '(h, m, s, u) := v in JL [JZ h; JZ m; JZ s; jbool u].
Definition jdt (v : dt) : jv :=
  let '(y, m, d, h, mi, s, u) := v in JL [JZ y; JZ m; JZ d; JZ h; JZ mi; JZ s; jbool u].
Fixpoint jddd (v : ddd) : jv :=
  match v with
  | DDate y m d => jtag "date" [JZ y; JZ m; JZ d]
  | DDatetime x => jtag "datetime" [jdt x]
  | DTime h m s u => jtag "time" [JZ h; JZ m; JZ s; jbool u]
  | DDur s => jtag "dur" [JZ s]
  | DPeriod a b => jtag "period" [jddd a; jddd b]
  end.
Definition dt_of (l : list jv) : option dt :=
  match l with
  | [JZ y; JZ m; JZ d; JZ h; JZ mi; JZ s; JZ u] => Some (y, m, d, h, mi, s, negb (u =? 0))
  | _ => None
  end.
Definition jweekday (v : str * option Z * str) : jv :=
  let '(s, rel, wd) := v in JL [JS s; jopt JZ rel; JS wd].
Definition jmonth (v : Z * bool) : jv := let '(n, l) := v in JL [jbig n; jbool l].

Definition on_str (a : jv) (k : str -> jv) : option jv :=
  Some (match a with JS s => k s | _ => junsupported end).

Definition dispatch_c03 (f : list N) (a : jv) : option jv :=
  if cis f "py_int" then on_str a (fun s => cres jbig (py_int s))
  else if cis f "str_of_Z" then Some (match big_of a with Some z => JS (str_of_Z z) | None => junsupported end)
  else if cis f "enc_date" then
    Some (match a with JL [JZ y; JZ m; JZ d] => cres JS (enc_date y m d) | _ => junsupported end)
  else if cis f "dec_date" then on_str a (fun s => cres jdate (dec_date s))
  else if cis f "enc_time" then
    Some (match a with JL [JZ h; JZ m; JZ s; JZ u] => cres JS (enc_time h m s (negb (u =? 0))) | _ => junsupported end)
  else if cis f "dec_time" then on_str a (fun s => cres jtime (dec_time s))
  else if cis f "enc_datetime" then
    Some (match a with JL l => match dt_of l with Some v => cres JS (enc_datetime v) | None => junsupported end
                  | _ => junsupported end)
  else if cis f "dec_datetime" then on_str a (fun s => cres jdt (dec_datetime s))
  else if cis f "enc_dur" then Some (match a with JZ s => cres JS (enc_dur s) | _ => junsupported end)
  else if cis f "dec_dur" then on_str a (fun s => cres JZ (dec_dur s))
  else if cis f "enc_offset" then Some (match a with JZ s => cres JS (enc_offset s) | _ => junsupported end)
  else if cis f "dec_offset" then on_str a (fun s => cres JZ (dec_offset s))
  else if cis f "ddd_from_ical" then on_str a (fun s => cres jddd (ddd_from_ical s))
  else if cis f "dec_period" then on_str a (fun s => cres jddd (dec_period s))
  else if cis f "enc_period" then
    Some (match a with
          | JL [JL x; JL y] => match dt_of x, dt_of y with
                               | Some u, Some v => cres JS (enc_period_explicit u v)
                               | _, _ => junsupported end
          | JL [JL x; JZ s] => match dt_of x with Some u => cres JS (enc_period_dur u s) | None => junsupported end
          | _ => junsupported end)
  else if cis f "enc_int" then
    Some (match big_of a with Some z => cres JS (enc_int z) | None => junsupported end)
  else if cis f "dec_int" then on_str a (fun s => cres jbig (dec_int s))
  else if cis f "enc_bool" then Some (match a with JZ b => JS (enc_bool (negb (b =? 0))) | _ => junsupported end)
  else if cis f "dec_bool" then on_str a (fun s => cres jbool (dec_bool s))
  else if cis f "enc_binary" then on_str a (fun s => cres JS (enc_binary s))
  else if cis f "dec_binary" then on_str a (fun s => cres JS (dec_binary s))
  else if cis f "b64_enc" then on_str a (fun s => JS (b64_enc s))
  else if cis f "utf8_encode" then on_str a (fun s => cres JS (utf8_encode s))
  else if cis f "weekday_new" then on_str a (fun s => cres jweekday (weekday_new s))
  else if cis f "dec_weekday" then on_str a (fun s => cres jweekday (dec_weekday s))
  else if cis f "enc_weekday" then on_str a (fun s => if all_ascii s then JS (enc_weekday s) else junsupported)
  else if cis f "freq_new" then on_str a (fun s => cres JS (freq_new s))
  else if cis f "dec_freq" then on_str a (fun s => cres JS (dec_freq s))
  else if cis f "enc_freq" then on_str a (fun s => if all_ascii s then JS (enc_freq s) else junsupported)
  else if cis f "dec_month" then on_str a (fun s => cres jmonth (dec_month s))
  else if cis f "enc_month" then
    Some (match a with
          | JL [n; JZ l] => match big_of n with Some z => cres JS (enc_month z (negb (l =? 0))) | None => junsupported end
          | _ => junsupported end)
  else if cis f "dec_uri" then on_str a (fun s => JS (dec_uri s))
  else if cis f "enc_uri" then on_str a (fun s => JS (enc_uri s))
  (* RFC readings: the value the grammar assigns, or none *)
  else if cis f "date_value" then on_str a (fun s => jopt jdate (date_value s))
  else if cis f "time_value" then on_str a (fun s => jopt jtime (time_value s))
  else if cis f "datetime_value" then on_str a (fun s => jopt jdt (datetime_value s))
  else if cis f "dur_value" then on_str a (fun s => jopt jbig (dur_value s))
  else if cis f "offset_value" then on_str a (fun s => jopt JZ (offset_value s))
  else if cis f "period_value" then on_str a (fun s => jopt jddd (period_value s))
  else if cis f "int_value" then on_str a (fun s => jopt jbig (int_value s))
  else if cis f "bool_value" then on_str a (fun s => jopt jbool (bool_value s))
  else if cis f "binary_grammar" then on_str a (fun s => jbool (binary_grammar s))
  else if cis f "weekday_value" then
    on_str a (fun s => jopt (fun v : option Z * str => JL [jopt JZ (fst v); JS (snd v)]) (weekday_value s))
  else if cis f "freq_grammar" then on_str a (fun s => jbool (freq_grammar s))
  else if cis f "month_value" then on_str a (fun s => jopt jmonth (month_value s))
  else if cis f "uri_grammar" then on_str a (fun s => jbool (uri_grammar s))
  else None.
