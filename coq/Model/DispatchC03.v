(* Dispatcher of the typed value codecs (C03); Model/DispatchCodec.v delegates to it.
   [dispatch_c03 f a] = Some result when [f] names a function of this area.  Definitions only. *)
Require Import Lib.Base Model.Params Model.CodecBase Model.CodecDate Model.CodecDur Model.CodecMisc.
From Coq Require Import String.
Local Open Scope string_scope.
Local Open Scope Z_scope.

Definition cis (f : list N) (name : string) : bool := str_eqb f (s2l name).

Definition cres {A} (f : A -> jv) (r : res A) : jv :=
  match r with
  | Ok a => f a
  | ValueErr => jerr "ValueError"
  | Escape k => jtag "err" [JS k]
  | Unsup => junsupported
  end.

(* integers beyond the wire's 60 bits travel as decimal text *)
Definition jbig (z : Z) : jv :=
  if (Z.abs z <? 2 ^ 59) then JZ z else jtag "big" [JS (str_of_Z z)].
Definition big_of (v : jv) : option Z :=
  match v with
  | JZ z => Some z
  | JS s => match py_int s with Ok z => Some z | _ => None end
  | _ => None
  end.

Definition jnone : jv := jtag "none" [].
Definition jopt {A} (f : A -> jv) (o : option A) : jv := match o with Some a => f a | None => jnone end.
Definition jdate (v : Z * Z * Z) : jv := let '(y, m, d) := v in JL [JZ y; JZ m; JZ d].
Definition jtime (v : Z * Z * Z * bool) : jv := let '(h, m, s, u) := v in JL [JZ h; JZ m; JZ s; jbool u].
Definition jdt (v : dt) : jv :=
  let '(y, m, d, h, mi, s, u) := v in JL [JZ y; JZ m; JZ d; JZ h; JZ mi; JZ s; jbool u].
Fixpoint jddd (v : ddd) : jv :=
  match v with
  | DDate y m d => jtag "date" [JZ y; JZ m; JZ d]
  | DDatetime x => jtag "datetime" [jdt x]
  | DTime h m s u => jtag "time" [JZ h; JZ m; JZ s; jbool u]
  | DDur s => jtag "dur" [JZ s]
  | DPeriod a b => jtag "period" [jddd a; jddd b]
  end.
(* readings of texts: a grammar-valid duration may denote any number of seconds *)
Fixpoint jddd_big (v : ddd) : jv :=
  match v with
  | DDur s => jtag "dur" [jbig s]
  | DPeriod a b => jtag "period" [jddd_big a; jddd_big b]
  | _ => jddd v
  end.
Definition dt_of (l : list jv) : option dt :=
  match l with
  | [JZ y; JZ m; JZ d; JZ h; JZ mi; JZ s; JZ u] => Some (y, m, d, h, mi, s, negb (u =? 0))
  | _ => None
  end.
Definition jweekday (v : str * option Z * str) : jv :=
  let '(s, rel, wd) := v in JL [JS s; jopt JZ rel; JS wd].
Definition jmonth (v : Z * bool) : jv := let '(n, l) := v in JL [jbig n; jbool l].

Definition on_str (a : jv) (k : str -> jv) : jv :=
  match a with JS s => k s | _ => junsupported end.

(* name -> function table: a top-level constant, so the extracted driver converts the names once *)
Definition c03_table : list (str * (jv -> jv)) :=
  [(s2l "py_int", fun a : jv =>
      on_str a (fun s => cres jbig (py_int s)));
   (s2l "str_of_Z", fun a : jv =>
      match big_of a with Some z => JS (str_of_Z z) | None => junsupported end);
   (s2l "enc_date", fun a : jv =>
      match a with JL [JZ y; JZ m; JZ d] => cres JS (enc_date y m d) | _ => junsupported end);
   (s2l "dec_date", fun a : jv =>
      on_str a (fun s => cres jdate (dec_date s)));
   (s2l "enc_time", fun a : jv =>
      match a with JL [JZ h; JZ m; JZ s; JZ u] => cres JS (enc_time h m s (negb (u =? 0))) | _ => junsupported end);
   (s2l "dec_time", fun a : jv =>
      on_str a (fun s => cres jtime (dec_time s)));
   (s2l "enc_datetime", fun a : jv =>
      match a with JL l => match dt_of l with Some v => cres JS (enc_datetime v) | None => junsupported end
                  | _ => junsupported end);
   (s2l "dec_datetime", fun a : jv =>
      on_str a (fun s => cres jdt (dec_datetime s)));
   (s2l "enc_dur", fun a : jv =>
      match a with JZ s => cres JS (enc_dur s) | _ => junsupported end);
   (s2l "dec_dur", fun a : jv =>
      on_str a (fun s => cres JZ (dec_dur s)));
   (s2l "enc_offset", fun a : jv =>
      match a with JZ s => cres JS (enc_offset s) | _ => junsupported end);
   (s2l "dec_offset", fun a : jv =>
      on_str a (fun s => cres JZ (dec_offset s)));
   (s2l "ddd_from_ical", fun a : jv =>
      on_str a (fun s => cres jddd (ddd_from_ical s)));
   (s2l "dec_period", fun a : jv =>
      on_str a (fun s => cres jddd (dec_period s)));
   (s2l "enc_period", fun a : jv =>
      match a with
          | JL [JL x; JL y] => match dt_of x, dt_of y with
                               | Some u, Some v => cres JS (enc_period_explicit u v)
                               | _, _ => junsupported end
          | JL [JL x; JZ s] => match dt_of x with Some u => cres JS (enc_period_dur u s) | None => junsupported end
          | _ => junsupported end);
   (s2l "enc_int", fun a : jv =>
      match big_of a with Some z => cres JS (enc_int z) | None => junsupported end);
   (s2l "dec_int", fun a : jv =>
      on_str a (fun s => cres jbig (dec_int s)));
   (s2l "enc_bool", fun a : jv =>
      match a with JZ b => JS (enc_bool (negb (b =? 0))) | _ => junsupported end);
   (s2l "dec_bool", fun a : jv =>
      on_str a (fun s => cres jbool (dec_bool s)));
   (s2l "enc_binary", fun a : jv =>
      on_str a (fun s => cres JS (enc_binary s)));
   (s2l "dec_binary", fun a : jv =>
      on_str a (fun s => cres JS (dec_binary s)));
   (s2l "b64_enc", fun a : jv =>
      on_str a (fun s => JS (b64_enc s)));
   (s2l "utf8_encode", fun a : jv =>
      on_str a (fun s => cres JS (utf8_encode s)));
   (s2l "weekday_new", fun a : jv =>
      on_str a (fun s => cres jweekday (weekday_new s)));
   (s2l "dec_weekday", fun a : jv =>
      on_str a (fun s => cres jweekday (dec_weekday s)));
   (s2l "enc_weekday", fun a : jv =>
      on_str a (fun s => if all_ascii s then JS (enc_weekday s) else junsupported));
   (s2l "freq_new", fun a : jv =>
      on_str a (fun s => cres JS (freq_new s)));
   (s2l "dec_freq", fun a : jv =>
      on_str a (fun s => cres JS (dec_freq s)));
   (s2l "enc_freq", fun a : jv =>
      on_str a (fun s => if all_ascii s then JS (enc_freq s) else junsupported));
   (s2l "dec_month", fun a : jv =>
      on_str a (fun s => cres jmonth (dec_month s)));
   (s2l "enc_month", fun a : jv =>
      match a with
          | JL [n; JZ l] => match big_of n with Some z => cres JS (enc_month z (negb (l =? 0))) | None => junsupported end
          | _ => junsupported end);
   (s2l "dec_uri", fun a : jv =>
      on_str a (fun s => JS (dec_uri s)));
   (s2l "enc_uri", fun a : jv =>
      on_str a (fun s => JS (enc_uri s)));
   (s2l "date_value", fun a : jv =>
      on_str a (fun s => jopt jdate (date_value s)));
   (s2l "time_value", fun a : jv =>
      on_str a (fun s => jopt jtime (time_value s)));
   (s2l "datetime_value", fun a : jv =>
      on_str a (fun s => jopt jdt (datetime_value s)));
   (s2l "dur_value", fun a : jv =>
      on_str a (fun s => jopt jbig (dur_value s)));
   (s2l "offset_value", fun a : jv =>
      on_str a (fun s => jopt JZ (offset_value s)));
   (s2l "period_value", fun a : jv =>
      on_str a (fun s => jopt jddd_big (period_value s)));
   (s2l "int_value", fun a : jv =>
      on_str a (fun s => jopt jbig (int_value s)));
   (s2l "bool_value", fun a : jv =>
      on_str a (fun s => jopt jbool (bool_value s)));
   (s2l "binary_grammar", fun a : jv =>
      on_str a (fun s => jbool (binary_grammar s)));
   (s2l "weekday_value", fun a : jv =>
      on_str a (fun s => jopt (fun v : option Z * str => JL [jopt JZ (fst v); JS (snd v)]) (weekday_value s)));
   (s2l "freq_grammar", fun a : jv =>
      on_str a (fun s => jbool (freq_grammar s)));
   (s2l "month_value", fun a : jv =>
      on_str a (fun s => jopt jmonth (month_value s)));
   (s2l "uri_grammar", fun a : jv =>
      on_str a (fun s => jbool (uri_grammar s)));
   (* readings, guards and predictions of the grammar => value theorems (Proofs/CodecGrammarProofs.v) *)
   (s2l "ddd_value", fun a : jv =>
      on_str a (fun s => jopt jddd_big (ddd_value s)));
   (s2l "ddd_guard", fun a : jv =>
      on_str a (fun s => match ddd_value s with
                         | Some v => jbool (ddd_guard v && (List.length s <=? 4300)%nat)
                         | None => jnone end));
   (s2l "ddd_expected", fun a : jv =>
      on_str a (fun s => match ddd_value s with Some v => cres jddd (ddd_expected v) | None => jnone end));
   (s2l "ddd_grammar_ci", fun a : jv =>
      on_str a (fun s => jbool (ddd_grammar_ci s)));
   (s2l "period_guard", fun a : jv =>
      on_str a (fun s => match period_value s with
                         | Some v => jbool (ddd_guard v && (List.length s <=? 4300)%nat)
                         | None => jnone end));
   (s2l "period_expected", fun a : jv =>
      on_str a (fun s => match period_value s with Some v => cres jddd (ddd_expected v) | None => jnone end));
   (s2l "binary_value", fun a : jv =>
      on_str a (fun s => jopt JS (binary_value s)));
   (s2l "binary_canonical", fun a : jv =>
      on_str a (fun s => jbool (binary_canonical s)))].

Fixpoint c03_lookup (f : list N) (t : list (str * (jv -> jv))) : option (jv -> jv) :=
  match t with
  | [] => None
  | (k, g) :: r => if str_eqb f k then Some g else c03_lookup f r
  end.

Definition dispatch_c03 (f : list N) (a : jv) : option jv :=
  match c03_lookup f c03_table with Some g => Some (g a) | None => None end.
