(* C09: the rewrites RFC 5545 declares insignificant, as generators of physical text from logical
   lines: line ending CRLF or LF, any placement of folds (SPACE or TAB) between characters, trailing
   blank lines; and the case of names.  Definitions only. *)
Require Import Lib.Base Gen.Gen_parser Model.Fold Model.Params Model.Text Model.Contentline.

(* a logical line given as its segments; between two segments a fold [nl ++ [ws]] is placed *)
Fixpoint phys_line (nl : list N) (ws : N) (segs : list (list N)) : list N :=
  match segs with
  | [] => []
  | [s] => s
  | s :: r => s ++ nl ++ ws :: phys_line nl ws r
  end.

Fixpoint phys_text (nl : list N) (ws : N) (ls : list (list (list N))) : list N :=
  match ls with
  | [] => []
  | segs :: r => phys_line nl ws segs ++ nl ++ phys_text nl ws r
  end.

Fixpoint blank_lines (nl : list N) (k : nat) : list N :=
  match k with O => [] | S k' => nl ++ blank_lines nl k' end.

Definition plain_chr (c : N) : bool := negb ((c =? 10) || (c =? 13)).
Definition plain (s : list N) : bool := forallb plain_chr s.
(* first segment non-empty and not starting with SPACE/TAB (a content line starts with a name); every
   later segment non-empty (a fold stands between two characters); no CR / LF inside *)
Definition segs_ok (segs : list (list N)) : bool :=
  match segs with
  | [] => false
  | s :: r => match s with c :: _ => negb ((c =? 32) || (c =? 9)) | [] => false end
              && forallb plain segs && forallb nonempty r
  end.
Definition is_nl (nl : list N) : bool := str_eqb nl [13; 10] || str_eqb nl [10].
Definition is_ws (ws : N) : bool := (ws =? 32) || (ws =? 9).

(* upper-casing is all the parser looks at in a name *)
Definition same_upper (a b : list N) : bool := str_eqb (upper a) (upper b).
