(* C09: the rewrites RFC 5545 declares insignificant, as generators of physical text from logical
   lines: line ending CRLF or LF, any placement of folds (SPACE or TAB) between characters, trailing
   blank lines; and the case of names (whole lines: [name_variant] / [recase] below).  Definitions only. *)
Require Import Lib.Base Gen.Gen_parser Model.Fold Model.Params Model.Text Model.Contentline.

(* a logical line given as its segments; between two segments a fold [nl ++ [ws]] is placed *)
Fixpoint phys_line (nl : list N) (ws : N) (segs : list (list N)) : list N :=
  match segs with
  | [] => []
  | [s] => s
  | s :: r => s ++ nl ++ ws :: phys_line nl ws r
  end.

Fixpoint phys_text (nl : list N) (ws : N) (ls : list (list (list N))) : list N :=
  match ls with
  | [] => []
  | segs :: r => phys_line nl ws segs ++ nl ++ phys_text nl ws r
  end.

Fixpoint blank_lines (nl : list N) (k : nat) : list N :=
  match k with O => [] | S k' => nl ++ blank_lines nl k' end.

Definition plain_chr (c : N) : bool := negb ((c =? 10) || (c =? 13)).
Definition plain (s : list N) : bool := forallb plain_chr s.
(* first segment non-empty and not starting with SPACE/TAB (a content line starts with a name); every
   later segment non-empty (a fold stands between two characters); no CR / LF inside *)
Definition segs_ok (segs : list (list N)) : bool :=
  match segs with
  | [] => false
  | s :: r => match s with c :: _ => negb ((c =? 32) || (c =? 9)) | [] => false end
              && forallb plain segs && forallb nonempty r
  end.
Definition is_nl (nl : list N) : bool := str_eqb nl [13; 10] || str_eqb nl [10].
Definition is_ws (ws : N) : bool := (ws =? 32) || (ws =? 9).

(* upper-casing is all the parser looks at in a name *)
Definition same_upper (a b : list N) : bool := str_eqb (upper a) (upper b).

(* ------------------------------------------------------------------ letter case of names, on whole content lines *)
(* A content line is read left to right by a small machine that knows where it is: in the property
   name, in a parameter name (between an unquoted ';' and the next unquoted '='), in a parameter
   value, or in the value (after the first unquoted ':').  On the RAW line (before parts() runs
   escape_string) a ':' or ';' that directly follows a backslash is not a delimiter: escape_string turns
   "\:" and "\;" into placeholders before the scan.  The two flags of a [level] say whether that
   backslash rule applies to ':' and to ';' (raw line: both; text already escaped: neither). *)
Definition is_letter (c : N) : bool := is_lower c || is_upper c.
Definition flip_chr (c : N) : N := if is_lower c then c - 32 else if is_upper c then c + 32 else c.

Inductive phase := PName | PKey | PVal | PValue.
Record lstate := { l_bs : bool; l_inq : bool; l_ph : phase }.
Definition level := (bool * bool)%type.
Definition raw_level : level := (true, true).
Definition esc_level : level := (false, false).
Definition lstart : lstate := {| l_bs := false; l_inq := false; l_ph := PName |}.

Definition live (esc_rule : bool) (q : lstate) : bool := negb (l_inq q) && negb (esc_rule && l_bs q).

Definition lstep (lv : level) (q : lstate) (c : N) : lstate :=
  let colon := (c =? 58) && live (fst lv) q in
  let semi := (c =? 59) && live (snd lv) q in
  let eq := (c =? 61) && negb (l_inq q) in
  {| l_bs := c =? 92;
     l_inq := if c =? 34 then negb (l_inq q) else l_inq q;
     l_ph := match l_ph q with
             | PValue => PValue
             | PName => if colon then PValue else if semi then PKey else PName
             | PKey => if colon then PValue else if semi then PKey else if eq then PVal else PKey
             | PVal => if colon then PValue else if semi then PKey else PVal
             end |}.

(* inside the property name or a parameter name, outside quoted strings *)
Definition name_here (q : lstate) : bool :=
  negb (l_inq q) && match l_ph q with PName | PKey => true | _ => false end.
(* inside the value *)
Definition value_here (q : lstate) : bool := match l_ph q with PValue => true | _ => false end.

(* the same letter in the other case, or the same character *)
Definition case_var (c c' : N) : bool := is_letter c && is_letter c' && (upper_chr c =? upper_chr c').

(* [s'] is [s] with some letters at the positions selected by [here] written in the other case *)
Fixpoint variant_from (here : lstate -> bool) (lv : level) (q : lstate) (s s' : list N) : bool :=
  match s, s' with
  | [], [] => true
  | c :: r, c' :: r' => ((c =? c') || (here q && case_var c c')) && variant_from here lv (lstep lv q c) r r'
  | _, _ => false
  end.

(* the function form: flip the case of the letters at the positions [i] with [f i = true] that [here] admits *)
Fixpoint recase_from (here : lstate -> bool) (lv : level) (q : lstate) (f : nat -> bool) (i : nat) (s : list N) : list N :=
  match s with
  | [] => []
  | c :: r => (if f i && here q then flip_chr c else c) :: recase_from here lv (lstep lv q c) f (S i) r
  end.
Fixpoint mask_from (here : lstate -> bool) (lv : level) (q : lstate) (s : list N) : list bool :=
  match s with
  | [] => []
  | c :: r => (here q && is_letter c) :: mask_from here lv (lstep lv q c) r
  end.

(* property name and parameter names of a raw content line *)
Definition name_variant (line line' : list N) : bool := variant_from name_here raw_level lstart line line'.
Definition recase (f : nat -> bool) (line : list N) : list N := recase_from name_here raw_level lstart f 0 line.
Definition name_positions (line : list N) : list bool := mask_from name_here raw_level lstart line.

(* the value of a raw content line *)
Definition value_variant (line line' : list N) : bool := variant_from value_here raw_level lstart line line'.
Definition recase_value (f : nat -> bool) (line : list N) : list N := recase_from value_here raw_level lstart f 0 line.

(* a BEGIN / END line (any letter case) without '%': its value is a component name *)
Definition begin_end_line (line : list N) : bool :=
  no_chr 37 line &&
  match parts line with
  | Ok (n, _, _) => str_eqb (upper n) (s2l "BEGIN") || str_eqb (upper n) (s2l "END")
  | _ => false
  end.

(* what parts() makes of two lines that differ in the case of names only *)
Definition same_parts (r r' : res (list N * params * list N)) : Prop :=
  match r, r' with
  | Ok (n, ps, v), Ok (n', ps', v') => upper n = upper n' /\ ps = ps' /\ v = v'
  | ValueErr, ValueErr => True
  | Unsup, Unsup => True
  | Escape k, Escape k' => k = k'
  | _, _ => False
  end.

(* a content line rewritten in a way RFC 5545 declares insignificant for letter case: names in any case,
   and on a BEGIN / END line the component name as well *)
Definition line_variant (l l' : list N) : Prop :=
  exists m, name_variant l m = true /\ (m = l' \/ (begin_end_line m = true /\ value_variant m l' = true)).
Definition recase_line (f g : nat -> bool) (l : list N) : list N :=
  let m := recase f l in if begin_end_line m then recase_value g m else m.

(* every line of a list of logical lines rewritten, line [i] with the selections [f i] (names) and [g i]
   (component name of a BEGIN / END line) *)
Fixpoint recase_lines (f g : nat -> nat -> bool) (i : nat) (ls : list (list N)) : list (list N) :=
  match ls with
  | [] => []
  | l :: r => recase_line (f i) (g i) l :: recase_lines f g (S i) r
  end.
