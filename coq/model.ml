
type nat =
| O
| S of nat

(** val option_map : ('a1 -> 'a2) -> 'a1 option -> 'a2 option **)

let option_map f = function
| Some a -> Some (f a)
| None -> None

(** val app : 'a1 list -> 'a1 list -> 'a1 list **)

let rec app l m =
  match l with
  | [] -> m
  | a :: l1 -> a :: (app l1 m)

type comparison =
| Eq
| Lt
| Gt

(** val add : nat -> nat -> nat **)

let rec add n0 m =
  match n0 with
  | O -> m
  | S p -> S (add p m)

(** val sub : nat -> nat -> nat **)

let rec sub n0 m =
  match n0 with
  | O -> n0
  | S k -> (match m with
            | O -> n0
            | S l -> sub k l)

module Nat =
 struct
  (** val eqb : nat -> nat -> bool **)

  let rec eqb n0 m =
    match n0 with
    | O -> (match m with
            | O -> true
            | S _ -> false)
    | S n' -> (match m with
               | O -> false
               | S m' -> eqb n' m')

  (** val leb : nat -> nat -> bool **)

  let rec leb n0 m =
    match n0 with
    | O -> true
    | S n' -> (match m with
               | O -> false
               | S m' -> leb n' m')
 end

(** val map : ('a1 -> 'a2) -> 'a1 list -> 'a2 list **)

let rec map f = function
| [] -> []
| a :: t -> (f a) :: (map f t)

(** val forallb : ('a1 -> bool) -> 'a1 list -> bool **)

let rec forallb f = function
| [] -> true
| a :: l0 -> (&&) (f a) (forallb f l0)

type positive =
| XI of positive
| XO of positive
| XH

type n =
| N0
| Npos of positive

type z =
| Z0
| Zpos of positive
| Zneg of positive

module Pos =
 struct
  (** val succ : positive -> positive **)

  let rec succ = function
  | XI p -> XO (succ p)
  | XO p -> XI p
  | XH -> XO XH

  (** val add : positive -> positive -> positive **)

  let rec add x y =
    match x with
    | XI p ->
      (match y with
       | XI q -> XO (add_carry p q)
       | XO q -> XI (add p q)
       | XH -> XO (succ p))
    | XO p ->
      (match y with
       | XI q -> XI (add p q)
       | XO q -> XO (add p q)
       | XH -> XI p)
    | XH -> (match y with
             | XI q -> XO (succ q)
             | XO q -> XI q
             | XH -> XO XH)

  (** val add_carry : positive -> positive -> positive **)

  and add_carry x y =
    match x with
    | XI p ->
      (match y with
       | XI q -> XI (add_carry p q)
       | XO q -> XO (add_carry p q)
       | XH -> XI (succ p))
    | XO p ->
      (match y with
       | XI q -> XO (add_carry p q)
       | XO q -> XI (add p q)
       | XH -> XO (succ p))
    | XH ->
      (match y with
       | XI q -> XI (succ q)
       | XO q -> XO (succ q)
       | XH -> XI XH)

  (** val mul : positive -> positive -> positive **)

  let rec mul x y =
    match x with
    | XI p -> add y (XO (mul p y))
    | XO p -> XO (mul p y)
    | XH -> y

  (** val compare_cont : comparison -> positive -> positive -> comparison **)

  let rec compare_cont r x y =
    match x with
    | XI p ->
      (match y with
       | XI q -> compare_cont r p q
       | XO q -> compare_cont Gt p q
       | XH -> Gt)
    | XO p ->
      (match y with
       | XI q -> compare_cont Lt p q
       | XO q -> compare_cont r p q
       | XH -> Gt)
    | XH -> (match y with
             | XH -> r
             | _ -> Lt)

  (** val compare : positive -> positive -> comparison **)

  let compare =
    compare_cont Eq

  (** val eqb : positive -> positive -> bool **)

  let rec eqb p q =
    match p with
    | XI p0 -> (match q with
                | XI q0 -> eqb p0 q0
                | _ -> false)
    | XO p0 -> (match q with
                | XO q0 -> eqb p0 q0
                | _ -> false)
    | XH -> (match q with
             | XH -> true
             | _ -> false)
 end

module N =
 struct
  (** val add : n -> n -> n **)

  let add n0 m =
    match n0 with
    | N0 -> m
    | Npos p -> (match m with
                 | N0 -> n0
                 | Npos q -> Npos (Pos.add p q))

  (** val mul : n -> n -> n **)

  let mul n0 m =
    match n0 with
    | N0 -> N0
    | Npos p -> (match m with
                 | N0 -> N0
                 | Npos q -> Npos (Pos.mul p q))

  (** val compare : n -> n -> comparison **)

  let compare n0 m =
    match n0 with
    | N0 -> (match m with
             | N0 -> Eq
             | Npos _ -> Lt)
    | Npos n' -> (match m with
                  | N0 -> Gt
                  | Npos m' -> Pos.compare n' m')

  (** val eqb : n -> n -> bool **)

  let eqb n0 m =
    match n0 with
    | N0 -> (match m with
             | N0 -> true
             | Npos _ -> false)
    | Npos p -> (match m with
                 | N0 -> false
                 | Npos q -> Pos.eqb p q)

  (** val ltb : n -> n -> bool **)

  let ltb x y =
    match compare x y with
    | Lt -> true
    | _ -> false
 end

type ascii =
| Ascii of bool * bool * bool * bool * bool * bool * bool * bool

(** val n_of_digits : bool list -> n **)

let rec n_of_digits = function
| [] -> N0
| b :: l' ->
  N.add (if b then Npos XH else N0) (N.mul (Npos (XO XH)) (n_of_digits l'))

(** val n_of_ascii : ascii -> n **)

let n_of_ascii = function
| Ascii (a0, a1, a2, a3, a4, a5, a6, a7) ->
  n_of_digits
    (a0 :: (a1 :: (a2 :: (a3 :: (a4 :: (a5 :: (a6 :: (a7 :: []))))))))

type string =
| EmptyString
| String of ascii * string

(** val s2l : string -> n list **)

let rec s2l = function
| EmptyString -> []
| String (a, r) -> (n_of_ascii a) :: (s2l r)

(** val str_eqb : n list -> n list -> bool **)

let rec str_eqb a b =
  match a with
  | [] -> (match b with
           | [] -> true
           | _ :: _ -> false)
  | x :: a' ->
    (match b with
     | [] -> false
     | y :: b' -> (&&) (N.eqb x y) (str_eqb a' b'))

type jv =
| JZ of z
| JS of n list
| JL of jv list

(** val jtag : string -> jv list -> jv **)

let jtag t args =
  JL ((JS (s2l t)) :: args)

(** val junsupported : jv **)

let junsupported =
  jtag (String ((Ascii (true, false, true, false, true, true, true, false)),
    (String ((Ascii (false, true, true, true, false, true, true, false)),
    (String ((Ascii (true, true, false, false, true, true, true, false)),
    (String ((Ascii (true, false, true, false, true, true, true, false)),
    (String ((Ascii (false, false, false, false, true, true, true, false)),
    (String ((Ascii (false, false, false, false, true, true, true, false)),
    (String ((Ascii (true, true, true, true, false, true, true, false)),
    (String ((Ascii (false, true, false, false, true, true, true, false)),
    (String ((Ascii (false, false, true, false, true, true, true, false)),
    (String ((Ascii (true, false, true, false, false, true, true, false)),
    (String ((Ascii (false, false, true, false, false, true, true, false)),
    EmptyString)))))))))))))))))))))) []

(** val jstrs : n list list -> jv **)

let jstrs l =
  JL (map (fun x -> JS x) l)

(** val fold_limit : nat **)

let fold_limit =
  S (S (S (S (S (S (S (S (S (S (S (S (S (S (S (S (S (S (S (S (S (S (S (S (S
    (S (S (S (S (S (S (S (S (S (S (S (S (S (S (S (S (S (S (S (S (S (S (S (S
    (S (S (S (S (S (S (S (S (S (S (S (S (S (S (S (S (S (S (S (S (S (S (S (S
    (S (S
    O))))))))))))))))))))))))))))))))))))))))))))))))))))))))))))))))))))))))))

(** val fold_sep : n list **)

let fold_sep =
  (Npos (XI (XO (XI XH)))) :: ((Npos (XO (XI (XO XH)))) :: ((Npos (XO (XO (XO
    (XO (XO XH)))))) :: []))

(** val ulen : n -> nat **)

let ulen c =
  if N.ltb c (Npos (XO (XO (XO (XO (XO (XO (XO XH))))))))
  then S O
  else if N.ltb c (Npos (XO (XO (XO (XO (XO (XO (XO (XO (XO (XO (XO
            XH))))))))))))
       then S (S O)
       else if N.ltb c (Npos (XO (XO (XO (XO (XO (XO (XO (XO (XO (XO (XO (XO
                 (XO (XO (XO (XO XH)))))))))))))))))
            then S (S (S O))
            else S (S (S (S O)))

(** val is_ascii : n list -> bool **)

let is_ascii l =
  forallb (fun c -> N.ltb c (Npos (XO (XO (XO (XO (XO (XO (XO XH))))))))) l

(** val fold_ascii : nat -> n list -> nat -> n list -> n list **)

let rec fold_ascii lim1 sep k = function
| [] -> []
| c :: r ->
  if Nat.eqb k lim1
  then app sep (c :: (fold_ascii lim1 sep (S O) r))
  else c :: (fold_ascii lim1 sep (S k) r)

(** val fold_gen : nat -> n list -> nat -> n list -> n list **)

let rec fold_gen limit sep bc = function
| [] -> []
| c :: r ->
  let n0 = ulen c in
  if Nat.leb limit (add bc n0)
  then app sep (c :: (fold_gen limit sep n0 r))
  else c :: (fold_gen limit sep (add bc n0) r)

(** val foldline_with : nat -> n list -> n list -> n list **)

let foldline_with limit sep l =
  if is_ascii l
  then fold_ascii (sub limit (S O)) sep O l
  else fold_gen limit sep O l

(** val foldline : n list -> n list **)

let foldline l =
  foldline_with fold_limit fold_sep l

(** val after_nl : n list -> nat option **)

let rec after_nl = function
| [] -> None
| c :: r ->
  if (||) (N.eqb c (Npos (XO (XO (XO (XO (XO XH)))))))
       (N.eqb c (Npos (XI (XO (XO XH)))))
  then Some (S O)
  else if N.eqb c (Npos (XO (XI (XO XH))))
       then option_map (fun x -> S x) (after_nl r)
       else if N.eqb c (Npos (XI (XO (XI XH))))
            then (match r with
                  | [] -> None
                  | d :: r' ->
                    if N.eqb d (Npos (XO (XI (XO XH))))
                    then option_map (fun n0 -> S (S n0)) (after_nl r')
                    else None)
            else None

(** val fold_match_len : n list -> nat **)

let fold_match_len = function
| [] -> O
| c :: r ->
  if N.eqb c (Npos (XO (XI (XO XH))))
  then (match after_nl r with
        | Some n0 -> S n0
        | None -> O)
  else if N.eqb c (Npos (XI (XO (XI XH))))
       then (match r with
             | [] -> O
             | d :: r' ->
               if N.eqb d (Npos (XO (XI (XO XH))))
               then (match after_nl r' with
                     | Some n0 -> S (S n0)
                     | None -> O)
               else O)
       else O

(** val unfold_aux : nat -> n list -> n list **)

let rec unfold_aux skip l = match l with
| [] -> []
| c :: r ->
  (match skip with
   | O ->
     (match fold_match_len l with
      | O -> c :: (unfold_aux O r)
      | S k -> unfold_aux k r)
   | S k -> unfold_aux k r)

(** val unfold : n list -> n list **)

let unfold l =
  unfold_aux O l

(** val rfc_fold_here : n list -> bool **)

let rfc_fold_here = function
| [] -> false
| a :: l0 ->
  (match l0 with
   | [] -> false
   | b :: l1 ->
     (match l1 with
      | [] -> false
      | c :: _ ->
        (&&)
          ((&&) (N.eqb a (Npos (XI (XO (XI XH)))))
            (N.eqb b (Npos (XO (XI (XO XH))))))
          ((||) (N.eqb c (Npos (XO (XO (XO (XO (XO XH)))))))
            (N.eqb c (Npos (XI (XO (XO XH))))))))

(** val rfc_unfold_aux : nat -> n list -> n list **)

let rec rfc_unfold_aux skip l = match l with
| [] -> []
| c :: r ->
  (match skip with
   | O ->
     if rfc_fold_here l
     then rfc_unfold_aux (S (S O)) r
     else c :: (rfc_unfold_aux O r)
   | S k -> rfc_unfold_aux k r)

(** val rfc_unfold : n list -> n list **)

let rfc_unfold l =
  rfc_unfold_aux O l

(** val cons_head : n -> n list list -> n list list **)

let cons_head c = function
| [] -> (c :: []) :: []
| h :: t -> (c :: h) :: t

(** val phys_lines : n list -> n list list **)

let rec phys_lines = function
| [] -> [] :: []
| c :: r ->
  (match r with
   | [] -> cons_head c (phys_lines r)
   | d :: r' ->
     if (&&) (N.eqb c (Npos (XI (XO (XI XH)))))
          (N.eqb d (Npos (XO (XI (XO XH)))))
     then [] :: (phys_lines r')
     else cons_head c (phys_lines r))

(** val is : n list -> string -> bool **)

let is f name =
  str_eqb f (s2l name)

(** val dispatch : n list -> jv -> jv **)

let dispatch f a =
  if is f (String ((Ascii (false, true, true, false, false, true, true,
       false)), (String ((Ascii (true, true, true, true, false, true, true,
       false)), (String ((Ascii (false, false, true, true, false, true, true,
       false)), (String ((Ascii (false, false, true, false, false, true,
       true, false)), (String ((Ascii (false, false, true, true, false, true,
       true, false)), (String ((Ascii (true, false, false, true, false, true,
       true, false)), (String ((Ascii (false, true, true, true, false, true,
       true, false)), (String ((Ascii (true, false, true, false, false, true,
       true, false)), EmptyString))))))))))))))))
  then (match a with
        | JS l -> JS (foldline l)
        | _ -> junsupported)
  else if is f (String ((Ascii (true, false, true, false, true, true, true,
            false)), (String ((Ascii (false, true, true, true, false, true,
            true, false)), (String ((Ascii (false, true, true, false, false,
            true, true, false)), (String ((Ascii (true, true, true, true,
            false, true, true, false)), (String ((Ascii (false, false, true,
            true, false, true, true, false)), (String ((Ascii (false, false,
            true, false, false, true, true, false)), EmptyString))))))))))))
       then (match a with
             | JS l -> JS (unfold l)
             | _ -> junsupported)
       else if is f (String ((Ascii (false, true, false, false, true, true,
                 true, false)), (String ((Ascii (false, true, true, false,
                 false, true, true, false)), (String ((Ascii (true, true,
                 false, false, false, true, true, false)), (String ((Ascii
                 (true, true, true, true, true, false, true, false)), (String
                 ((Ascii (true, false, true, false, true, true, true,
                 false)), (String ((Ascii (false, true, true, true, false,
                 true, true, false)), (String ((Ascii (false, true, true,
                 false, false, true, true, false)), (String ((Ascii (true,
                 true, true, true, false, true, true, false)), (String
                 ((Ascii (false, false, true, true, false, true, true,
                 false)), (String ((Ascii (false, false, true, false, false,
                 true, true, false)), EmptyString))))))))))))))))))))
            then (match a with
                  | JS l -> JS (rfc_unfold l)
                  | _ -> junsupported)
            else if is f (String ((Ascii (false, false, false, false, true,
                      true, true, false)), (String ((Ascii (false, false,
                      false, true, false, true, true, false)), (String
                      ((Ascii (true, false, false, true, true, true, true,
                      false)), (String ((Ascii (true, true, false, false,
                      true, true, true, false)), (String ((Ascii (true, true,
                      true, true, true, false, true, false)), (String ((Ascii
                      (false, false, true, true, false, true, true, false)),
                      (String ((Ascii (true, false, false, true, false, true,
                      true, false)), (String ((Ascii (false, true, true,
                      true, false, true, true, false)), (String ((Ascii
                      (true, false, true, false, false, true, true, false)),
                      (String ((Ascii (true, true, false, false, true, true,
                      true, false)), EmptyString))))))))))))))))))))
                 then (match a with
                       | JS l -> jstrs (phys_lines l)
                       | _ -> junsupported)
                 else jtag (String ((Ascii (false, true, true, true, false,
                        true, true, false)), (String ((Ascii (true, true,
                        true, true, false, true, true, false)), (String
                        ((Ascii (false, true, true, false, false, true, true,
                        false)), (String ((Ascii (true, false, true, false,
                        true, true, true, false)), (String ((Ascii (false,
                        true, true, true, false, true, true, false)), (String
                        ((Ascii (true, true, false, false, false, true, true,
                        false)), EmptyString)))))))))))) []
