
type nat =
| O
| S of nat

val option_map : ('a1 -> 'a2) -> 'a1 option -> 'a2 option

val app : 'a1 list -> 'a1 list -> 'a1 list

type comparison =
| Eq
| Lt
| Gt

val add : nat -> nat -> nat

val sub : nat -> nat -> nat

module Nat :
 sig
  val eqb : nat -> nat -> bool

  val leb : nat -> nat -> bool
 end

val map : ('a1 -> 'a2) -> 'a1 list -> 'a2 list

val forallb : ('a1 -> bool) -> 'a1 list -> bool

type positive =
| XI of positive
| XO of positive
| XH

type n =
| N0
| Npos of positive

type z =
| Z0
| Zpos of positive
| Zneg of positive

module Pos :
 sig
  val succ : positive -> positive

  val add : positive -> positive -> positive

  val add_carry : positive -> positive -> positive

  val mul : positive -> positive -> positive

  val compare_cont : comparison -> positive -> positive -> comparison

  val compare : positive -> positive -> comparison

  val eqb : positive -> positive -> bool
 end

module N :
 sig
  val add : n -> n -> n

  val mul : n -> n -> n

  val compare : n -> n -> comparison

  val eqb : n -> n -> bool

  val ltb : n -> n -> bool
 end

type ascii =
| Ascii of bool * bool * bool * bool * bool * bool * bool * bool

val n_of_digits : bool list -> n

val n_of_ascii : ascii -> n

type string =
| EmptyString
| String of ascii * string

val s2l : string -> n list

val str_eqb : n list -> n list -> bool

type jv =
| JZ of z
| JS of n list
| JL of jv list

val jtag : string -> jv list -> jv

val junsupported : jv

val jstrs : n list list -> jv

val fold_limit : nat

val fold_sep : n list

val ulen : n -> nat

val is_ascii : n list -> bool

val fold_ascii : nat -> n list -> nat -> n list -> n list

val fold_gen : nat -> n list -> nat -> n list -> n list

val foldline_with : nat -> n list -> n list -> n list

val foldline : n list -> n list

val after_nl : n list -> nat option

val fold_match_len : n list -> nat

val unfold_aux : nat -> n list -> n list

val unfold : n list -> n list

val rfc_fold_here : n list -> bool

val rfc_unfold_aux : nat -> n list -> n list

val rfc_unfold : n list -> n list

val cons_head : n -> n list list -> n list list

val phys_lines : n list -> n list list

val is : n list -> string -> bool

val dispatch : n list -> jv -> jv
