(* Replace chains (x.replace(a,b).replace(c,d)...) as streaming machines, the sequential
   whole-string semantics, the product-state equivalence checker and the (unverified)
   explorer that finds its certificates.  Definitions only; proofs are in
   Proofs/ChainProofs.v. *)
Require Import Lib.Base.
From Coq Require Import FMapPositive Arith.

Definition stage := (list N * list N)%type.    (* (pattern, replacement) *)
Definition chain := list stage.

(* ------------------------------------------------------------------ Python's str.replace *)
(* left-to-right, non-overlapping; [skip] characters of a matched pattern are still to drop *)
Fixpoint py_replace_aux (pat rep : list N) (skip : nat) (s : list N) : list N :=
  match s with
  | [] => []
  | c :: s' =>
      match skip with
      | S k => py_replace_aux pat rep k s'
      | O => if is_prefix pat s then rep ++ py_replace_aux pat rep (length pat - 1) s'
             else c :: py_replace_aux pat rep 0 s'
      end
  end.
Definition py_replace (pat rep s : list N) : list N := py_replace_aux pat rep 0 s.

(* ------------------------------------------------------------------ one streaming stage *)
(* [lsp pat l]: emit the shortest non-empty prefix of l whose removal leaves a prefix of pat *)
Fixpoint lsp (pat l : list N) : list N * list N :=
  match l with
  | [] => ([], [])
  | x :: l' => if is_prefix l' pat then ([x], l')
               else let '(e, p) := lsp pat l' in (x :: e, p)
  end.

(* state: the pending proper prefix of the pattern.  Returns (pending', output). *)
Definition stage_step (st : stage) (pend : list N) (a : N) : list N * list N :=
  let '(pat, rep) := st in
  let p2 := pend ++ [a] in
  if str_eqb p2 pat then ([], rep)
  else if is_prefix p2 pat then (p2, [])
  else let '(e, p) := lsp pat p2 in (p, e).

Fixpoint stage_feed (st : stage) (pend : list N) (cs : list N) : list N * list N :=
  match cs with
  | [] => (pend, [])
  | c :: cs' => let '(p1, o1) := stage_step st pend c in
                let '(p2, o2) := stage_feed st p1 cs' in (p2, o1 ++ o2)
  end.

(* whole-string run of one stage: feed, then flush the pending prefix *)
Definition stage_run (st : stage) (w : list N) : list N :=
  let '(p, o) := stage_feed st [] w in o ++ p.

(* the semantics the models use: the stages applied one after the other to whole strings *)
Definition seq_run (ch : chain) (w : list N) : list N :=
  fold_left (fun s st => stage_run st s) ch w.

(* ------------------------------------------------------------------ the chain as one machine *)
Fixpoint chain_feed (ch : chain) (q : list (list N)) (cs : list N) : list (list N) * list N :=
  match ch, q with
  | st :: ch', p :: q' => let '(p', o) := stage_feed st p cs in
                          let '(q'', o') := chain_feed ch' q' o in (p' :: q'', o')
  | _, _ => ([], cs)
  end.

Fixpoint chain_flush_from (ch : chain) (q : list (list N)) (cs : list N) : list N :=
  match ch, q with
  | st :: ch', p :: q' => let '(p', o) := stage_feed st p cs in chain_flush_from ch' q' (o ++ p')
  | _, _ => cs
  end.

Fixpoint run_from (ch : chain) (q : list (list N)) (w : list N) : list N :=
  match w with
  | [] => chain_flush_from ch q []
  | a :: w' => let '(q', o) := chain_feed ch q [a] in o ++ run_from ch q' w'
  end.

Definition init_q (ch : chain) : list (list N) := map (fun _ => []) ch.
Definition run_chain (ch : chain) (w : list N) : list N := run_from ch (init_q ch) w.

(* ------------------------------------------------------------------ substrings and the guard *)
Fixpoint has_sub (f w : list N) : bool :=
  is_prefix f w || match w with [] => false | _ :: w' => has_sub f w' end.

Definition avoids (forb : list (list N)) (w : list N) : bool :=
  forallb (fun f => negb (has_sub f w)) forb.

Definition is_suffix (f l : list N) : bool := is_prefix (rev f) (rev l).
Definition lastn (k : nat) (l : list N) : list N := rev (firstn k (rev l)).

Fixpoint strs_eqb (a b : list (list N)) : bool :=
  match a, b with
  | [], [] => true
  | x :: a', y :: b' => str_eqb x y && strs_eqb a' b'
  | _, _ => false
  end.

(* remove the common prefix *)
Fixpoint strip (x y : list N) : list N * list N :=
  match x, y with
  | a :: x', b :: y' => if a =? b then strip x' y' else (x, y)
  | _, _ => (x, y)
  end.

Fixpoint all2 {A B : Type} (f : A -> B -> bool) (la : list A) (lb : list B) : bool :=
  match la, lb with
  | [], [] => true
  | a :: la', b :: lb' => f a b && all2 f la' lb'
  | _, _ => false
  end.

Record pst := { pp : list (list N); ps : list (list N); pg : list N; dP : list N; dS : list N }.

Definition pst_eqb (a b : pst) : bool :=
  strs_eqb (pp a) (pp b) && strs_eqb (ps a) (ps b) && str_eqb (pg a) (pg b)
  && str_eqb (dP a) (dP b) && str_eqb (dS a) (dS b).

Definition cert := list (pst * list nat).

Inductive xres := XDone (c : cert) | XCounter (w : list N) | XFuel.

Section Bisim.
  (* "for every w avoiding the substrings [forb]: run_chain P w = run_chain Q w" *)
  Variables (P Q : chain) (forb : list (list N)) (crit : list N).

  Definition maxlen : nat := fold_right (fun f m => Nat.max (length f) m) O forb.

  (* window = the last (maxlen-1) critical characters read since the last non-critical one *)
  Definition gstep (g : list N) (a : N) : option (list N) :=
    if mem_chr a crit then
      let g2 := g ++ [a] in
      if existsb (fun f => is_suffix f g2) forb then None
      else Some (lastn (maxlen - 1) g2)
    else Some [].

  Fixpoint gaccepts (g : list N) (w : list N) : bool :=
    match w with
    | [] => true
    | a :: w' => match gstep g a with None => false | Some g' => gaccepts g' w' end
    end.

  Definition init_pst : pst :=
    {| pp := init_q P; ps := init_q Q; pg := []; dP := []; dS := [] |}.

  Definition succ (r : pst) (a : N) : option pst :=
    match gstep (pg r) a with
    | None => None
    | Some g' =>
        let '(p', oP) := chain_feed P (pp r) [a] in
        let '(s', oS) := chain_feed Q (ps r) [a] in
        let '(u, v) := strip (dP r ++ oP) (dS r ++ oS) in
        Some {| pp := p'; ps := s'; pg := g'; dP := u; dS := v |}
    end.

  Definition final_ok (r : pst) : bool :=
    str_eqb (dP r ++ chain_flush_from P (pp r) []) (dS r ++ chain_flush_from Q (ps r) []).

  Definition wf (r : pst) : bool :=
    (length (pp r) =? length P)%nat && (length (ps r) =? length Q)%nat.

  (* every character outside [crit] occurs in no pattern *)
  Definition pats_crit : bool :=
    forallb (fun st : stage => forallb (fun c => mem_chr c crit) (fst st)) (P ++ Q).

  Definition succ_ok (c : cert) (r : pst) (a : N) (idx : nat) : bool :=
    match succ r a with
    | None => true
    | Some r' => match nth_error c idx with
                 | Some (r'', _) => pst_eqb r' r''
                 | None => false
                 end
    end.

  Definition check (c : cert) : bool :=
    pats_crit
    && match c with (r0, _) :: _ => pst_eqb r0 init_pst | [] => false end
    && forallb (fun e : pst * list nat => let '(r, idxs) := e in
                  wf r && final_ok r && all2 (succ_ok c r) crit idxs) c.

  (* ---------------------------------------------------------------- explorer (unverified) *)
  Definition hmask : N := 1073741823.
  Definition hash_str (h : N) (s : list N) : N :=
    fold_left (fun h c => N.land (h * 33 + c + 1) hmask) s (N.land (h * 37 + 11) hmask).
  Definition hash_strs (h : N) (l : list (list N)) : N :=
    fold_left hash_str l (N.land (h * 41 + 13) hmask).
  Definition hash_pst (r : pst) : positive :=
    N.succ_pos (hash_str (hash_str (hash_str (hash_strs (hash_strs 5 (pp r)) (ps r)) (pg r)) (dP r)) (dS r)).

  Definition table := PositiveMap.t (list (pst * nat)).

  Fixpoint bucket_find (r : pst) (b : list (pst * nat)) : option nat :=
    match b with
    | [] => None
    | (r', i) :: b' => if pst_eqb r r' then Some i else bucket_find r b'
    end.

  Record xacc := { xtbl : table; xcnt : nat; xback : list (pst * list N);
                   xidx : list nat; xerr : option (list N) }.

  Definition is_nil (l : list N) : bool := match l with [] => true | _ => false end.

  (* process one critical character a from state r reached by (reversed) word *)
  Definition xstep (r : pst) (word : list N) (acc : xacc) (a : N) : xacc :=
    match xerr acc with
    | Some _ => acc
    | None =>
        match succ r a with
        | None => {| xtbl := xtbl acc; xcnt := xcnt acc; xback := xback acc;
                     xidx := O :: xidx acc; xerr := None |}
        | Some r' =>
            if negb (is_nil (dP r')) && negb (is_nil (dS r')) then
              {| xtbl := xtbl acc; xcnt := xcnt acc; xback := xback acc; xidx := xidx acc;
                 xerr := Some (a :: word) |}
            else
              let h := hash_pst r' in
              let b := match PositiveMap.find h (xtbl acc) with Some b => b | None => [] end in
              match bucket_find r' b with
              | Some i => {| xtbl := xtbl acc; xcnt := xcnt acc; xback := xback acc;
                             xidx := i :: xidx acc; xerr := None |}
              | None =>
                  {| xtbl := PositiveMap.add h ((r', xcnt acc) :: b) (xtbl acc);
                     xcnt := S (xcnt acc);
                     xback := (r', a :: word) :: xback acc;
                     xidx := xcnt acc :: xidx acc; xerr := None |}
              end
        end
    end.

  Fixpoint xloop (fuel : nat) (tbl : table) (cnt : nat) (front back : list (pst * list N))
           (acc : list (pst * list nat)) : xres :=
    match fuel with
    | O => XFuel
    | S fuel' =>
        match front with
        | [] => match back with
                | [] => XDone (rev acc)
                | _ => xloop fuel' tbl cnt (rev back) [] acc
                end
        | (r, word) :: front' =>
            if negb (final_ok r) then XCounter (rev word)
            else
              let a0 := {| xtbl := tbl; xcnt := cnt; xback := back; xidx := []; xerr := None |} in
              let a1 := fold_left (xstep r word) crit a0 in
              match xerr a1 with
              | Some w => XCounter (rev w)
              | None => xloop fuel' (xtbl a1) (xcnt a1) front' (xback a1) ((r, rev (xidx a1)) :: acc)
              end
        end
    end.

  Definition explore (fuel : nat) : xres :=
    xloop fuel (PositiveMap.add (hash_pst init_pst) [(init_pst, O)] (PositiveMap.empty _))
          1 [(init_pst, [])] [] [].

  Definition cert_of (fuel : nat) : cert :=
    match explore fuel with XDone c => c | _ => [] end.
End Bisim.

Fixpoint dedup (l : list N) : list N :=
  match l with [] => [] | x :: r => if mem_chr x r then dedup r else x :: dedup r end.

(* the critical alphabet of an instance: every character of a pattern or forbidden word *)
Definition crit_of (P Q : chain) (forb : list (list N)) : list N :=
  dedup (concat (map fst (P ++ Q)) ++ concat forb).
