(* Base definitions shared by every model: characters are code points (N), strings are
   lists of them, and [jv] is the universal wire value through which the extracted model
   talks to the correspondence harness. Definitions only. *)
From Coq Require Export List NArith ZArith Bool.
From Coq Require Import Ascii String.
Export ListNotations.
Export String.StringSyntax.
Open Scope N_scope.

Notation chr := N (only parsing).
Notation str := (list N) (only parsing).

(* Coq string literal -> code point list (ASCII only; used for names and constants). *)
Fixpoint s2l (s : string) : str :=
  match s with
  | EmptyString => []
  | String a r => N_of_ascii a :: s2l r
  end.

Arguments s2l _%string_scope.

Fixpoint str_eqb (a b : str) : bool :=
  match a, b with
  | [], [] => true
  | x :: a', y :: b' => N.eqb x y && str_eqb a' b'
  | _, _ => false
  end.

(* [is_prefix p l]: p is a prefix of l *)
Fixpoint is_prefix (p l : str) : bool :=
  match p, l with
  | [], _ => true
  | x :: p', y :: l' => N.eqb x y && is_prefix p' l'
  | _ :: _, [] => false
  end.

Fixpoint mem_chr (c : chr) (l : str) : bool :=
  match l with [] => false | x :: r => N.eqb c x || mem_chr c r end.

(* Universal wire value. *)
Inductive jv : Type :=
| JZ (z : Z)
| JS (s : str)
| JL (l : list jv).

Definition jbool (b : bool) : jv := JZ (if b then 1%Z else 0%Z).
Definition jnat (n : nat) : jv := JZ (Z.of_nat n).
Definition jN (n : N) : jv := JZ (Z.of_N n).
Definition jtag (t : string) (args : list jv) : jv := JL (JS (s2l t) :: args).
Arguments jtag _%string_scope _.
Definition jerr (kind : string) : jv := jtag "err" [JS (s2l kind)].
Arguments jerr _%string_scope.
Definition junsupported : jv := jtag "unsupported" [].
Definition jstrs (l : list str) : jv := JL (map JS l).

Definition jv_str (v : jv) : option str := match v with JS s => Some s | _ => None end.
Definition jv_Z (v : jv) : option Z := match v with JZ z => Some z | _ => None end.
Definition jv_list (v : jv) : option (list jv) := match v with JL l => Some l | _ => None end.

Fixpoint jv_strs (l : list jv) : option (list str) :=
  match l with
  | [] => Some []
  | JS s :: r => match jv_strs r with Some r' => Some (s :: r') | None => None end
  | _ => None
  end.
