(* Lemmas about the shared codec pieces: slicing, int(str) on digit strings, str(int) through
   the standard library's decimal conversion (DecimalZ.of_to), zero padding. *)
Require Import Lib.Base Model.Params Model.CodecBase.
From Coq Require Import ZArith List Bool Lia ZifyBool.
From Coq Require Decimal DecimalZ DecimalPos.
Local Open Scope Z_scope.

(* ---------------------------------------------------------------- slicing *)
Lemma firstn_app_len {A} (a r : list A) n : List.length a = n -> firstn n (a ++ r) = a.
Proof. intros <-. rewrite firstn_app, Nat.sub_diag, firstn_all. simpl. apply app_nil_r. Qed.

Lemma skipn_app_len {A} (a r : list A) n : List.length a = n -> skipn n (a ++ r) = r.
Proof. intros <-. rewrite skipn_app, Nat.sub_diag, skipn_all. reflexivity. Qed.

Lemma firstn_len {A} (a : list A) n : List.length a = n -> firstn n a = a.
Proof. intros <-. apply firstn_all. Qed.

(* ---------------------------------------------------------------- digits *)
Lemma is_digit_range c : is_digit c = true <-> (48 <= c <= 57)%N.
Proof. unfold is_digit. lia. Qed.

Lemma digit_not_space c : is_digit c = true -> is_space c = false.
Proof. unfold is_digit, is_space. lia. Qed.

Lemma digits_ascii ds : forallb is_digit ds = true -> all_ascii ds = true.
Proof.
  unfold all_ascii. induction ds as [|c r IH]; simpl; auto.
  intros H. apply andb_true_iff in H as [Hc Hr]. rewrite IH by auto.
  apply is_digit_range in Hc. rewrite andb_true_r. apply N.ltb_lt. lia.
Qed.

Lemma forallb_rev {A} (p : A -> bool) l : forallb p (rev l) = forallb p l.
Proof.
  induction l as [|x r IH]; simpl; auto.
  rewrite forallb_app, IH. simpl. rewrite andb_true_r. apply andb_comm.
Qed.

Lemma lstrip_digits ds : forallb is_digit ds = true -> lstrip_sp ds = ds.
Proof.
  destruct ds as [|c r]; simpl; auto. intros H. apply andb_true_iff in H as [Hc _].
  now rewrite (digit_not_space _ Hc).
Qed.

Lemma strip_digits ds : forallb is_digit ds = true -> strip_sp ds = ds.
Proof.
  intros H. unfold strip_sp. rewrite (lstrip_digits ds H).
  rewrite lstrip_digits by (now rewrite forallb_rev). apply rev_involutive.
Qed.

Lemma int_body_digits ds : forall acc p n,
  forallb is_digit ds = true -> (ds <> [] \/ p = true) ->
  int_body ds acc p n = Some (digs_val ds acc, n + Z.of_nat (List.length ds)).
Proof.
  induction ds as [|c r IH]; intros acc p n H Hne.
  - destruct Hne as [Hne | ->]; [congruence|]. simpl. f_equal. f_equal. lia.
  - simpl in H. apply andb_true_iff in H as [Hc Hr]. cbn [int_body digs_val]. rewrite Hc.
    rewrite IH by auto. f_equal. f_equal. cbn [List.length]. lia.
Qed.

Lemma py_int_digits ds :
  ds <> [] -> forallb is_digit ds = true -> Z.of_nat (List.length ds) <= 4300 ->
  py_int ds = Ok (digs_val ds 0).
Proof.
  intros Hne H Hlen. unfold py_int. rewrite (digits_ascii ds H). cbn [negb].
  rewrite (strip_digits ds H).
  destruct ds as [|c r]; [congruence|].
  pose proof H as H'. simpl in H'. apply andb_true_iff in H' as [Hc _]. apply is_digit_range in Hc.
  replace (c =? 45)%N with false by lia. replace (c =? 43)%N with false by lia.
  rewrite int_body_digits by auto.
  unfold int_max_str_digits. replace (4300 <? 0 + Z.of_nat (List.length (c :: r))) with false by lia.
  reflexivity.
Qed.

Lemma strip_sign_digits s ds :
  (s = 45 \/ s = 43)%N -> ds <> [] -> forallb is_digit ds = true -> strip_sp (s :: ds) = s :: ds.
Proof.
  intros Hs Hne H. unfold strip_sp.
  assert (Hsp : is_space s = false) by (unfold is_space; lia).
  cbn [lstrip_sp]. rewrite Hsp. cbn [rev].
  assert (Hl : lstrip_sp (rev ds ++ [s]) = rev ds ++ [s]).
  { assert (Hr : forallb is_digit (rev ds) = true) by (now rewrite forallb_rev).
    destruct (rev ds) as [|c r] eqn:E.
    - apply (f_equal (@rev N)) in E. rewrite rev_involutive in E. simpl in E. congruence.
    - simpl in Hr. apply andb_true_iff in Hr as [Hc _]. simpl. now rewrite (digit_not_space _ Hc). }
  rewrite Hl. rewrite rev_app_distr. simpl. now rewrite rev_involutive.
Qed.

Lemma py_int_signed (s : N) ds :
  (s = 45 \/ s = 43)%N -> ds <> [] -> forallb is_digit ds = true -> Z.of_nat (List.length ds) <= 4300 ->
  py_int (s :: ds) = Ok (if (s =? 45)%N then - digs_val ds 0 else digs_val ds 0).
Proof.
  intros Hs Hne H Hlen. unfold py_int.
  assert (Ha : all_ascii (s :: ds) = true).
  { unfold all_ascii. cbn [forallb]. fold (all_ascii ds). rewrite (digits_ascii ds H).
    rewrite andb_true_r. apply N.ltb_lt. lia. }
  rewrite Ha. cbn [negb]. rewrite strip_sign_digits by auto.
  destruct Hs as [-> | ->]; cbn [N.eqb Pos.eqb];
    rewrite int_body_digits by auto; unfold int_max_str_digits;
    replace (4300 <? 0 + Z.of_nat (List.length ds)) with false by lia; reflexivity.
Qed.

Lemma digs_val_app a b acc : digs_val (a ++ b) acc = digs_val b (digs_val a acc).
Proof. revert acc. induction a as [|c r IH]; intros acc; simpl; auto. Qed.

Lemma ndigits_digits ds : forallb is_digit ds = true -> ndigits ds = Z.of_nat (List.length ds).
Proof.
  unfold ndigits. intros H. f_equal. f_equal.
  induction ds as [|c r IH]; simpl in *; auto.
  apply andb_true_iff in H as [Hc Hr]. rewrite Hc. simpl. now rewrite IH.
Qed.

(* ---------------------------------------------------------------- span_digits *)
Lemma span_digits_app ds c r :
  forallb is_digit ds = true -> is_digit c = false -> span_digits (ds ++ c :: r) = (ds, c :: r).
Proof.
  intros H Hc. induction ds as [|d t IH]; simpl in *.
  - now rewrite Hc.
  - apply andb_true_iff in H as [Hd Ht]. rewrite Hd, IH by auto. reflexivity.
Qed.

Lemma span_digits_all ds : forallb is_digit ds = true -> span_digits ds = (ds, []).
Proof.
  intros H. induction ds as [|d t IH]; simpl in *; auto.
  apply andb_true_iff in H as [Hd Ht]. rewrite Hd, IH by auto. reflexivity.
Qed.

Lemma span_digits_spec s : forall ds r, span_digits s = (ds, r) ->
  s = ds ++ r /\ forallb is_digit ds = true /\ match r with c :: _ => is_digit c = false | [] => True end.
Proof.
  induction s as [|c t IH]; intros ds r H; simpl in H.
  - inversion H. auto.
  - destruct (is_digit c) eqn:Hc.
    + destruct (span_digits t) as [d' r'] eqn:E. inversion H; subst.
      destruct (IH d' r eq_refl) as (-> & Hd & Hr). simpl. rewrite Hc. auto.
    + inversion H; subst. simpl. auto.
Qed.

(* ---------------------------------------------------------------- str(int) *)
Lemma uint_chars_digits u : forallb is_digit (uint_chars u) = true.
Proof. induction u; simpl; auto. Qed.

Lemma digs_val_uint_acc u : forall p,
  digs_val (uint_chars u) (Zpos p) = Zpos (Pos.of_uint_acc u p).
Proof.
  induction u; intros p; cbn [uint_chars digs_val Pos.of_uint_acc]; try reflexivity;
    rewrite <- IHu; f_equal; unfold dval; lia.
Qed.

Lemma digs_val_uint u : digs_val (uint_chars u) 0 = Z.of_N (Pos.of_uint u).
Proof.
  induction u; cbn [uint_chars digs_val Pos.of_uint]; try reflexivity;
    try (exact IHu);
    match goal with |- digs_val _ ?a = _ => change a with (Zpos (Z.to_pos a)) end;
    unfold dval; simpl; rewrite digs_val_uint_acc; reflexivity.
Qed.

Lemma uint_chars_nonnil u : u <> Decimal.Nil -> uint_chars u <> [].
Proof. destruct u; simpl; congruence. Qed.

(* for z >= 0, str(z) is a non-empty digit string whose value is z *)
Lemma str_of_Z_nonneg z : 0 <= z ->
  str_of_Z z <> [] /\ forallb is_digit (str_of_Z z) = true /\ digs_val (str_of_Z z) 0 = z.
Proof.
  intros Hz. unfold str_of_Z.
  pose proof (DecimalZ.of_to z) as Hrt.
  destruct z as [|p|p]; try lia; cbn [Z.to_int] in *.
  - repeat split; discriminate.
  - repeat split.
    + apply uint_chars_nonnil, DecimalPos.Unsigned.to_uint_nonnil.
    + apply uint_chars_digits.
    + rewrite digs_val_uint. exact Hrt.
Qed.

Lemma str_of_Z_neg z : z < 0 -> str_of_Z z = 45%N :: str_of_Z (- z).
Proof. intros Hz. destruct z; try lia. reflexivity. Qed.

(* ---------------------------------------------------------------- enumeration over 0..n-1 *)
Lemma forallb_seq_lt (P : nat -> bool) n :
  forallb P (seq 0 n) = true -> forall k, (k < n)%nat -> P k = true.
Proof.
  intros H k Hk. rewrite forallb_forall in H. apply H. apply in_seq. lia.
Qed.

Lemma forall_Z_below (P : Z -> bool) n :
  forallb (fun k => P (Z.of_nat k)) (seq 0 n) = true -> forall z, 0 <= z < Z.of_nat n -> P z = true.
Proof.
  intros H z Hz. rewrite <- (Z2Nat.id z) by lia.
  apply (forallb_seq_lt (fun k => P (Z.of_nat k)) n H). lia.
Qed.

(* ---------------------------------------------------------------- zero padding, widths 2 and 4 *)
Definition chk_pad2 (z : Z) : bool :=
  match zpad 2 z with
  | [a; b] => is_digit a && is_digit b && (num2 a b =? z)
  | _ => false
  end.
Definition chk_pad4 (z : Z) : bool :=
  match zpad 4 z with
  | [a; b; c; d] => is_digit a && is_digit b && is_digit c && is_digit d && (num4 a b c d =? z)
  | _ => false
  end.

Lemma chk_pad2_all : forallb (fun k => chk_pad2 (Z.of_nat k)) (seq 0 100) = true.
Proof. vm_compute. reflexivity. Qed.
Lemma chk_pad4_all : forallb (fun k => chk_pad4 (Z.of_nat k)) (seq 0 (100 * 100)) = true.
Proof. vm_compute. reflexivity. Qed.

Lemma zpad2_spec z : 0 <= z < 100 ->
  exists a b, zpad 2 z = [a; b] /\ is_digit a = true /\ is_digit b = true /\ num2 a b = z.
Proof.
  intros Hz. pose proof (forall_Z_below chk_pad2 100 chk_pad2_all z ltac:(lia)) as H.
  unfold chk_pad2 in H. destruct (zpad 2 z) as [|a [|b [|]]]; try discriminate.
  exists a, b. apply andb_true_iff in H as [H H3]. apply andb_true_iff in H as [H1 H2].
  repeat split; auto. lia.
Qed.

Lemma zpad4_spec z : 0 <= z < 10000 ->
  exists a b c d, zpad 4 z = [a; b; c; d] /\ is_digit a = true /\ is_digit b = true
                  /\ is_digit c = true /\ is_digit d = true /\ num4 a b c d = z.
Proof.
  intros Hz. pose proof (forall_Z_below chk_pad4 (100 * 100) chk_pad4_all z ltac:(lia)) as H.
  unfold chk_pad4 in H. destruct (zpad 4 z) as [|a [|b [|c [|d [|]]]]]; try discriminate.
  exists a, b, c, d. apply andb_true_iff in H as [H H5]. apply andb_true_iff in H as [H H4].
  apply andb_true_iff in H as [H H3]. apply andb_true_iff in H as [H1 H2].
  repeat split; auto. lia.
Qed.

(* int() of two / four digit characters *)
Lemma py_int_2 a b : is_digit a = true -> is_digit b = true -> py_int [a; b] = Ok (num2 a b).
Proof.
  intros Ha Hb. rewrite py_int_digits; [|discriminate| simpl; now rewrite Ha, Hb | simpl; lia].
  unfold num2. cbn [digs_val]. f_equal; ring.
Qed.
Lemma py_int_4 a b c d : is_digit a = true -> is_digit b = true -> is_digit c = true -> is_digit d = true ->
  py_int [a; b; c; d] = Ok (num4 a b c d).
Proof.
  intros Ha Hb Hc Hd. rewrite py_int_digits; [|discriminate| simpl; now rewrite Ha, Hb, Hc, Hd | simpl; lia].
  unfold num4. cbn [digs_val]. f_equal; ring.
Qed.

Lemma digit_ascii c : is_digit c = true -> (c <? 128)%N = true.
Proof. unfold is_digit. lia. Qed.

(* ---------------------------------------------------------------- how long str(n) is *)
Lemma digs_val_lower ds : forall acc, 0 <= acc ->
  acc * 10 ^ Z.of_nat (List.length ds) <= digs_val ds acc.
Proof.
  induction ds as [|c r IH]; intros acc Hacc.
  - simpl. lia.
  - cbn [digs_val List.length]. rewrite Nat2Z.inj_succ, Z.pow_succ_r by lia.
    assert (Hd : 0 <= dval c) by (unfold dval; lia).
    specialize (IH (10 * acc + dval c) ltac:(lia)).
    assert (Hp : 0 < 10 ^ Z.of_nat (List.length r)) by (apply Z.pow_pos_nonneg; lia).
    nia.
Qed.

Lemma to_uint_no_leading_zero p u : Pos.to_uint p <> Decimal.D0 u.
Proof.
  intros E.
  assert (Hn : Decimal.unorm (Pos.to_uint p) = Pos.to_uint p).
  { rewrite <- DecimalPos.Unsigned.to_of. rewrite DecimalPos.Unsigned.of_to. reflexivity. }
  unfold Decimal.unorm in Hn. destruct (Decimal.nzhead (Pos.to_uint p)) eqn:Hz.
  - pose proof (DecimalPos.Unsigned.of_to p) as Hv. rewrite <- Hn in Hv. discriminate.
  - exact (DecimalFacts.nzhead_nonzero _ _ Hz).
  - rewrite E in Hn; discriminate.
  - rewrite E in Hn; discriminate.
  - rewrite E in Hn; discriminate.
  - rewrite E in Hn; discriminate.
  - rewrite E in Hn; discriminate.
  - rewrite E in Hn; discriminate.
  - rewrite E in Hn; discriminate.
  - rewrite E in Hn; discriminate.
  - rewrite E in Hn; discriminate.
Qed.

Lemma str_of_Z_len n k : 0 <= n < 10 ^ k -> 0 < k -> Z.of_nat (List.length (str_of_Z n)) <= k.
Proof.
  intros [Hn Hlt] Hk. destruct n as [|p|p]; try lia.
  - cbn. lia.
  - pose proof (str_of_Z_nonneg (Zpos p) ltac:(lia)) as (_ & Hd & Hv).
    unfold str_of_Z in *. cbn [Z.to_int] in *.
    pose proof (to_uint_no_leading_zero p) as Hz.
    pose proof (DecimalPos.Unsigned.to_uint_nonnil p) as Hnn.
    assert (Hlow : forall c r, uint_chars (Pos.to_uint p) = c :: r -> 1 <= dval c ->
                               Z.of_nat (List.length (c :: r)) <= k).
    { intros c r E Hc. rewrite E in Hv. cbn [digs_val] in Hv.
      pose proof (digs_val_lower r (10 * 0 + dval c) ltac:(lia)) as Hl.
      destruct (Z_lt_ge_dec (Z.of_nat (List.length r)) k) as [Hs|Hs].
      - cbn [List.length]. lia.
      - exfalso. assert (10 ^ k <= 10 ^ Z.of_nat (List.length r)) by (apply Z.pow_le_mono_r; lia).
        assert (0 < 10 ^ Z.of_nat (List.length r)) by (apply Z.pow_pos_nonneg; lia). nia. }
    destruct (Pos.to_uint p) as [|u|u|u|u|u|u|u|u|u|u] eqn:E; try congruence;
      try (exfalso; exact (Hz u eq_refl));
      cbn [uint_chars] in *; eapply Hlow; try reflexivity; unfold dval; simpl; lia.
Qed.
