(* Proofs about Model/Caseless.v (property C17). *)
Require Import Lib.Base Model.Params Model.Sort Model.Caseless Proofs.SortPerm.
From Coq Require Import Sorting.Sorted Sorting.Permutation Lia.

(* ---------------------------------------------------------------- strings *)
Lemma seqb_eq a : forall b, str_eqb a b = true <-> a = b.
Proof.
  induction a as [|x a IH]; intros [|y b]; cbn; try (split; congruence).
  rewrite andb_true_iff, N.eqb_eq, IH. split; [intros [-> ->]; reflexivity|intros E; inversion E; auto].
Qed.

Lemma seqb_refl a : str_eqb a a = true.
Proof. apply seqb_eq. reflexivity. Qed.

Lemma seqb_neq a b : str_eqb a b = false <-> a <> b.
Proof.
  split.
  - intros H E. apply seqb_eq in E. congruence.
  - intros H. destruct (str_eqb a b) eqn:E; [|reflexivity]. apply seqb_eq in E. contradiction.
Qed.

Lemma seqb_sym a b : str_eqb a b = str_eqb b a.
Proof.
  destruct (str_eqb a b) eqn:E1, (str_eqb b a) eqn:E2; try reflexivity.
  - apply seqb_eq in E1. subst. rewrite seqb_refl in E2. discriminate.
  - apply seqb_eq in E2. subst. rewrite seqb_refl in E1. discriminate.
Qed.

Lemma upper_chr_idem c : upper_chr (upper_chr c) = upper_chr c.
Proof.
  unfold upper_chr, is_lower.
  destruct (97 <=? c) eqn:E1, (c <=? 122) eqn:E2; cbn [andb]; try reflexivity.
  - apply N.leb_le in E1, E2.
    assert (97 <=? c - 32 = false) as -> by (apply N.leb_gt; lia). reflexivity.
  - rewrite E1, E2. reflexivity.
  - rewrite E1. reflexivity.
  - rewrite E1. reflexivity.
Qed.

Lemma upper_idem s : upper (upper s) = upper s.
Proof. unfold upper. rewrite map_map. apply map_ext. intros c. apply upper_chr_idem. Qed.

Lemma ckey_upper k : upper (ckey k) = ckey k.
Proof. unfold ckey. apply upper_idem. Qed.

Lemma mem_str_In k l : mem_str k l = true <-> In k l.
Proof.
  unfold mem_str. rewrite existsb_exists. split.
  - intros [x [Hx E]]. apply seqb_eq in E. subst. exact Hx.
  - intros H. exists k. split; [exact H|apply seqb_refl].
Qed.

Lemma mem_str_false k l : mem_str k l = false <-> ~ In k l.
Proof.
  split.
  - intros H Hin. apply mem_str_In in Hin. congruence.
  - intros H. destruct (mem_str k l) eqn:E; [|reflexivity]. apply mem_str_In in E. contradiction.
Qed.

Lemma filter_all {A} (f : A -> bool) l : (forall x, In x l -> f x = true) -> filter f l = l.
Proof.
  induction l as [|a l IH]; intros H; cbn; [reflexivity|].
  rewrite (H a) by (left; reflexivity). f_equal. apply IH. intros x Hx. apply H. right. exact Hx.
Qed.

Lemma filter_filter' {A} (f g : A -> bool) l : filter f (filter g l) = filter (fun x => g x && f x) l.
Proof.
  induction l as [|a l IH]; cbn; [reflexivity|].
  destruct (g a); cbn; [destruct (f a); rewrite IH; reflexivity|exact IH].
Qed.

Lemma NoDup_snoc {A} (l : list A) x : NoDup l -> ~ In x l -> NoDup (l ++ [x]).
Proof.
  induction l as [|a l IH]; cbn; intros Hn Hx.
  - constructor; [intros []|constructor].
  - inversion Hn as [|? ? Ha Hl]; subst. constructor.
    + intros Hin. apply in_app_or in Hin. destruct Hin as [Hin|[Hin|[]]]; [contradiction|]. subst. apply Hx. left. reflexivity.
    + apply IH; [exact Hl|]. intros Hin. apply Hx. right. exact Hin.
Qed.

Lemma NoDup_app_l {A} (l l' : list A) : NoDup (l ++ l') -> NoDup l.
Proof.
  induction l as [|a l IH]; cbn; intros H; [constructor|].
  inversion H as [|? ? Ha Hl]; subst. constructor; [|apply IH; exact Hl].
  intros Hin. apply Ha. apply in_or_app. left. exact Hin.
Qed.

(* ================================================================ dictionaries *)
Section DictProofs.
  Variable V : Type.
  Local Notation dict := (list (list N * V)).

  Definition inv (d : dict) : Prop := keys_upper d /\ NoDup (keys d).

  Lemma dict_get_none k (d : dict) : dict_get k d = None <-> ~ In k (keys d).
  Proof.
    induction d as [|[k' v'] r IH]; cbn; [tauto|].
    destruct (str_eqb k k') eqn:E.
    - apply seqb_eq in E. subst. split; [discriminate|intros H; exfalso; apply H; left; reflexivity].
    - apply seqb_neq in E. rewrite IH. split; [intros H [H'|H']; [congruence|tauto]|tauto].
  Qed.

  Lemma dict_get_some_in k (d : dict) v : dict_get k d = Some v -> In k (keys d).
  Proof.
    intros H. destruct (in_dec (list_eq_dec N.eq_dec) k (keys d)) as [Hin|Hn]; [exact Hin|].
    apply dict_get_none in Hn. congruence.
  Qed.

  Lemma dict_mem_in k (d : dict) : dict_mem k d = true <-> In k (keys d).
  Proof.
    unfold dict_mem. destruct (dict_get k d) eqn:E.
    - split; [intros _; eapply dict_get_some_in; exact E|reflexivity].
    - split; [discriminate|]. intros H. apply dict_get_none in E. contradiction.
  Qed.

  (* ---- __setitem__ on the underlying ordered dict *)
  Lemma dict_set_in k v (d : dict) : In k (keys d) -> keys (dict_set k v d) = keys d.
  Proof.
    induction d as [|[k' v'] r IH]; cbn; [tauto|]. intros H.
    destruct (str_eqb k k') eqn:E; cbn.
    - apply seqb_eq in E. subst. reflexivity.
    - apply seqb_neq in E. f_equal. apply IH. destruct H as [H|H]; [congruence|exact H].
  Qed.

  Lemma dict_set_notin k v (d : dict) : ~ In k (keys d) -> dict_set k v d = d ++ [(k, v)].
  Proof.
    induction d as [|[k' v'] r IH]; cbn; [reflexivity|]. intros H.
    destruct (str_eqb k k') eqn:E.
    - apply seqb_eq in E. subst. exfalso. apply H. left. reflexivity.
    - f_equal. apply IH. tauto.
  Qed.

  (* first_insertion_order, one store: an existing name keeps its place, a new one goes last *)
  Lemma set_order k v (d : dict) :
    keys (dict_set k v d) = if dict_mem k d then keys d else keys d ++ [k].
  Proof.
    destruct (dict_mem k d) eqn:E.
    - apply dict_set_in. apply dict_mem_in. exact E.
    - assert (~ In k (keys d)) as H by (intros H; apply dict_mem_in in H; congruence).
      rewrite dict_set_notin by exact H. unfold keys. rewrite map_app. reflexivity.
  Qed.

  Lemma set_inv k v (d : dict) : upper k = k -> inv d -> inv (dict_set k v d).
  Proof.
    intros Hk [Hu Hn]. unfold inv, keys_upper. rewrite set_order.
    destruct (dict_mem k d) eqn:E; [split; assumption|].
    assert (~ In k (keys d)) as H by (intros H; apply dict_mem_in in H; congruence).
    split.
    - apply Forall_app. split; [exact Hu|constructor; [exact Hk|constructor]].
    - apply NoDup_snoc; assumption.
  Qed.

  (* ---- __delitem__ *)
  Lemma del_keys_filter k (d : dict) :
    NoDup (keys d) -> keys (dict_del k d) = filter (fun x => negb (str_eqb k x)) (keys d).
  Proof.
    induction d as [|[k' v'] r IH]; cbn; [reflexivity|]. intros Hn. inversion Hn as [|? ? Hk' Hr]; subst.
    destruct (str_eqb k k') eqn:E; cbn.
    - apply seqb_eq in E. subst. symmetry. apply filter_all. intros x Hx.
      apply negb_true_iff, seqb_neq. intros ->. contradiction.
    - f_equal. apply IH. exact Hr.
  Qed.

  Lemma del_inv k (d : dict) : inv d -> inv (dict_del k d).
  Proof.
    intros [Hu Hn]. unfold inv, keys_upper. rewrite del_keys_filter by exact Hn. split.
    - unfold keys_upper in Hu. rewrite Forall_forall in Hu |- *. intros x Hx. apply filter_In in Hx. apply Hu. tauto.
    - apply NoDup_filter. exact Hn.
  Qed.

  Lemma del_notin k (d : dict) : NoDup (keys d) -> ~ In k (keys (dict_del k d)).
  Proof.
    intros Hn. rewrite del_keys_filter by exact Hn. intros H. apply filter_In in H.
    destruct H as [_ H]. rewrite seqb_refl in H. discriminate.
  Qed.

  (* ---- popitem *)
  Lemma popitem_app (d d' : dict) x : dict_popitem d = Some (d', x) -> d = d' ++ [x].
  Proof.
    revert d' x. induction d as [|y r IH]; intros d' x H; cbn in H; [discriminate|].
    destruct (dict_popitem r) as [[r' z]|] eqn:E.
    - inversion H; subst. cbn. f_equal. apply IH. reflexivity.
    - inversion H; subst. destruct r as [|w r]; [reflexivity|].
      cbn in E. destruct (dict_popitem r) as [[? ?]|]; discriminate.
  Qed.

  Lemma popitem_inv (d d' : dict) x : dict_popitem d = Some (d', x) -> inv d -> inv d'.
  Proof.
    intros H [Hu Hn]. apply popitem_app in H. subst d. unfold inv, keys_upper, keys in *.
    rewrite map_app in Hu, Hn. split.
    - apply Forall_app in Hu. tauto.
    - apply NoDup_app_l in Hn. exact Hn.
  Qed.

  (* ---- move_to_end *)
  Lemma move_inv k last (d d' : dict) : dict_move_to_end k last d = Some d' -> inv d -> inv d'.
  Proof.
    unfold dict_move_to_end. destruct (dict_get k d) as [v|] eqn:E; [|discriminate].
    intros H Hi. inversion H; subst. clear H.
    assert (Hk : upper k = k).
    { destruct Hi as [Hu _]. unfold keys_upper in Hu. rewrite Forall_forall in Hu. apply Hu.
      eapply dict_get_some_in. exact E. }
    pose proof (del_inv k d Hi) as [Hu' Hn'].
    pose proof (del_notin k d (proj2 Hi)) as Hnot.
    unfold inv, keys_upper, keys in *. destruct last; cbn.
    - rewrite map_app. cbn. split.
      + apply Forall_app. split; [exact Hu'|constructor; [exact Hk|constructor]].
      + apply NoDup_snoc; assumption.
    - split; constructor; assumption.
  Qed.

  (* ---- update-style paths *)
  Lemma c_update_fold (ps : list (key * V)) : forall d, c_update d ps = dict_update d (fold_items ps).
  Proof.
    induction ps as [|[k v] r IH]; intros d; cbn; [reflexivity|]. apply IH.
  Qed.

  Lemma c_update_inv (ps : list (key * V)) : forall d, inv d -> inv (c_update d ps).
  Proof.
    induction ps as [|[k v] r IH]; intros d H; cbn; [exact H|].
    apply IH. unfold c_setitem. apply set_inv; [apply ckey_upper|exact H].
  Qed.

  Lemma dict_update_app (ps : dict) : forall d, NoDup (keys d ++ keys ps) -> dict_update d ps = d ++ ps.
  Proof.
    induction ps as [|[k v] r IH]; intros d H; cbn.
    - rewrite app_nil_r. reflexivity.
    - cbn in H. assert (Hk : ~ In k (keys d)).
      { intros Hin. apply NoDup_remove_2 in H. apply H. apply in_or_app. left. exact Hin. }
      rewrite dict_set_notin by exact Hk. unfold dict_update in IH. rewrite IH.
      + rewrite <- app_assoc. reflexivity.
      + unfold keys. rewrite map_app. cbn. rewrite <- app_assoc. exact H.
  Qed.

  Lemma dict_of_id (d : dict) : NoDup (keys d) -> dict_of d = d.
  Proof. intros H. unfold dict_of. rewrite dict_update_app; [reflexivity|exact H]. Qed.

  Lemma fold_as_kdict (d : dict) : keys_upper d -> fold_items (as_kdict d) = d.
  Proof.
    unfold fold_items, as_kdict, keys_upper, keys. rewrite map_map.
    induction d as [|[k v] r IH]; cbn [map fst snd]; intros H; [reflexivity|].
    inversion H as [|? ? Hk Hr]; subst. f_equal.
    - unfold ckey. cbn [to_unicode]. rewrite Hk. reflexivity.
    - apply IH. exact Hr.
  Qed.

  Lemma c_init_as_kdict (d : dict) : inv d -> c_init (as_kdict d) = d.
  Proof.
    intros [Hu Hn]. unfold c_init. rewrite c_update_fold, fold_as_kdict by exact Hu.
    apply dict_of_id. exact Hn.
  Qed.

  Lemma upper_items_id (ps : dict) :
    forallb (fun kv => is_upper_str (fst kv)) ps = true -> upper_items ps = ps.
  Proof.
    induction ps as [|[k v] r IH]; cbn [forallb fst]; [reflexivity|]. rewrite andb_true_iff. intros [H1 H2].
    unfold is_upper_str in H1. apply seqb_eq in H1. unfold upper_items in *. cbn [map fst snd].
    rewrite H1, IH by exact H2. reflexivity.
  Qed.

  (* ================================================================ first insertion order *)
  Lemma update_order (ps : dict) : forall d,
    keys (dict_update d ps)
    = keys d ++ filter (fun x => negb (mem_str x (keys d))) (dedup_first (keys ps)).
  Proof.
    induction ps as [|[k v] r IH]; intros d.
    - cbn. rewrite app_nil_r. reflexivity.
    - change (dict_update d ((k, v) :: r)) with (dict_update (dict_set k v d) r).
      change (keys ((k, v) :: r)) with (k :: keys r).
      rewrite IH, set_order. cbn [dedup_first filter].
      destruct (dict_mem k d) eqn:E.
      + assert (Hin : mem_str k (keys d) = true) by (apply mem_str_In, dict_mem_in; exact E).
        rewrite Hin. cbn [negb]. f_equal. rewrite filter_filter'. apply filter_ext. intros x.
        destruct (str_eqb k x) eqn:Ex; cbn; [|reflexivity].
        apply seqb_eq in Ex. subst. rewrite Hin. reflexivity.
      + assert (Hin : mem_str k (keys d) = false).
        { apply mem_str_false. intros H. apply dict_mem_in in H. congruence. }
        rewrite Hin. cbn [negb]. rewrite <- app_assoc. cbn [app]. f_equal. f_equal.
        rewrite filter_filter'. apply filter_ext. intros x.
        unfold mem_str. rewrite existsb_app. cbn [existsb]. rewrite orb_false_r, negb_orb.
        rewrite (seqb_sym x k). apply andb_comm.
  Qed.

  Lemma c_update_order (ps : list (key * V)) d :
    keys (c_update d ps)
    = keys d ++ filter (fun x => negb (mem_str x (keys d))) (dedup_first (map (fun kv => ckey (fst kv)) ps)).
  Proof.
    rewrite c_update_fold, update_order. unfold fold_items, keys. rewrite map_map. reflexivity.
  Qed.

  Lemma c_init_order (ps : list (key * V)) :
    keys (c_init ps) = dedup_first (map (fun kv => ckey (fst kv)) ps).
  Proof.
    unfold c_init. rewrite c_update_order. cbn. apply filter_all. reflexivity.
  Qed.
  (* ================================================================ the invariant *)
  Lemma inv_nil : inv [].
  Proof. split; constructor. Qed.

  Variable veqb : V -> V -> bool.

  Lemma step_inv s o : inv s -> inv (fst (step veqb s o)).
  Proof.
    intros H. destruct o; cbn [step fst]; try exact H.
    - apply c_update_inv, inv_nil.
    - apply c_update_inv, inv_nil.
    - apply set_inv; [apply ckey_upper|exact H].
    - destruct (dict_mem (ckey k) s); cbn; [apply del_inv|]; exact H.
    - destruct (dict_get (ckey k) s); cbn; [exact H|].
      apply set_inv; [rewrite ckey_upper; apply ckey_upper|exact H].
    - destruct (dict_get (ckey k) s); cbn; [apply del_inv|]; exact H.
    - destruct (dict_popitem s) as [[s' [k v]]|] eqn:E; cbn; [|exact H].
      eapply popitem_inv; eassumption.
    - apply c_update_inv. exact H.
    - apply c_update_inv. exact H.
    - apply inv_nil.
    - destruct k as [raw|b]; [|exact H].
      destruct (dict_move_to_end raw last s) eqn:E; cbn; [|exact H]. eapply move_inv; eassumption.
  Qed.

  Lemma run_cons s outs o r :
    fold_left (fun acc o => let '(s', x) := step veqb (fst acc) o in (s', snd acc ++ [x])) (o :: r) (s, outs)
    = fold_left (fun acc o => let '(s', x) := step veqb (fst acc) o in (s', snd acc ++ [x])) r
        (fst (step veqb s o), outs ++ [snd (step veqb s o)]).
  Proof. cbn [fold_left fst snd]. destruct (step veqb s o). reflexivity. Qed.

  Lemma run_inv_gen ops : forall s outs, inv s ->
    inv (fst (fold_left (fun acc o => let '(s', x) := step veqb (fst acc) o in (s', snd acc ++ [x])) ops (s, outs))).
  Proof.
    induction ops as [|o r IH]; intros s outs H; [exact H|].
    rewrite run_cons. apply IH. apply step_inv. exact H.
  Qed.

  (* keys_upper and no duplicate keys hold after ANY sequence of operations, guarded or not *)
  Lemma run_inv ops s : inv s -> inv (fst (run veqb s ops)).
  Proof. apply run_inv_gen. Qed.

  (* ================================================================ refinement *)
  Lemma step_refines s o : inv s -> op_ok s o = true -> step veqb s o = rstep veqb s o.
  Proof.
    intros Hi Hok. destruct o; cbn [step rstep]; try reflexivity.
    - unfold c_init. rewrite c_update_fold. reflexivity.
    - unfold c_init. rewrite c_update_fold. unfold fold_items. rewrite map_map. reflexivity.
    - rewrite ckey_upper. reflexivity.
    - destruct dflt as [x|]; [reflexivity|]. cbn in Hok. unfold dict_mem in Hok.
      destruct (dict_get (ckey k) s); [reflexivity|discriminate].
    - rewrite c_update_fold. reflexivity.
    - unfold c_copy. rewrite (c_init_as_kdict s Hi). rewrite (c_init_as_kdict s Hi). reflexivity.
    - rewrite (c_init_as_kdict s Hi). rewrite c_update_fold. reflexivity.
    - unfold c_init. rewrite !c_update_fold. rewrite fold_as_kdict by apply Hi. reflexivity.
    - rewrite c_update_fold. reflexivity.
    - cbn in Hok. rewrite (upper_items_id _ Hok). rewrite (dict_of_id s) by apply Hi. reflexivity.
    - cbn in Hok. rewrite (upper_items_id _ Hok). rewrite (dict_of_id s) by apply Hi. reflexivity.
    - discriminate.
    - destruct k as [raw|b]; cbn in Hok; [|discriminate].
      unfold is_upper_str in Hok. apply seqb_eq in Hok. unfold ckey. cbn [to_unicode]. rewrite Hok. reflexivity.
  Qed.

  Lemma run_refines_gen ops : forall s outs, inv s -> ops_ok veqb s ops = true ->
    fold_left (fun acc o => let '(s', x) := step veqb (fst acc) o in (s', snd acc ++ [x])) ops (s, outs)
    = fold_left (fun acc o => let '(s', x) := rstep veqb (fst acc) o in (s', snd acc ++ [x])) ops (s, outs).
  Proof.
    induction ops as [|o r IH]; intros s outs Hi Hok; [reflexivity|].
    cbn [ops_ok] in Hok. apply andb_true_iff in Hok. destruct Hok as [Ho Hr].
    rewrite run_cons. cbn [fold_left fst snd]. rewrite <- (step_refines s o Hi Ho).
    destruct (step veqb s o) as [s' x] eqn:E. cbn [fst snd] in *.
    apply IH; [|exact Hr]. pose proof (step_inv s o Hi) as H. rewrite E in H. exact H.
  Qed.

  Lemma run_refines ops s : inv s -> ops_ok veqb s ops = true -> run veqb s ops = rrun veqb s ops.
  Proof. apply run_refines_gen. Qed.

End DictProofs.

(* ================================================================ canonsort_keys *)
Lemma filter_partition_perm {A} (f : A -> bool) l :
  Permutation (filter f l ++ filter (fun x => negb (f x)) l) l.
Proof.
  induction l as [|a l IH]; cbn; [constructor|].
  destruct (f a); cbn.
  - constructor. exact IH.
  - apply Permutation_sym. eapply Permutation_trans; [|apply Permutation_middle].
    constructor. apply Permutation_sym. exact IH.
Qed.

Lemma perm_filter {A} (f : A -> bool) l l' : Permutation l l' -> Permutation (filter f l) (filter f l').
Proof.
  induction 1 as [|x l l' H IH|x y l|l l' l'' H1 IH1 H2 IH2]; cbn.
  - constructor.
  - destruct (f x); [constructor|]; exact IH.
  - destruct (f x), (f y); try apply Permutation_refl. apply perm_swap.
  - eapply Permutation_trans; eassumption.
Qed.

Lemma idx_leb_total order a b : idx_leb order a b = false -> idx_leb order b a = true.
Proof. unfold idx_leb. rewrite Nat.leb_gt, Nat.leb_le. lia. Qed.

Lemma idx_leb_trans order a b c :
  idx_leb order a b = true -> idx_leb order b c = true -> idx_leb order a c = true.
Proof. unfold idx_leb. rewrite !Nat.leb_le. lia. Qed.

Lemma last_index_none k order : forall i, ~ In k order -> last_index k order i = None.
Proof.
  induction order as [|c r IH]; intros i H; cbn; [reflexivity|].
  rewrite IH by (intros Hin; apply H; right; exact Hin).
  destruct (str_eqb k c) eqn:E; [|reflexivity]. apply seqb_eq in E. subst. exfalso. apply H. left. reflexivity.
Qed.

(* what an index means: the name stands at that position *)
Lemma last_index_nth k order : forall i j, last_index k order i = Some j ->
  (i <= j)%nat /\ nth_error order (j - i) = Some k.
Proof.
  induction order as [|c r IH]; intros i j H; cbn in H; [discriminate|].
  destruct (last_index k r (S i)) as [j'|] eqn:E.
  - inversion H; subst. apply IH in E. destruct E as [Hle Hn]. split; [lia|].
    replace (j - i)%nat with (S (j - S i)) by lia. exact Hn.
  - destruct (str_eqb k c) eqn:Ec; [|discriminate]. inversion H; subst.
    apply seqb_eq in Ec. subst. split; [lia|]. rewrite Nat.sub_diag. reflexivity.
Qed.

Lemma in_canon_In order k : in_canon order k = true <-> In k order.
Proof.
  unfold in_canon, canon_idx. split.
  - destruct (last_index k order 0) as [j|] eqn:E; [|discriminate]. intros _.
    apply last_index_nth in E. destruct E as [_ E]. eapply nth_error_In. exact E.
  - intros H. destruct (last_index k order 0) eqn:E; [reflexivity|].
    exfalso. revert E. generalize 0%nat. induction order as [|c r IH]; [destruct H|].
    intros i E. cbn in E. destruct (last_index k r (S i)) eqn:E'; [discriminate|].
    destruct (str_eqb k c) eqn:Ec; [discriminate|]. apply seqb_neq in Ec.
    destruct H as [H|H]; [congruence|]. eapply IH; eassumption.
Qed.

(* on the priority names the index order is antisymmetric *)
Lemma idx_antisym order a b :
  in_canon order a = true -> in_canon order b = true ->
  idx_leb order a b = true -> idx_leb order b a = true -> a = b.
Proof.
  unfold in_canon, idx_leb, idx_or, canon_idx.
  destruct (last_index a order 0) as [i|] eqn:Ea; [|discriminate].
  destruct (last_index b order 0) as [j|] eqn:Eb; [|discriminate].
  intros _ _. rewrite !Nat.leb_le. intros H1 H2. assert (i = j) by lia. subst.
  apply last_index_nth in Ea, Eb. destruct Ea as [_ Ea], Eb as [_ Eb]. congruence.
Qed.

Lemma canonsort_perm ks order : Permutation (canonsort_keys ks order) ks.
Proof.
  unfold canonsort_keys. eapply Permutation_trans; [|apply (filter_partition_perm (in_canon order))].
  apply Permutation_app; apply sort_by_perm.
Qed.

(* structure of the result: priority names sorted by declared position, then the others in str order *)
Lemma canonsort_structure ks order :
  exists h t, canonsort_keys ks order = h ++ t
    /\ Forall (fun k => In k order) h
    /\ StronglySorted (fun a b => (idx_or order a <= idx_or order b)%nat) h
    /\ Forall (fun k => ~ In k order) t
    /\ StronglySorted (fun a b => str_leb a b = true) t.
Proof.
  exists (sort_by (idx_leb order) (filter (in_canon order) ks)),
         (sort_by str_leb (filter (fun k => negb (in_canon order k)) ks)).
  split; [reflexivity|]. repeat split.
  - rewrite Forall_forall. intros x Hx.
    apply (proj1 (sort_by_in _ (idx_leb order) _ _)) in Hx. apply filter_In in Hx. apply in_canon_In. tauto.
  - pose proof (sort_by_sorted _ (idx_leb order) (idx_leb_total order) (idx_leb_trans order)
                  (filter (in_canon order) ks)) as H.
    eapply StronglySorted_ind with (P := fun l => StronglySorted _ l); [constructor| |exact H].
    intros a l Hs IH Hf. constructor; [exact IH|]. rewrite Forall_forall in Hf |- *. intros x Hx.
    specialize (Hf x Hx). unfold idx_leb in Hf. apply Nat.leb_le in Hf. exact Hf.
  - rewrite Forall_forall. intros x Hx.
    apply (proj1 (sort_by_in _ str_leb _ _)) in Hx. apply filter_In in Hx. destruct Hx as [_ Hx].
    apply negb_true_iff in Hx. intros Hin. apply in_canon_In in Hin. congruence.
  - apply sort_by_sorted; [apply str_leb_total|apply str_leb_trans].
Qed.

(* independent of the order in which the keys are presented (insertion order of the dict) *)
Lemma canonsort_perm_invariant ks ks' order :
  Permutation ks ks' -> canonsort_keys ks order = canonsort_keys ks' order.
Proof.
  intros Hp. unfold canonsort_keys. f_equal.
  - apply sort_by_perm_invariant; [apply idx_leb_total|apply idx_leb_trans|apply perm_filter; exact Hp|].
    intros a b Ha Hb. apply filter_In in Ha, Hb. apply idx_antisym; tauto.
  - apply sort_by_perm_invariant; [apply str_leb_total|apply str_leb_trans|apply perm_filter; exact Hp|].
    intros a b _ _. apply str_leb_antisym.
Qed.

(* with a duplicate-free declared order the index of a name is its position *)
Lemma last_index_NoDup order : NoDup order -> forall i n k,
  nth_error order n = Some k -> last_index k order i = Some (i + n)%nat.
Proof.
  induction 1 as [|c r Hc Hr IH]; intros i n k Hn; [destruct n; discriminate|].
  cbn. destruct n as [|n]; cbn in Hn.
  - inversion Hn; subst. rewrite last_index_none by exact Hc. rewrite seqb_refl. f_equal. lia.
  - rewrite (IH (S i) n k Hn). f_equal. lia.
Qed.

Lemma sorted_by_position {A} (R : A -> A -> Prop) l :
  (forall i j a b, (i < j)%nat -> nth_error l i = Some a -> nth_error l j = Some b -> R a b) ->
  StronglySorted R l.
Proof.
  induction l as [|x l IH]; intros H; constructor.
  - apply IH. intros i j a b Hij Ha Hb. apply (H (S i) (S j)); [lia|exact Ha|exact Hb].
  - rewrite Forall_forall. intros y Hy. apply In_nth_error in Hy. destruct Hy as [n Hn].
    apply (H 0%nat (S n)); [lia|reflexivity|exact Hn].
Qed.

Lemma sorted_filter {A} (R : A -> A -> Prop) (f : A -> bool) l :
  StronglySorted R l -> StronglySorted R (filter f l).
Proof.
  induction 1 as [|a l Hs IH Hf]; cbn; [constructor|].
  destruct (f a); [|exact IH]. constructor; [exact IH|].
  rewrite Forall_forall in Hf |- *. intros x Hx. apply filter_In in Hx. apply Hf. tauto.
Qed.

Lemma order_sorted order : NoDup order ->
  StronglySorted (fun a b => idx_leb order a b = true) order.
Proof.
  intros Hn. apply sorted_by_position. intros i j a b Hij Ha Hb.
  unfold idx_leb, idx_or, canon_idx.
  rewrite (last_index_NoDup order Hn 0 i a Ha), (last_index_NoDup order Hn 0 j b Hb).
  apply Nat.leb_le. lia.
Qed.

(* the priority names come out exactly in their declared order *)
Lemma canonsort_declared_order ks order :
  NoDup order -> NoDup ks ->
  canonsort_keys ks order
  = filter (fun c => mem_str c ks) order ++ sort_by str_leb (filter (fun k => negb (mem_str k order)) ks).
Proof.
  intros Ho Hk. unfold canonsort_keys. f_equal.
  - apply (sorted_perm_eq _ (fun a b => idx_leb order a b = true)).
    + eapply Permutation_trans; [apply sort_by_perm|].
      apply NoDup_Permutation; [apply NoDup_filter; exact Hk|apply NoDup_filter; exact Ho|].
      intros x. rewrite !filter_In, in_canon_In, mem_str_In. tauto.
    + apply sort_by_sorted; [apply idx_leb_total|apply idx_leb_trans].
    + apply sorted_filter. apply order_sorted. exact Ho.
    + intros a b Ha Hb. apply (proj1 (sort_by_in _ (idx_leb order) _ _)) in Ha. apply (proj1 (sort_by_in _ (idx_leb order) _ _)) in Hb. apply filter_In in Ha, Hb.
      apply idx_antisym; tauto.
  - f_equal. apply filter_ext. intros k. f_equal.
    destruct (in_canon order k) eqn:E1, (mem_str k order) eqn:E2; try reflexivity.
    + apply in_canon_In in E1. apply mem_str_false in E2. contradiction.
    + apply mem_str_In in E2. apply in_canon_In in E2. congruence.
Qed.
