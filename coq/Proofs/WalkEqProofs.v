(* Proofs about traversal and equality (property C20). *)
Require Import Lib.Base Gen.Gen_parser Gen.Gen_cal Model.Params Model.Contentline Model.Tree Model.TreeOps.
Require Import Proofs.ChainProofs Proofs.ParamsProofs Proofs.TreeProofs.
From Coq Require Import Lia Arith Permutation.

(* ------------------------------------------------------------------ walk *)
Lemma walk_raw_none : forall t, walk_raw None t = preorder t.
Proof.
  induction t as [n ps subs es IH] using comp_ind'. cbn [walk_raw preorder app]. f_equal.
  induction subs as [|s subs IHs]; [reflexivity|]. inversion IH as [|s' subs' Hs HF]; subst.
  cbn [flat_map]. rewrite Hs, (IHs HF). reflexivity.
Qed.

Lemma filter_flat_map {A B} (p : B -> bool) (f : A -> list B) : forall l,
  filter p (flat_map f l) = flat_map (fun x => filter p (f x)) l.
Proof. induction l as [|x l IH]; [reflexivity|]. cbn [flat_map]. rewrite filter_app, IH. reflexivity. Qed.

Lemma walk_raw_some q : forall t,
  walk_raw (Some q) t = filter (fun c => str_eqb (c_name c) q) (preorder t).
Proof.
  induction t as [n ps subs es IH] using comp_ind'. cbn [walk_raw preorder filter c_name].
  destruct (str_eqb n q); cbn [app]; [f_equal|]; rewrite filter_flat_map.
  all: induction subs as [|s subs IHs]; [reflexivity|]; inversion IH as [|s' subs' Hs HF]; subst;
       cbn [flat_map]; rewrite Hs, (IHs HF); reflexivity.
Qed.

Theorem walk_preorder t : walk None t = preorder t.
Proof. apply walk_raw_none. Qed.

Theorem walk_name q t : walk (Some q) t = filter (fun c => str_eqb (c_name c) (upper q)) (preorder t).
Proof. apply walk_raw_some. Qed.

(* ------------------------------------------------------------------ every nested component exactly once *)
Lemma paths_unfold n ps subs es : paths (Comp n ps subs es) = [] :: go_paths subs 0.
Proof. reflexivity. Qed.

Lemma nth_error_pre {A} (pre : list A) s r : nth_error (pre ++ s :: r) (length pre) = Some s.
Proof. induction pre as [|x pre IH]; [reflexivity|exact IH]. Qed.

Lemma go_get n ps es : forall l pre,
  Forall (fun s => map (get_path s) (paths s) = map Some (preorder s)) l ->
  map (get_path (Comp n ps (pre ++ l) es)) (go_paths l (length pre)) = map Some (flat_map preorder l).
Proof.
  induction l as [|s r IH]; intros pre HF; [reflexivity|].
  inversion HF as [|s' r' Hs HF']; subst. cbn [go_paths flat_map]. rewrite !map_app, map_map. f_equal.
  - rewrite <- Hs. apply map_ext. intros p. cbn [get_path c_subs]. rewrite nth_error_pre. reflexivity.
  - specialize (IH (pre ++ [s]) HF'). rewrite <- app_assoc in IH. cbn [app] in IH.
    rewrite app_length in IH. cbn [length] in IH. rewrite Nat.add_1_r in IH. exact IH.
Qed.

Theorem preorder_paths : forall t, map (get_path t) (paths t) = map Some (preorder t).
Proof.
  induction t as [n ps subs es IH] using comp_ind'. rewrite paths_unfold. cbn [map get_path preorder]. f_equal.
  apply (go_get n ps es subs [] IH).
Qed.

Lemma go_heads : forall l i p, In p (go_paths l i) -> exists j r, p = j :: r /\ (i <= j)%nat.
Proof.
  induction l as [|s l IH]; intros i p H; [contradiction|]. cbn [go_paths] in H. apply in_app_or in H.
  destruct H as [H|H].
  - apply in_map_iff in H. destruct H as (r & <- & _). exists i, r. split; [reflexivity|lia].
  - destruct (IH (S i) p H) as (j & r & -> & Hj). exists j, r. split; [reflexivity|lia].
Qed.

Lemma nodup_app {A} (a b : list A) : NoDup a -> NoDup b -> (forall x, In x a -> ~ In x b) -> NoDup (a ++ b).
Proof.
  induction a as [|x a IH]; intros Ha Hb Hd; [exact Hb|]. inversion Ha as [|x' a' Hx Ha']; subst.
  cbn [app]. constructor.
  - intros Hin. apply in_app_or in Hin. destruct Hin as [Hin|Hin]; [contradiction|].
    apply (Hd x (or_introl eq_refl) Hin).
  - apply IH; [exact Ha'|exact Hb|]. intros y Hy. apply Hd. right. exact Hy.
Qed.

Lemma go_nodup : forall l i, Forall (fun s => NoDup (paths s)) l -> NoDup (go_paths l i).
Proof.
  induction l as [|s l IH]; intros i HF; [constructor|]. inversion HF as [|s' l' Hs HF']; subst.
  cbn [go_paths]. apply nodup_app.
  - apply FinFun.Injective_map_NoDup; [intros a b E; inversion E; reflexivity|exact Hs].
  - apply IH. exact HF'.
  - intros p Hp Hq. apply in_map_iff in Hp. destruct Hp as (r & <- & _).
    destruct (go_heads l (S i) _ Hq) as (j & r' & E & Hj). inversion E. lia.
Qed.

Theorem paths_nodup : forall t, NoDup (paths t).
Proof.
  induction t as [n ps subs es IH] using comp_ind'. rewrite paths_unfold. constructor.
  - intros Hin. destruct (go_heads subs 0 _ Hin) as (j & r & E & _). discriminate.
  - apply go_nodup. exact IH.
Qed.

(* ------------------------------------------------------------------ equality *)
Section EqFacts.
  Variable veq : value -> value -> bool.
  Hypothesis veq_refl : forall v, veq v v = true.

  Lemma list_eqb_refl : forall l, list_eqb veq l l = true.
  Proof. induction l as [|x l IH]; [reflexivity|]. cbn [list_eqb]. rewrite veq_refl, IH. reflexivity. Qed.

  Lemma entry_eq_refl e : entry_eq veq e e = true.
  Proof. destruct e; cbn [entry_eq]; [apply veq_refl|apply list_eqb_refl]. Qed.

  Lemma dict_get_nodup_in {V} : forall (ps : list (list N * V)) k e, NoDup (map fst ps) -> In (k, e) ps ->
    dict_get k ps = Some e.
  Proof.
    induction ps as [|[k' e'] ps IH]; intros k e Hnd Hin; [contradiction|].
    cbn [map fst] in Hnd. inversion Hnd as [|x xs Hx Hnd']; subst. cbn [dict_get].
    destruct Hin as [E|Hin].
    - inversion E; subst. assert (str_eqb k k = true) as Ek by (apply str_eqb_eq; reflexivity). rewrite Ek. reflexivity.
    - destruct (str_eqb k k') eqn:Ek.
      + apply str_eqb_eq in Ek. subst k'. exfalso. apply Hx. apply in_map_iff. exists (k, e). split; [reflexivity|exact Hin].
      + apply IH; assumption.
  Qed.

  (* the property mappings are compared as mappings: insertion order does not matter *)
  Lemma props_eq_perm pa pb : NoDup (map fst pb) -> Permutation pa pb -> props_eq veq pa pb = true.
  Proof.
    intros Hnd P. unfold props_eq. rewrite (Permutation_length P), Nat.eqb_refl. cbn [andb].
    apply forallb_forall. intros [k e] Hin. cbn [fst snd].
    rewrite (dict_get_nodup_in pb k e Hnd (Permutation_in _ P Hin)). apply entry_eq_refl.
  Qed.

  Fixpoint tree_dict (c : comp) : Prop :=
    let '(Comp _ ps subs _) := c in
    NoDup (map fst ps) /\ (fix all (l : list comp) : Prop := match l with [] => True | s :: r => tree_dict s /\ all r end) subs.

  Lemma tree_dict_sub n ps subs es s : tree_dict (Comp n ps subs es) -> In s subs -> tree_dict s.
  Proof.
    intros [_ Hsubs] Hs. induction subs as [|x subs IHs]; [contradiction|]. destruct Hsubs as [Hx Hr].
    destruct Hs as [->|Hs]; [exact Hx|apply IHs; assumption].
  Qed.

  Lemma comp_eq_refl_both : forall t, tree_dict t -> comp_eq veq t t = true /\ comp_eq' veq t t = true.
  Proof.
    induction t as [n ps subs es IH] using comp_ind'. intros Hd. pose proof Hd as [Hnd _].
    rewrite Forall_forall in IH.
    split; cbn [comp_eq comp_eq' c_subs c_props];
      rewrite Nat.eqb_refl, (props_eq_perm ps ps Hnd (Permutation_refl _)); cbn [andb];
      apply forallb_forall; intros s Hs; apply existsb_exists; exists s; (split; [exact Hs|]);
      apply (IH s Hs (tree_dict_sub n ps subs es s Hd Hs)).
  Qed.

  Lemma comp_eq_refl t : tree_dict t -> comp_eq veq t t = true.
  Proof. intros H. apply (comp_eq_refl_both t H). Qed.

  (* order of subcomponents, insertion order of properties, component name and error list are ignored *)
  Theorem comp_eq_perm n n' pa pb sa sb ea eb :
    tree_dict (Comp n pa sa ea) -> NoDup (map fst pb) -> Permutation pa pb -> Permutation sa sb ->
    comp_eq veq (Comp n pa sa ea) (Comp n' pb sb eb) = true.
  Proof.
    intros Hd Hndb Pp Ps. cbn [comp_eq c_subs c_props].
    rewrite (Permutation_length Ps), Nat.eqb_refl, (props_eq_perm pa pb Hndb Pp). cbn [andb].
    apply forallb_forall. intros s Hs. apply existsb_exists. exists s. split; [apply (Permutation_in _ Ps Hs)|].
    apply (comp_eq_refl_both s (tree_dict_sub n pa sa ea s Hd Hs)).
  Qed.

  (* equal components have equal property mappings: a differing value makes them unequal *)
  Theorem comp_eq_props a b : comp_eq veq a b = true ->
    props_eq veq (c_props a) (c_props b) = true /\ length (c_subs a) = length (c_subs b).
  Proof.
    destruct a as [n pa sa ea]. cbn [comp_eq c_props c_subs]. rewrite !andb_true_iff.
    intros [[Hl Hp] _]. split; [exact Hp|apply Nat.eqb_eq; exact Hl].
  Qed.

  Theorem props_eq_value pa pb k e : props_eq veq pa pb = true -> In (k, e) pa ->
    exists e', dict_get k pb = Some e' /\ entry_eq veq e e' = true.
  Proof.
    unfold props_eq. rewrite andb_true_iff. intros [_ H] Hin. rewrite forallb_forall in H.
    specialize (H _ Hin). cbn [fst snd] in H. destruct (dict_get k pb) as [e'|]; [|discriminate]. eauto.
  Qed.
End EqFacts.

(* ------------------------------------------------------------------ the defects of the pinned __eq__ *)
Definition veq_text (x y : value) : bool := str_eqb (v_text x) (v_text y).
Definition leaf (n : list N) (t : list N) : comp :=
  Comp n [(s2l "SUMMARY", One {| v_class := s2l "vText"; v_params := []; v_text := t |})] [] [].

Lemma eq_kind_refuted : comp_eq veq_text (Comp (s2l "VEVENT") [] [] []) (Comp (s2l "VTODO") [] [] []) = true.
Proof. reflexivity. Qed.

Lemma eq_asym_refuted : exists a b, comp_eq veq_text a b = true /\ comp_eq veq_text b a = false.
Proof.
  exists (Comp (s2l "VCALENDAR") [] [leaf (s2l "VEVENT") (s2l "x"); leaf (s2l "VEVENT") (s2l "x")] []),
         (Comp (s2l "VCALENDAR") [] [leaf (s2l "VEVENT") (s2l "x"); leaf (s2l "VEVENT") (s2l "y")] []).
  split; reflexivity.
Qed.
