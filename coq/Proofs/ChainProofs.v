(* Soundness of the chain machinery of Lib/Chain.v:
   - the chain run as one streaming machine equals the stages applied one after another;
   - a character occurring in no pattern flushes and resets every stage;
   - [check c = true] implies the two chains agree on every input avoiding the forbidden
     substrings (induction on the input, the certificate is only ever checked, never trusted). *)
Require Import Lib.Base Lib.Chain.
From Coq Require Import Lia Arith.

(* ------------------------------------------------------------------ boolean equalities *)
Lemma str_eqb_eq a : forall b, str_eqb a b = true <-> a = b.
Proof.
  induction a as [|x a IH]; intros [|y b]; cbn; try (split; congruence).
  rewrite andb_true_iff, N.eqb_eq, IH. split; [intros [-> ->]; reflexivity|intros E; inversion E; auto].
Qed.

Lemma strs_eqb_eq a : forall b, strs_eqb a b = true <-> a = b.
Proof.
  induction a as [|x a IH]; intros [|y b]; cbn; try (split; congruence).
  rewrite andb_true_iff, str_eqb_eq, IH. split; [intros [-> ->]; reflexivity|intros E; inversion E; auto].
Qed.

Lemma pst_eqb_eq a b : pst_eqb a b = true -> a = b.
Proof.
  unfold pst_eqb. rewrite !andb_true_iff, !strs_eqb_eq, !str_eqb_eq.
  destruct a, b; cbn. intros [[[[-> ->] ->] ->] ->]. reflexivity.
Qed.

Lemma is_prefix_spec p : forall l, is_prefix p l = true <-> exists y, l = p ++ y.
Proof.
  induction p as [|x p IH]; intros l; cbn.
  - split; [intros _; exists l; reflexivity|reflexivity].
  - destruct l as [|y l]; [split; [discriminate|intros [z Hz]; discriminate]|].
    rewrite andb_true_iff, N.eqb_eq, IH. split.
    + intros [-> [z ->]]. exists z. reflexivity.
    + intros [z Hz]. inversion Hz. split; [reflexivity|exists z; reflexivity].
Qed.

(* ------------------------------------------------------------------ streaming = sequential *)
Lemma stage_feed_app st : forall a p b,
  stage_feed st p (a ++ b) =
  let '(p1, o1) := stage_feed st p a in let '(p2, o2) := stage_feed st p1 b in (p2, o1 ++ o2).
Proof.
  induction a as [|c a IH]; intros p b; cbn [stage_feed app].
  - destruct (stage_feed st p b) as [p2 o2]. reflexivity.
  - destruct (stage_step st p c) as [p1 o1]. rewrite IH.
    destruct (stage_feed st p1 a) as [p2 o2]. destruct (stage_feed st p2 b) as [p3 o3].
    rewrite app_assoc. reflexivity.
Qed.

Lemma chain_feed_app : forall ch q a b,
  chain_feed ch q (a ++ b) =
  let '(q1, o1) := chain_feed ch q a in let '(q2, o2) := chain_feed ch q1 b in (q2, o1 ++ o2).
Proof.
  induction ch as [|st ch IH]; intros q a b.
  - destruct q; reflexivity.
  - destruct q as [|p q]; [reflexivity|]. cbn [chain_feed].
    rewrite stage_feed_app.
    destruct (stage_feed st p a) as [p1 o1] eqn:E1.
    destruct (stage_feed st p1 b) as [p2 o2] eqn:E2.
    rewrite IH.
    destruct (chain_feed ch q o1) as [q1 x1] eqn:E3.
    cbn [chain_feed]. rewrite E2.
    destruct (chain_feed ch q1 o2) as [q2 x2]. reflexivity.
Qed.

Lemma chain_flush_app : forall ch q x y,
  chain_flush_from ch q (x ++ y) =
  let '(q', o) := chain_feed ch q x in o ++ chain_flush_from ch q' y.
Proof.
  induction ch as [|st ch IH]; intros q x y.
  - destruct q; reflexivity.
  - destruct q as [|p q]; [reflexivity|]. cbn [chain_flush_from chain_feed].
    rewrite stage_feed_app.
    destruct (stage_feed st p x) as [p1 o1] eqn:E1.
    destruct (stage_feed st p1 y) as [p2 o2] eqn:E2.
    rewrite <- app_assoc, IH.
    destruct (chain_feed ch q o1) as [q3 o3] eqn:E3.
    cbn [chain_flush_from]. rewrite E2. reflexivity.
Qed.

Lemma run_from_flush ch : forall w q, run_from ch q w = chain_flush_from ch q w.
Proof.
  induction w as [|a w IH]; intros q; [reflexivity|].
  cbn [run_from]. change (a :: w) with ([a] ++ w). rewrite chain_flush_app.
  destruct (chain_feed ch q [a]) as [q' o]. rewrite IH. reflexivity.
Qed.

Lemma flush_init_seq : forall ch w, chain_flush_from ch (init_q ch) w = seq_run ch w.
Proof.
  induction ch as [|st ch IH]; intros w; [reflexivity|].
  cbn [init_q map chain_flush_from seq_run fold_left].
  unfold stage_run. destruct (stage_feed st [] w) as [p o]. apply IH.
Qed.

Theorem run_chain_seq ch w : run_chain ch w = seq_run ch w.
Proof. unfold run_chain. rewrite run_from_flush. apply flush_init_seq. Qed.

Lemma seq_run_app a b w : seq_run (a ++ b) w = seq_run b (seq_run a w).
Proof. unfold seq_run. apply fold_left_app. Qed.

(* ------------------------------------------------------------------ non-pattern characters reset *)
Lemma is_prefix_mem a : forall l pat, is_prefix (l ++ [a]) pat = true -> mem_chr a pat = true.
Proof.
  induction l as [|x l IH]; intros [|y pat]; cbn; try discriminate.
  - rewrite andb_true_iff. intros [H _]. rewrite H. reflexivity.
  - rewrite andb_true_iff. intros [_ H]. rewrite (IH _ H). apply orb_true_r.
Qed.

Lemma lsp_other a pat : mem_chr a pat = false -> forall l, lsp pat (l ++ [a]) = (l ++ [a], []).
Proof.
  intros Ha. induction l as [|x l IH]; cbn [lsp app].
  - reflexivity.
  - destruct (is_prefix (l ++ [a]) pat) eqn:E.
    + apply is_prefix_mem in E. congruence.
    + rewrite IH. reflexivity.
Qed.

Lemma stage_step_other pat rep pend a : mem_chr a pat = false ->
  stage_step (pat, rep) pend a = ([], pend ++ [a]).
Proof.
  intros Ha. unfold stage_step.
  destruct (str_eqb (pend ++ [a]) pat) eqn:E1.
  - apply str_eqb_eq in E1. assert (is_prefix (pend ++ [a]) pat = true) as H
      by (apply is_prefix_spec; exists []; rewrite app_nil_r; symmetry; exact E1).
    apply is_prefix_mem in H. congruence.
  - destruct (is_prefix (pend ++ [a]) pat) eqn:E2.
    + apply is_prefix_mem in E2. congruence.
    + rewrite (lsp_other a pat Ha). reflexivity.
Qed.

Lemma stage_feed_other pat rep a : mem_chr a pat = false -> forall p x,
  stage_feed (pat, rep) p (x ++ [a]) =
  let '(p1, o1) := stage_feed (pat, rep) p x in ([], o1 ++ p1 ++ [a]).
Proof.
  intros Ha p x. rewrite stage_feed_app.
  destruct (stage_feed (pat, rep) p x) as [p1 o1]. cbn [stage_feed].
  rewrite (stage_step_other pat rep p1 a Ha). rewrite app_nil_r. reflexivity.
Qed.

Definition not_in_pats (a : N) (ch : chain) : bool :=
  forallb (fun st : stage => negb (mem_chr a (fst st))) ch.

Lemma chain_feed_other a : forall ch q x, not_in_pats a ch = true -> length q = length ch ->
  chain_feed ch q (x ++ [a]) = (init_q ch, chain_flush_from ch q x ++ [a]).
Proof.
  induction ch as [|[pat rep] ch IH]; intros q x Hn Hl.
  - destruct q; [reflexivity|discriminate].
  - destruct q as [|p q]; [discriminate|]. cbn [chain_feed chain_flush_from init_q map].
    cbn [not_in_pats forallb fst] in Hn. apply andb_true_iff in Hn. destruct Hn as [Ha Hn].
    apply negb_true_iff in Ha.
    rewrite (stage_feed_other pat rep a Ha).
    destruct (stage_feed (pat, rep) p x) as [p1 o1].
    rewrite app_assoc. rewrite IH; [reflexivity|exact Hn|].
    cbn in Hl. congruence.
Qed.

(* ------------------------------------------------------------------ small list facts *)
Lemma strip_spec : forall x y u v, strip x y = (u, v) -> exists c, x = c ++ u /\ y = c ++ v.
Proof.
  induction x as [|a x IH]; intros y u v H.
  - cbn in H. inversion H. exists []. split; reflexivity.
  - destruct y as [|b y]; cbn in H.
    + inversion H. exists []. split; reflexivity.
    + destruct (N.eqb_spec a b) as [->|Hab].
      * destruct (IH _ _ _ H) as (c & -> & ->). exists (b :: c). split; reflexivity.
      * inversion H. exists []. split; reflexivity.
Qed.

Lemma all2_In {A B} (f : A -> B -> bool) : forall la lb a,
  all2 f la lb = true -> In a la -> exists b, f a b = true.
Proof.
  induction la as [|x la IH]; intros [|y lb] a H Hin; cbn in *; try contradiction; try discriminate.
  apply andb_true_iff in H. destruct H as [H1 H2]. destruct Hin as [->|Hin].
  - exists y. exact H1.
  - eapply IH; eassumption.
Qed.

Lemma mem_chr_In a : forall l, mem_chr a l = true <-> In a l.
Proof.
  induction l as [|x l IH]; cbn; [split; [discriminate|contradiction]|].
  rewrite orb_true_iff, N.eqb_eq, IH. intuition congruence.
Qed.

Section Sound.
  Variables (P Q : chain) (forb : list (list N)) (crit : list N).

  Lemma pats_crit_other a : pats_crit P Q crit = true -> mem_chr a crit = false ->
    not_in_pats a P = true /\ not_in_pats a Q = true.
  Proof.
    unfold pats_crit. rewrite forallb_app, andb_true_iff. intros [HP HQ] Ha.
    assert (forall ch, forallb (fun st : stage => forallb (fun c => mem_chr c crit) (fst st)) ch = true ->
                       not_in_pats a ch = true) as H.
    { intros ch Hch. unfold not_in_pats. rewrite forallb_forall in *. intros st Hst.
      specialize (Hch st Hst). apply negb_true_iff. destruct (mem_chr a (fst st)) eqn:E; [|reflexivity].
      apply mem_chr_In in E. rewrite forallb_forall in Hch. rewrite (Hch a E) in Ha. discriminate. }
    split; apply H; assumption.
  Qed.

  Theorem check_sound (c : cert) : check P Q forb crit c = true ->
    forall w r idxs, In (r, idxs) c -> gaccepts forb crit (pg r) w = true ->
    dP r ++ run_from P (pp r) w = dS r ++ run_from Q (ps r) w.
  Proof.
    unfold check. rewrite !andb_true_iff. intros [[Hpc Hinit] Hall].
    rewrite forallb_forall in Hall.
    assert (exists idx0, In (init_pst P Q, idx0) c) as [idx0 Hin0].
    { destruct c as [|[r0 i0] c']; [discriminate|]. apply pst_eqb_eq in Hinit. subst r0.
      exists i0. left. reflexivity. }
    induction w as [|a w IH]; intros r idxs Hin Hacc.
    - specialize (Hall _ Hin). cbn in Hall. rewrite !andb_true_iff in Hall.
      destruct Hall as [[_ Hf] _]. unfold final_ok in Hf. apply str_eqb_eq in Hf. exact Hf.
    - pose proof (Hall _ Hin) as Hr. cbn in Hr. rewrite !andb_true_iff in Hr.
      destruct Hr as [[Hwf Hf] Hs].
      cbn [gaccepts] in Hacc. destruct (gstep forb crit (pg r) a) as [g'|] eqn:Eg; [|discriminate].
      cbn [run_from].
      destruct (mem_chr a crit) eqn:Ecrit.
      + (* critical character: follow the certificate *)
        apply mem_chr_In in Ecrit.
        destruct (all2_In _ _ _ _ Hs Ecrit) as [idx Hok].
        unfold succ_ok, succ in Hok. rewrite Eg in Hok.
        destruct (chain_feed P (pp r) [a]) as [p' oP] eqn:EP.
        destruct (chain_feed Q (ps r) [a]) as [s' oQ] eqn:EQ.
        destruct (strip (dP r ++ oP) (dS r ++ oQ)) as [u v] eqn:Es.
        destruct (nth_error c idx) as [[r'' idxs'']|] eqn:En; [|discriminate].
        apply pst_eqb_eq in Hok. apply nth_error_In in En.
        specialize (IH r'' idxs'' En). subst r''. cbn [pg pp ps dP dS] in IH.
        specialize (IH Hacc).
        destruct (strip_spec _ _ _ _ Es) as (cp & HcP & HcQ).
        rewrite !app_assoc, HcP, HcQ, <- !app_assoc. f_equal. exact IH.
      + (* any other character: both chains flush and reset *)
        destruct (pats_crit_other a Hpc Ecrit) as [HnP HnQ].
        unfold wf in Hwf. apply andb_true_iff in Hwf. destruct Hwf as [HlP HlQ].
        apply Nat.eqb_eq in HlP, HlQ.
        change [a] with ([] ++ [a]).
        rewrite (chain_feed_other a P (pp r) [] HnP HlP), (chain_feed_other a Q (ps r) [] HnQ HlQ).
        unfold gstep in Eg. rewrite Ecrit in Eg. inversion Eg; subst g'.
        specialize (IH _ _ Hin0 Hacc). cbn [pg pp ps dP dS init_pst app] in IH.
        unfold final_ok in Hf. apply str_eqb_eq in Hf.
        rewrite !app_assoc, Hf, <- !app_assoc. f_equal. f_equal. f_equal. exact IH.
  Qed.

  (* ---------------------------------------------------------------- the guard and substrings *)
  Lemma has_sub_spec f : forall w, has_sub f w = true <-> exists x y, w = x ++ f ++ y.
  Proof.
    induction w as [|a w IH]; cbn [has_sub].
    - rewrite orb_false_r, is_prefix_spec. split.
      + intros [y Hy]. exists [], y. exact Hy.
      + intros (x & y & H). destruct x; [exists y; exact H|discriminate].
    - rewrite orb_true_iff, is_prefix_spec, IH. split.
      + intros [[y Hy]|(x & y & H)]; [exists [], y; exact Hy|exists (a :: x), y; rewrite H; reflexivity].
      + intros (x & y & H). destruct x as [|b x]; [left; exists y; exact H|].
        right. inversion H. exists x, y. reflexivity.
  Qed.

  Lemma is_suffix_spec f l : is_suffix f l = true -> exists x, l = x ++ f.
  Proof.
    unfold is_suffix. rewrite is_prefix_spec. intros [y Hy]. exists (rev y).
    rewrite <- (rev_involutive l), Hy, rev_app_distr, rev_involutive. reflexivity.
  Qed.

  Lemma lastn_suffix k l : exists x, l = x ++ lastn k l.
  Proof.
    unfold lastn. exists (rev (skipn k (rev l))).
    rewrite <- rev_app_distr, firstn_skipn, rev_involutive. reflexivity.
  Qed.

  Lemma guard_accepts : forall w pre g, (exists x, pre = x ++ g) ->
    avoids forb (pre ++ w) = true -> gaccepts forb crit g w = true.
  Proof.
    induction w as [|a w IH]; intros pre g [x Hx] Hav; [reflexivity|].
    cbn [gaccepts]. unfold gstep.
    destruct (mem_chr a crit).
    - destruct (existsb (fun f => is_suffix f (g ++ [a])) forb) eqn:Ee.
      + exfalso. apply existsb_exists in Ee. destruct Ee as (f & Hf & Hs).
        apply is_suffix_spec in Hs. destruct Hs as [z Hz].
        unfold avoids in Hav. rewrite forallb_forall in Hav. specialize (Hav f Hf).
        apply negb_true_iff in Hav.
        assert (has_sub f (pre ++ a :: w) = true) as Hh.
        { apply has_sub_spec. exists (x ++ z), w. subst pre.
          change (a :: w) with ([a] ++ w). rewrite !app_assoc. rewrite <- (app_assoc x g [a]), Hz.
          rewrite !app_assoc. reflexivity. }
        congruence.
      + apply (IH (pre ++ [a])).
        * destruct (lastn_suffix (maxlen forb - 1) (g ++ [a])) as [z Hz].
          exists (x ++ z). subst pre. rewrite <- !app_assoc. rewrite <- Hz. reflexivity.
        * rewrite <- app_assoc. exact Hav.
    - apply (IH (pre ++ [a])); [exists (pre ++ [a]); rewrite app_nil_r; reflexivity|].
      rewrite <- app_assoc. exact Hav.
  Qed.

  (* The theorem the property files use. *)
  Theorem bisim_sound (c : cert) : check P Q forb crit c = true ->
    forall w, avoids forb w = true -> seq_run P w = seq_run Q w.
  Proof.
    intros Hc w Hav. rewrite <- !run_chain_seq. unfold run_chain.
    assert (exists idx0, In (init_pst P Q, idx0) c) as [idx0 Hin0].
    { unfold check in Hc. rewrite !andb_true_iff in Hc. destruct Hc as [[_ Hinit] _].
      destruct c as [|[r0 i0] c']; [discriminate|]. apply pst_eqb_eq in Hinit. subst r0.
      exists i0. left. reflexivity. }
    apply (check_sound c Hc w _ _ Hin0). cbn [pg init_pst].
    apply (guard_accepts w [] []); [exists []; reflexivity|exact Hav].
  Qed.
End Sound.
