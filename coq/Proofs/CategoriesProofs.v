(* C07, CATEGORIES clause: a list of items written as one CATEGORIES value and read back through a
   content line.  The item separator is put into the chain alphabet as a symbol of its own (SEP). *)
Require Import Lib.Base Lib.Chain Gen.Gen_parser Model.Text Proofs.ChainProofs Proofs.ReplaceProofs Proofs.TextProofs.
From Coq Require Import Lia.

Lemma cat_cert_ok : check cat_chain cat_spec_chain forb_cat cat_crit cat_cert = true.
Proof. vm_compute. reflexivity. Qed.

(* ------------------------------------------------------------------ a symbol of no pattern splits a run *)
Lemma init_q_length ch : length (init_q ch) = length ch.
Proof. unfold init_q. apply map_length. Qed.

Lemma seq_run_inert a ch x y : not_in_pats a ch = true ->
  seq_run ch (x ++ a :: y) = seq_run ch x ++ a :: seq_run ch y.
Proof.
  intros Hn. rewrite <- !flush_init_seq.
  change (x ++ a :: y) with (x ++ [a] ++ y). rewrite app_assoc, chain_flush_app.
  rewrite (chain_feed_other a ch (init_q ch) x Hn (init_q_length ch)).
  rewrite <- app_assoc. reflexivity.
Qed.

Lemma seq_run_join a ch : not_in_pats a ch = true -> forall items, items <> [] ->
  seq_run ch (join_chr a items) = join_chr a (map (seq_run ch) items).
Proof.
  intros Hn. induction items as [|x r IH]; intros Hne; [congruence|].
  destruct r as [|y r]; [reflexivity|].
  change (join_chr a (x :: y :: r)) with (x ++ a :: join_chr a (y :: r)).
  rewrite (seq_run_inert a ch _ _ Hn), IH by discriminate. reflexivity.
Qed.

(* ------------------------------------------------------------------ replace introduces no new character *)
Lemma mem_chr_app a x y : mem_chr a (x ++ y) = mem_chr a x || mem_chr a y.
Proof. induction x as [|c x IH]; [reflexivity|]. cbn [app mem_chr]. rewrite IH, orb_assoc. reflexivity. Qed.

Lemma py_replace_aux_mem a pat rep : mem_chr a rep = false -> forall s k,
  mem_chr a s = false -> mem_chr a (py_replace_aux pat rep k s) = false.
Proof.
  intros Hr. induction s as [|c s IH]; intros k Hs; [reflexivity|].
  cbn [mem_chr] in Hs. apply orb_false_iff in Hs. destruct Hs as [Hc Hs].
  cbn [py_replace_aux]. destruct k as [|k]; [|apply IH; exact Hs].
  destruct (is_prefix pat (c :: s)).
  - rewrite mem_chr_app, Hr, IH by exact Hs. reflexivity.
  - cbn [mem_chr]. rewrite Hc, IH by exact Hs. reflexivity.
Qed.

Definition chain_clean (a : N) (ch : chain) : bool :=
  forallb (fun st : stage => negb (mem_chr a (snd st)) && negb (match fst st with [] => true | _ => false end)) ch.

Lemma seq_run_mem a : forall ch s, chain_clean a ch = true -> mem_chr a s = false ->
  mem_chr a (seq_run ch s) = false.
Proof.
  induction ch as [|[pat rep] ch IH]; intros s Hc Hs; [exact Hs|].
  cbn [chain_clean forallb fst snd] in Hc. apply andb_true_iff in Hc. destruct Hc as [H1 Hc].
  apply andb_true_iff in H1. destruct H1 as [Hrep Hpat]. apply negb_true_iff in Hrep.
  change (seq_run ((pat, rep) :: ch) s) with (seq_run ch (stage_run (pat, rep) s)).
  apply IH; [exact Hc|]. rewrite stage_run_py_replace by (destruct pat; [discriminate|discriminate]).
  apply py_replace_aux_mem; assumption.
Qed.

(* ------------------------------------------------------------------ SEP -> comma on a joined list *)
Lemma py_replace_single_clean c rep s : mem_chr c s = false ->
  py_replace [c] rep s = s.
Proof.
  intros H. unfold py_replace. rewrite py_replace_single.
  induction s as [|x s IH]; [reflexivity|]. cbn [mem_chr] in H. apply orb_false_iff in H. destruct H as [H1 H2].
  cbn [flat_map]. rewrite N.eqb_sym, H1. cbn [app]. rewrite IH by exact H2. reflexivity.
Qed.

Lemma sep_stage_join : forall items, items <> [] -> forallb (fun s => negb (mem_chr SEP s)) items = true ->
  seq_run sep_stage (join_chr SEP items) = join_chr 44 items.
Proof.
  intros items Hne Hall. unfold sep_stage, seq_run. cbn [fold_left].
  rewrite stage_run_py_replace by discriminate. unfold py_replace. rewrite py_replace_single.
  induction items as [|x r IH]; [congruence|].
  cbn [forallb] in Hall. apply andb_true_iff in Hall. destruct Hall as [Hx Hr]. apply negb_true_iff in Hx.
  assert (flat_map (fun c => if c =? SEP then [44] else [c]) x = x) as Ex.
  { pose proof (py_replace_single_clean SEP [44] x Hx) as E. unfold py_replace in E.
    rewrite py_replace_single in E. exact E. }
  destruct r as [|y r]; [exact Ex|].
  change (join_chr SEP (x :: y :: r)) with (x ++ SEP :: join_chr SEP (y :: r)).
  change (join_chr 44 (x :: y :: r)) with (x ++ 44 :: join_chr 44 (y :: r)).
  rewrite flat_map_app, Ex. cbn [flat_map]. rewrite N.eqb_refl. cbn [app].
  rewrite IH by (discriminate || exact Hr). reflexivity.
Qed.

(* ------------------------------------------------------------------ split after join *)
Lemma split_chr_app_sep sep : forall x y, mem_chr sep x = false ->
  split_chr sep (x ++ sep :: y) = x :: split_chr sep y.
Proof.
  induction x as [|c x IH]; intros y H.
  - cbn [app split_chr]. rewrite N.eqb_refl. reflexivity.
  - cbn [mem_chr] in H. apply orb_false_iff in H. destruct H as [H1 H2].
    cbn [app split_chr]. rewrite N.eqb_sym, H1, IH by exact H2. reflexivity.
Qed.

Lemma split_chr_clean sep : forall x, mem_chr sep x = false -> split_chr sep x = [x].
Proof.
  induction x as [|c x IH]; intros H; [reflexivity|].
  cbn [mem_chr] in H. apply orb_false_iff in H. destruct H as [H1 H2].
  cbn [split_chr]. rewrite N.eqb_sym, H1, IH by exact H2. reflexivity.
Qed.

Lemma split_join sep : forall items, items <> [] -> forallb (fun s => negb (mem_chr sep s)) items = true ->
  split_chr sep (join_chr sep items) = items.
Proof.
  induction items as [|x r IH]; intros Hne Hall; [congruence|].
  cbn [forallb] in Hall. apply andb_true_iff in Hall. destruct Hall as [Hx Hr]. apply negb_true_iff in Hx.
  destruct r as [|y r]; [apply split_chr_clean; exact Hx|].
  change (join_chr sep (x :: y :: r)) with (x ++ sep :: join_chr sep (y :: r)).
  rewrite split_chr_app_sep by exact Hx. rewrite IH by (discriminate || exact Hr). reflexivity.
Qed.

(* ------------------------------------------------------------------ the guard on the joined word *)
Lemma is_prefix_inert a : forall f x y, mem_chr a f = false -> f <> [] ->
  is_prefix f (x ++ a :: y) = is_prefix f x.
Proof.
  induction f as [|c f IH]; intros x y Hf Hne; [congruence|].
  cbn [mem_chr] in Hf. apply orb_false_iff in Hf. destruct Hf as [Hc Hf].
  destruct x as [|d x]; cbn [app is_prefix].
  - rewrite (N.eqb_sym c a), Hc. reflexivity.
  - destruct f as [|e f]; [destruct (c =? d); cbn [is_prefix]; reflexivity|].
    rewrite (IH x y Hf) by discriminate. reflexivity.
Qed.

Lemma has_sub_nil_r f : f <> [] -> has_sub f [] = false.
Proof. destruct f; [congruence|reflexivity]. Qed.

Lemma has_sub_inert a f : mem_chr a f = false -> f <> [] -> forall x y,
  has_sub f (x ++ a :: y) = has_sub f x || has_sub f y.
Proof.
  intros Hf Hne. induction x as [|c x IH]; intros y.
  - cbn [app]. rewrite (has_sub_nil_r f Hne). cbn [orb has_sub].
    change (a :: y) with ([] ++ a :: y). rewrite (is_prefix_inert a f [] y Hf Hne).
    destruct f; [congruence|reflexivity].
  - cbn [app has_sub]. change (c :: x ++ a :: y) with ((c :: x) ++ a :: y).
    rewrite (is_prefix_inert a f (c :: x) y Hf Hne), IH, orb_assoc. reflexivity.
Qed.

Lemma ends_bs_app_cons x c : ends_bs (x ++ [c]) = (c =? 92).
Proof.
  unfold ends_bs. rewrite rev_app_distr. cbn [rev app].
  destruct (N.eqb_spec c 92) as [->|H]; [reflexivity|].
  destruct c as [|p]; [reflexivity|]. do 7 (destruct p as [p|p|]; try reflexivity). congruence.
Qed.

Lemma has_sub_bs_sep : forall x y, mem_chr SEP x = false ->
  has_sub [92; SEP] (x ++ SEP :: y) = ends_bs x || has_sub [92; SEP] y.
Proof.
  induction x as [|c x IH]; intros y Hx.
  - cbn [app has_sub is_prefix]. reflexivity.
  - cbn [mem_chr] in Hx. apply orb_false_iff in Hx. destruct Hx as [Hc Hx].
    cbn [app]. cbn [has_sub]. rewrite IH by exact Hx.
    destruct x as [|d x].
    + cbn [app is_prefix]. rewrite N.eqb_refl. cbn [andb].
      change (ends_bs [c]) with (ends_bs ([] ++ [c])). rewrite ends_bs_app_cons.
      rewrite (N.eqb_sym 92 c). rewrite andb_true_r. cbn [ends_bs rev app orb]. reflexivity.
    + cbn [app is_prefix]. cbn [mem_chr] in Hx. apply orb_false_iff in Hx. destruct Hx as [Hd _].
      rewrite Hd. rewrite andb_false_r. cbn [andb orb].
      assert (ends_bs (c :: d :: x) = ends_bs (d :: x)) as ->; [|reflexivity].
      destruct (@exists_last _ (d :: x)) as [l [z E]]; [discriminate|]. rewrite E.
      change (c :: l ++ [z]) with ((c :: l) ++ [z]). rewrite !ends_bs_app_cons. reflexivity.
Qed.

Lemma avoids_app f g w : avoids (f ++ g) w = avoids f w && avoids g w.
Proof. unfold avoids. apply forallb_app. Qed.

Lemma forb_line_inert : forallb (fun f => negb (mem_chr SEP f) && negb (match f with [] => true | _ => false end)) forb_line = true.
Proof. reflexivity. Qed.

Lemma avoids_inert a forb : forallb (fun f => negb (mem_chr a f) && negb (match f with [] => true | _ => false end)) forb = true ->
  forall x y, avoids forb (x ++ a :: y) = avoids forb x && avoids forb y.
Proof.
  intros H x y. unfold avoids. induction forb as [|f forb IH]; [reflexivity|].
  cbn [forallb] in *. apply andb_true_iff in H. destruct H as [Hf H].
  apply andb_true_iff in Hf. destruct Hf as [H1 H2]. apply negb_true_iff in H1.
  rewrite has_sub_inert by (exact H1 || (destruct f; [discriminate|discriminate])).
  rewrite IH by exact H. rewrite negb_orb.
  destruct (negb (has_sub f x)), (negb (has_sub f y)), (forallb (fun f0 => negb (has_sub f0 x)) forb); reflexivity.
Qed.

Lemma cat_item_ok_parts s : cat_item_ok s = true ->
  line_safe s = true /\ mem_chr 44 s = false /\ mem_chr SEP s = false.
Proof.
  unfold cat_item_ok. rewrite !andb_true_iff, !negb_true_iff. tauto.
Qed.

Lemma has_sub_bs_sep_clean : forall x, mem_chr SEP x = false -> has_sub [92; SEP] x = false.
Proof.
  induction x as [|c x IH]; intros H; [reflexivity|].
  cbn [mem_chr] in H. apply orb_false_iff in H. destruct H as [H1 H2].
  cbn [has_sub]. rewrite IH by exact H2. rewrite orb_false_r.
  destruct x as [|d x]; cbn [is_prefix]; [apply andb_false_r|].
  cbn [mem_chr] in H2. apply orb_false_iff in H2. destruct H2 as [Hd _].
  rewrite Hd, andb_false_r. reflexivity.
Qed.

Lemma cat_guard : forall items, cat_items_ok items = true ->
  avoids forb_cat (join_chr SEP items) = true
  /\ forallb (fun s => negb (mem_chr SEP s)) items = true
  /\ forallb (fun s => negb (mem_chr 44 s)) items = true.
Proof.
  induction items as [|x r IH]; intros H; [discriminate|].
  destruct r as [|y r].
  - cbn [cat_items_ok] in H. apply cat_item_ok_parts in H. destruct H as [H1 [H2 H3]].
    cbn [join_chr forallb]. rewrite H2, H3. cbn [negb andb]. repeat split.
    unfold forb_cat. rewrite avoids_app. unfold line_safe in H1. rewrite H1. cbn [andb].
    unfold avoids. cbn [forallb]. rewrite has_sub_bs_sep_clean by exact H3. reflexivity.
  - change (cat_items_ok (x :: y :: r)) with (cat_item_ok x && negb (ends_bs x) && cat_items_ok (y :: r)) in H.
    apply andb_true_iff in H. destruct H as [H Hr]. apply andb_true_iff in H. destruct H as [Hx Hb].
    apply negb_true_iff in Hb. apply cat_item_ok_parts in Hx. destruct Hx as [H1 [H2 H3]].
    destruct (IH Hr) as [A [B C]].
    change (join_chr SEP (x :: y :: r)) with (x ++ SEP :: join_chr SEP (y :: r)).
    cbn [forallb]. cbn [forallb] in B, C. rewrite H2, H3, B, C. cbn [negb andb]. repeat split.
    unfold forb_cat in *. rewrite avoids_app in *. apply andb_true_iff in A. destruct A as [A1 A2].
    rewrite (avoids_inert SEP forb_line forb_line_inert). unfold line_safe in H1. rewrite H1, A1. cbn [andb].
    unfold avoids in *. cbn [forallb] in *. rewrite has_sub_bs_sep by exact H3. rewrite Hb. cbn [orb].
    exact A2.
Qed.

(* ------------------------------------------------------------------ the theorem *)
Lemma norm_clean a : a <> 10 -> forall s, mem_chr a s = false -> mem_chr a (norm s) = false.
Proof.
  intros Ha s H. unfold norm. apply seq_run_mem; [|exact H].
  unfold norm_chain, chain_clean. cbn [forallb fst snd mem_chr].
  destruct (N.eqb_spec a 10) as [E|_]; [congruence|]. reflexivity.
Qed.

Lemma escape_char_clean s : mem_chr SEP s = false -> mem_chr SEP (escape_char s) = false.
Proof. intros H. unfold escape_char. apply seq_run_mem; [reflexivity|exact H]. Qed.

Lemma forallb_map {A B} (f : A -> B) (p : B -> bool) l : forallb p (map f l) = forallb (fun x => p (f x)) l.
Proof. induction l as [|x l IH]; [reflexivity|]. cbn [map forallb]. rewrite IH. reflexivity. Qed.

Lemma forallb_impl {A} (p q : A -> bool) l : (forall x, p x = true -> q x = true) -> forallb p l = true -> forallb q l = true.
Proof.
  intros H. induction l as [|x l IH]; [reflexivity|]. cbn [forallb]. rewrite !andb_true_iff.
  intros [H1 H2]. split; [apply H; exact H1|apply IH; exact H2].
Qed.

Theorem categories_line items : cat_items_ok items = true ->
  categories_via_line items = map norm items.
Proof.
  intros Hok. destruct (cat_guard items Hok) as [Hav [Hsep Hcomma]].
  assert (items <> []) as Hne by (destruct items; [discriminate|discriminate]).
  assert (map escape_char items <> []) as Hne2 by (destruct items; [congruence|discriminate]).
  assert (map norm items <> []) as Hne3 by (destruct items; [congruence|discriminate]).
  unfold categories_via_line, vcategory_from_ical, vcategory_to_ical, line_value_path.
  (* the joined text is the chain "escape_char; SEP -> comma" on the SEP-joined items *)
  assert (join_chr 44 (map escape_char items) = seq_run (escape_char_chain ++ sep_stage) (join_chr SEP items)) as E1.
  { rewrite seq_run_app. rewrite (seq_run_join SEP escape_char_chain eq_refl items Hne).
    change (seq_run escape_char_chain) with escape_char.
    rewrite sep_stage_join; [reflexivity|exact Hne2|].
    rewrite forallb_map. eapply forallb_impl; [|exact Hsep]. intros s Hs. cbn beta in *.
    apply negb_true_iff in Hs. rewrite (escape_char_clean s Hs). reflexivity. }
  rewrite E1. unfold unescape_char, unescape_string, escape_string.
  rewrite <- !seq_run_app. rewrite <- ?app_assoc.
  change (escape_char_chain ++ sep_stage ++ escape_string_chain ++ unescape_string_chain ++ unescape_char_chain) with cat_chain.
  rewrite (bisim_sound _ _ _ _ _ cat_cert_ok (join_chr SEP items) Hav).
  unfold cat_spec_chain. rewrite seq_run_app.
  rewrite (seq_run_join SEP norm_chain eq_refl items Hne). change (seq_run norm_chain) with norm.
  rewrite sep_stage_join; [|exact Hne3|].
  - apply split_join; [exact Hne3|]. rewrite forallb_map. eapply forallb_impl; [|exact Hcomma].
    intros s Hs. cbn beta in *. apply negb_true_iff in Hs. rewrite (norm_clean 44 ltac:(discriminate) s Hs). reflexivity.
  - rewrite forallb_map. eapply forallb_impl; [|exact Hsep].
    intros s Hs. cbn beta in *. apply negb_true_iff in Hs. rewrite (norm_clean SEP ltac:(discriminate) s Hs). reflexivity.
Qed.

(* the guard is tight on each side *)
Lemma categories_comma_refuted : exists items, categories_via_line items <> map norm items.
Proof. exists [[97; 44; 98]]. vm_compute. discriminate. Qed.
Lemma categories_backslash_refuted : exists items, forallb cat_item_ok items = true /\ categories_via_line items <> map norm items.
Proof. exists [[97; 92]; [98]]. split; [reflexivity|vm_compute; discriminate]. Qed.
Lemma categories_empty_refuted : categories_via_line [] <> map norm [].
Proof. vm_compute. discriminate. Qed.
